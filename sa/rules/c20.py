"""C20 — noqa directives suppress exactly the specified violations (partial claim).

The *semantics* of the directives (latest covering range directive wins, per-line directives,
glob expansion, line arithmetic) is an algebra over run-time line numbers and rule sets and is
NOT decided here.  What is decided are the structural clauses without which that algebra cannot
give the stated behaviour on any implementation of it:

R20a  gate.  Every construction of an ``IgnoreMask`` outside ``core/rules/noqa.py`` (today:
      ``Linter.lint_fix_parsed``, ``Linter.lint_parsed``, the CLI's parse-violation filter) is
      reached only on paths on which ``not <config>.get("disable_noqa") or
      <config>.get("disable_noqa_except")`` is known (path-sensitive: early returns, flag
      locals and either spelling of the test are accepted).  The mask stored in a
      ``LintedFile`` is ``None``, the mask of such a construction, or the third element of
      ``lint_fix_parsed``'s result, which in turn is ``None`` or such a construction.
R20b  sibling agreement of the construction sites.  Each site interprets the directives with
      ``allowed_rule_ref_map(<pack>.reference_map, <value of "disable_noqa_except">)`` (directly
      or through a per-call cache filled only with such values); the source based fallback is
      given ``<parsed>.source_str`` (source space, like violation line numbers) and the
      ``dialect_obj`` of a config; the tree based parser takes a directive's line from
      ``pos_marker.source_position()``.
R20c  application.  ``LintedFile.get_violations`` applies the mask exactly under
      ``filter_ignore`` (and the mask's existence), to the running list that started at
      ``self.violations``, and the result reaches the return.  ``ignore_masked_violations``
      splits ``self._ignore_list`` by one attribute into two complementary lists (every
      directive is consulted by exactly one matcher) and returns the violations after both
      matchers.  ``generate_warnings_for_unused`` walks the same ``self._ignore_list`` and warns
      exactly for ``not <directive>.used``.  Marking: the single-line matcher returns a list
      other than its input only after ``self.used = True``; in the range matcher an iteration
      that does not keep the violation passes ``<directive>.used = True`` whenever the range
      decision named a directive; the violation is kept exactly under ``not <ignore>`` of that
      decision.  ``.used`` is written only inside ``NoQaDirective`` / ``IgnoreMask``, always True.
R20d  unmatched references stay matchable (TMP/PRS/LXR).  In ``_parse_noqa`` every reference of
      the directive contributes either its expansion through the reference map or itself:
      the raw reference is added under nothing but "no map key matched" (an additional
      allow-list ``<reference> in (<literals>)`` is accepted when the literals contain PRS, LXR
      and TMP — other unmatched references can match no error code anyway); no reference is
      filtered before expansion; the expanded set is what the directive's ``rules`` holds; both
      matchers test membership of ``<violation>.rule_code()`` (defined for every error class) in
      ``.rules``.
R20e  one encoding of "applies to every rule".  ``_parse_noqa`` encodes it as ``rules = None``;
      a rule list may be empty (a reference can expand to an empty set under
      ``disable_noqa_except``) unless the writer guards against it.  Every reader of ``.rules``
      that decides that case must therefore test identity with ``None`` — a truthiness test
      treats a directive naming only disallowed rules as ``noqa: disable=all``.

Not decided: which directive covers which line, ordering of range directives, glob matching,
the look-ahead "enable" marking, whether a dropped violation without a named directive can occur.
"""

from __future__ import annotations

import ast
from typing import Dict, List, Optional, Set, Tuple

from ..cfg import Branch, atoms, cfg_of, origins
from ..flow import bind_args
from ..flowutil import attr_chain, callee, for_origin, is_fresh_list, is_fresh_set, must_pass, param_origin, sole_expr_origin, within
from ..idioms import component_origins, expanded
from ..index import AnalysisError, FuncNode, arg_of, call_name, calls_in, const, enclosing_class, enclosing_function, kwarg, last_attr, norm, short, walk_local
from ..pathcond import Not, Or, PathFacts, Var, show

NOQA = "src/sqlfluff/core/rules/noqa.py"
LINTER = "src/sqlfluff/core/linter/linter.py"
LFILE = "src/sqlfluff/core/linter/linted_file.py"
FACTORIES = ("from_tree", "from_source", "from_source_with_dialect")
KEY_DN, KEY_DNE = "disable_noqa", "disable_noqa_except"


# ---------------------------------------------------------------------------
# small helpers
# ---------------------------------------------------------------------------
def _cfg_key(e: ast.AST) -> Optional[str]:
    """``<x>.get("<key>")`` -> key."""
    if isinstance(e, ast.Call) and isinstance(e.func, ast.Attribute) and e.func.attr == "get" and e.args and isinstance(const(e.args[0]), str):
        return const(e.args[0])
    return None


def _derives_from_key(cfg, e: ast.AST, at, key: str) -> bool:
    while isinstance(e, ast.Call) and call_name(e) == "bool" and len(e.args) == 1:
        e = e.args[0]
    if _cfg_key(e) == key:
        return True
    if isinstance(e, ast.Name):
        os_ = origins(cfg, e, at)
        return bool(os_) and all(o.kind == "expr" and not o.path and _cfg_key(_unbool(o.expr)) == key for o in os_)
    return False


def _derives_from_key_ip(repo, cfg, f, e: ast.AST, at, key: str) -> bool:
    """As ``_derives_from_key``; a parameter of ``f`` is followed into every call site of ``f``
    (one level: the idiom of an extracted helper)."""
    if _derives_from_key(cfg, e, at, key):
        return True
    pname = param_origin(cfg, e, at)
    if pname is None:
        return False
    from ..gates import callers_of

    sites = callers_of(repo, f)
    if not sites:
        return False
    for g, call in sites:
        b = bind_args(call, f, bound=isinstance(call.func, ast.Attribute) and bool(f.args.args) and f.args.args[0].arg in ("self", "cls"))
        a = b.get(pname)
        gcfg = cfg_of(g)
        if a is None or not _derives_from_key(gcfg, a, gcfg.stmt_of(call), key):
            return False
    return True


def _unbool(e):
    while isinstance(e, ast.Call) and call_name(e) == "bool" and len(e.args) == 1:
        e = e.args[0]
    return e


def _gate_atom(cfg):
    def atom(e, stmt):
        for key, name in ((KEY_DN, "DN"), (KEY_DNE, "DNE")):
            if _derives_from_key(cfg, e, stmt, key):
                return name
        return None

    return atom


def _mask_constructions(repo, mask_cls) -> List[ast.Call]:
    """Calls outside noqa.py that yield a new IgnoreMask (factory class methods or the class)."""
    out = []
    for m in repo.iter_modules():
        if m.relpath == NOQA or "IgnoreMask" not in m.text:
            continue
        for c in ast.walk(m.tree):
            if not isinstance(c, ast.Call):
                continue
            if isinstance(c.func, ast.Attribute) and c.func.attr in FACTORIES:
                r = repo.resolve_name(m, norm(c.func.value))
                if r is not None and r[1] is mask_cls:
                    out.append(c)
            else:
                r = callee(repo, c)
                if r is not None and r[1] is mask_cls:
                    out.append(c)
    return out


def _is_none(e) -> bool:
    return isinstance(e, ast.Constant) and e.value is None


def _name_truth(e, pol: bool) -> Optional[Tuple[ast.Name, bool]]:
    """(local, truth value) that the fact (e, pol) states about a flag / counter / list local:
    ``x``; ``x > 0`` / ``x >= 1`` / ``x != 0`` (truthy when true), ``x == 0`` / ``x < 1`` / ``x <= 0``
    (falsy when true); the same comparisons on ``len(x)``.  Counters and lengths are never negative."""
    if isinstance(e, ast.Name):
        return e, pol
    if isinstance(e, ast.Compare) and len(e.ops) == 1 and isinstance(e.comparators[0], ast.Constant):
        left = e.left
        if isinstance(left, ast.Call) and call_name(left) == "len" and len(left.args) == 1 and not left.keywords:
            left = left.args[0]
        c, op = e.comparators[0].value, e.ops[0]
        if not isinstance(left, ast.Name) or not isinstance(c, int) or isinstance(c, bool):
            return None
        says = None
        if (isinstance(op, ast.Gt) and c == 0) or (isinstance(op, ast.GtE) and c == 1) or (isinstance(op, ast.NotEq) and c == 0):
            says = True
        elif (isinstance(op, ast.Eq) and c == 0) or (isinstance(op, ast.Lt) and c == 1) or (isinstance(op, ast.LtE) and c == 0):
            says = False
        if says is None:
            return None
        return left, (says if pol else not says)
    return None


def _nonempty_name(e, pol: bool) -> Optional[ast.Name]:
    """The local that the fact (e, pol) says is non-empty / non-zero."""
    nt = _name_truth(e, pol)
    return nt[0] if nt is not None and nt[1] else None


def _loop_entry(cfg, loop):
    for n in cfg.succ.get(loop, ()):
        if isinstance(n, Branch) and n.stmt is loop and n.polarity:
            return n
    return None


def _iteration_can_avoid(cfg, loop, stops) -> bool:
    """Is there a way through one iteration of ``loop`` (entry of the body back to the loop
    head) that passes none of the nodes accepted by ``stops``?"""
    start = _loop_entry(cfg, loop)
    if start is None:
        return True
    return cfg.paths_avoiding(start, loop, stops)


def _comp_view(e):
    """(iterable, loop variable name, [(condition, polarity)], element) of a single-generator
    comprehension; None otherwise."""
    if isinstance(e, (ast.ListComp, ast.GeneratorExp, ast.SetComp)) and len(e.generators) == 1:
        g = e.generators[0]
        if isinstance(g.target, ast.Name):
            conds = []
            for t in g.ifs:
                conds += atoms(t, True)
            return g.iter, g.target.id, conds, e.elt
    return None


class _View:
    """One filtered walk of a list: a single-generator comprehension, or an ``append`` inside a
    ``for`` loop.  ``sink`` identifies the produced list (the comprehension node or the name of
    the list appended to)."""

    def __init__(self, node, it, var, conds, elt, sink):
        self.node, self.it, self.var, self.conds, self.elt, self.sink = node, it, var, conds, elt, sink

    def is_value_of(self, cfg, e, at) -> bool:
        if e is self.sink:
            return True
        if isinstance(e, ast.Name):
            if isinstance(self.sink, str):
                return e.id == self.sink
            return any(o.kind == "expr" and o.expr is self.sink for o in origins(cfg, e, at))
        return False


def _views(f, cfg) -> List[_View]:
    out = []
    for n in walk_local(f):
        cv = _comp_view(n)
        if cv is not None:
            out.append(_View(n, cv[0], cv[1], cv[2], cv[3], n))
        elif isinstance(n, ast.For) and isinstance(n.target, ast.Name):
            for c in calls_in(n):
                if last_attr(c) == "append" and isinstance(c.func, ast.Attribute) and isinstance(c.func.value, ast.Name) and len(c.args) == 1:
                    st = cfg.stmt_of(c)
                    if enclosing_loop(st) is not n:
                        continue
                    conds = [(e, p) for e, p in cfg.conditions(st) if _inside(e, n)]
                    out.append(_View(c, n.iter, n.target.id, conds, c.args[0], c.func.value.id))
    return out


def _self_attr(cfg, e, at, attr: str) -> bool:
    """``e`` is ``self.<attr>`` or a local that can only hold it."""
    if attr_chain(e) == ("self", attr):
        return True
    if isinstance(e, ast.Name):
        os_ = origins(cfg, e, at)
        return bool(os_) and all(o.kind == "expr" and not o.path and attr_chain(o.expr) == ("self", attr) for o in os_)
    return False


def _subst(e: ast.AST, var: str) -> str:
    """Normalised text of ``e`` with the comprehension variable replaced by ``$``."""
    import re

    return re.sub(r"(?<![\w.])" + re.escape(var) + r"(?!\w)", "$", norm(e))


class _Chain:
    """Backward walk of a "rolling filter": from a value to where it started, through plain
    names, identity comprehensions with filters, ``+=`` and calls of the mask matchers."""

    def __init__(self, cfg, through: Tuple[str, ...], first: str = "violations"):
        self.cfg = cfg
        self.through = through
        self.first = first  # keyword name of the list argument of the ``through`` calls
        self.roots: List[ast.AST] = []
        self.calls: List[ast.Call] = []
        self.added: List[ast.AST] = []
        self.opaque: List[ast.AST] = []
        self._seen: Set[int] = set()

    def walk(self, e: ast.AST, at) -> None:
        rd = self.cfg.reaching()
        if isinstance(e, ast.Name):
            ds = rd.defs_at(at, e.id)
            if not ds:
                self.opaque.append(e)
            for d in ds:
                if id(d) in self._seen:
                    continue
                self._seen.add(id(d))
                if d.kind == "param":
                    self.roots.append(d.node)
                elif d.kind in ("assign", "walrus") and not d.path and is_fresh_list(d.value):
                    # ``kept = []`` filled by ``for x in <list>: if ..: kept.append(x)``: an identity
                    # filter of <list> spelled as a loop
                    srcs = _append_loop_sources(self.cfg, e.id)
                    if srcs is None:
                        self.opaque.append(d.node)
                    else:
                        for loop in srcs:
                            self.walk(loop.iter, loop)
                elif d.kind in ("assign", "walrus") and not d.path:
                    self.walk(d.value, d.stmt)
                elif d.kind == "aug":
                    self.added.append(d.value)
                else:
                    self.opaque.append(d.node)
            return
        cv = _comp_view(e)
        if cv is not None and isinstance(cv[3], ast.Name) and cv[3].id == cv[1]:
            self.walk(cv[0], at)
            return
        if isinstance(e, ast.Call) and last_attr(e) in self.through and arg_of(e, 0, self.first) is not None:
            self.calls.append(e)
            self.walk(arg_of(e, 0, self.first), at)
            return
        if isinstance(e, ast.Call) and call_name(e) in ("list", "tuple") and len(e.args) == 1:
            self.walk(e.args[0], at)
            return
        if isinstance(e, ast.Call) and call_name(e) == "filter" and len(e.args) == 2 and not e.keywords:
            self.walk(e.args[1], at)  # filter(pred, xs): an identity filter of xs
            return
        self.roots.append(e)


def _append_loop_sources(cfg, name: str):
    """The ``for`` loops that fill the list local ``name`` with their own loop variable
    (``for x in L: .. name.append(x)``); None when the list is changed in any other way."""
    loops = []
    for n in walk_local(cfg.func):
        if isinstance(n, ast.Call) and isinstance(n.func, ast.Attribute) and isinstance(n.func.value, ast.Name) and n.func.value.id == name:
            if n.func.attr in ("copy", "count", "index"):
                continue
            if n.func.attr != "append" or len(n.args) != 1 or n.keywords:
                return None
            st = cfg.stmt_of(n)
            fo = for_origin(cfg, n.args[0], st)
            if fo is None or fo[1] or not isinstance(fo[0], ast.For) or enclosing_loop(st) is not fo[0]:
                return None
            loops.append(fo[0])
        elif isinstance(n, (ast.Assign, ast.AugAssign, ast.Delete)):
            tg = n.targets if isinstance(n, (ast.Assign, ast.Delete)) else [n.target]
            if any(isinstance(t_, ast.Subscript) and isinstance(t_.value, ast.Name) and t_.value.id == name for t_ in tg):
                return None
    return loops or None


# ---------------------------------------------------------------------------
# R20a
# ---------------------------------------------------------------------------
def _r20a(chk, repo, mask_cls, sites) -> Dict[int, bool]:
    goal = Or(Not(Var("DN")), Var("DNE"))
    gated: Dict[int, bool] = {}
    chk.count("R20a.mask_construction_sites", len(sites))
    chk.floor("R20a.mask_construction_sites", 3)
    for c in sites:
        f = enclosing_function(c)
        if f is None:
            chk.fail("R20a", c, "an IgnoreMask is built at module level, outside any disable_noqa gate", detail="module-level mask construction")
            continue
        cfg = cfg_of(f)
        pf = PathFacts(cfg, _gate_atom(cfg))
        st = cfg.stmt_of(c)
        ok, cex = pf.holds_at(st, goal)
        via = ""
        if not ok:
            # extracted helper: the gate may sit at every call site of the enclosing function
            from ..gates import callers_of

            callers = callers_of(repo, f)
            if callers:
                ok = True
                for g, call in callers:
                    gcfg = cfg_of(g)
                    gok, _ = PathFacts(gcfg, _gate_atom(gcfg)).holds_at(gcfg.stmt_of(call), goal)
                    ok = ok and gok
                via = " (gate at every call site of the enclosing helper)" if ok else ""
        gated[id(c)] = ok
        known = " and ".join(show(x) for x in (cex or [])) or "nothing"
        chk.require(
            ok, "R20a", c,
            f"{short(c, 60)} can be reached while noqa processing is switched off: 'not disable_noqa or disable_noqa_except' is not known on every path "
            f"(known on one path: {known}); directives would hide violations although disable_noqa is set",
            detail=f"{last_attr(c)} gated by disable_noqa / disable_noqa_except",
        )
        chk.sample({"rule": "R20a", "site": f"{c._module.relpath}:{c.lineno}", "function": getattr(f, "_qualname", f.name), "gate_known": ok, "how": via.strip() or "in the function"})

    site_ids = {id(c) for c in sites}

    def mask_origin_ok(o, extra_calls=(), _depth=0) -> bool:
        if o.kind != "expr":
            return False
        if _is_none(o.expr) and not o.path:
            return True
        if isinstance(o.expr, ast.Call) and id(o.expr) in site_ids and (o.path == (0,) or (not o.path and last_attr(o.expr) not in FACTORIES)):
            return True
        if any(isinstance(o.expr, ast.Call) and last_attr(o.expr) == n and o.path == p for n, p in extra_calls):
            return True
        # an extracted helper that hands back (mask, ...) built at one of the sites
        if isinstance(o.expr, ast.Call) and _depth == 0:
            r = callee(repo, o.expr)
            if r is not None and isinstance(r[1], FuncNode):
                h = r[1]
                hcfg = cfg_of(h)
                rets = [x for x in walk_local(h) if isinstance(x, ast.Return) and x.value is not None]
                if not rets:
                    return False
                for x in rets:
                    v, path = x.value, o.path
                    while path and isinstance(v, ast.Tuple) and isinstance(path[0], int) and path[0] < len(v.elts):
                        v, path = v.elts[path[0]], path[1:]
                    if _is_none(v) and not path:
                        continue
                    if isinstance(v, ast.Call) and not path and id(v) in site_ids and last_attr(v) not in FACTORIES:
                        continue
                    if isinstance(v, ast.Call) and id(v) in site_ids and path == (0,):
                        continue
                    hos = origins(hcfg, v, x) if isinstance(v, ast.Name) else []
                    if not hos or not all(mask_origin_ok(type(ho)(ho.expr, ho.path + path, ho.kind, ho.stmt), _depth=1) for ho in hos):
                        return False
                return True
        return False

    # lint_fix_parsed hands back (tree, errors, mask, timings)
    lfp = repo.fn(LINTER, "Linter.lint_fix_parsed")
    lcfg = cfg_of(lfp)
    rets = [r for r in walk_local(lfp) if isinstance(r, ast.Return) and isinstance(r.value, ast.Tuple) and len(r.value.elts) >= 3]
    chk.count("R20a.lint_fix_parsed_returns", len(rets))
    chk.floor("R20a.lint_fix_parsed_returns", 1)
    for r in rets:
        e = r.value.elts[2]
        os_ = component_origins(lcfg, e, r) if isinstance(e, (ast.Name, ast.Subscript)) else None
        good = (os_ is not None and bool(os_) and all(mask_origin_ok(o) for o in os_)) or _is_none(e)
        chk.require(good, "R20a", r, "the mask returned by lint_fix_parsed is not (None | the mask built under the disable_noqa gate)", detail="lint_fix_parsed returns gated mask or None")

    # every LintedFile stores such a mask
    lf = repo.cls(LFILE, "LintedFile")
    fields = [s.target.id for s in lf.body if isinstance(s, ast.AnnAssign) and isinstance(s.target, ast.Name)]
    if "ignore_mask" not in fields:
        raise AnalysisError("LintedFile has no ignore_mask field")
    pos = fields.index("ignore_mask")
    from .c30 import _constructions

    n = 0
    for call in _constructions(repo, lf):
        n += 1
        fn = enclosing_function(call)
        cfg = cfg_of(fn)
        v = kwarg(call, "ignore_mask")
        if v is None and pos < len(call.args) and not any(isinstance(a, ast.Starred) for a in call.args):
            v = call.args[pos]
        if v is None:
            chk.fail("R20a", call, "LintedFile built without a traceable ignore_mask argument", detail="LintedFile(ignore_mask=...)")
            continue
        if _is_none(v):
            chk.ok("R20a", f"{call._module.relpath}::{getattr(fn, '_qualname', fn.name)}", "LintedFile(ignore_mask=None)")
            continue
        os_ = component_origins(cfg, v, cfg.stmt_of(call)) if isinstance(v, (ast.Name, ast.Subscript)) else []
        good = bool(os_) and all(mask_origin_ok(o, extra_calls=(("lint_fix_parsed", (2,)),)) for o in os_)
        chk.require(
            good, "R20a", call,
            "the mask stored in a LintedFile is not (None | a mask built under the disable_noqa gate | lint_fix_parsed(...)[2])",
            detail="LintedFile mask is gated or None",
        )
    chk.count("R20a.lintedfile_constructions", n)
    chk.floor("R20a.lintedfile_constructions", 1)
    return gated


# ---------------------------------------------------------------------------
# R20b
# ---------------------------------------------------------------------------
def _ref_map_ok(repo, cfg, f, e, at, depth=0) -> Tuple[bool, str]:
    """``e`` is allowed_rule_ref_map(<x>.reference_map, <disable_noqa_except>) or a read of a
    per-call cache that is only ever filled with such values."""
    exprs = [(o.expr, o.stmt, o.kind, o.path) for o in origins(cfg, e, at)] if isinstance(e, ast.Name) else [(e, at, "expr", ())]
    if not exprs:
        return False, "no definition found"
    for x, st, kind, path in exprs:
        if kind != "expr" or path:
            return False, f"comes from {kind} {short(x, 50) if isinstance(x, ast.AST) else x}"
        if isinstance(x, ast.Call) and last_attr(x) == "allowed_rule_ref_map":
            a0 = x.args[0] if x.args else kwarg(x, "reference_map")
            a1 = x.args[1] if len(x.args) > 1 else kwarg(x, "disable_noqa_except")
            src0 = [o.expr for o in origins(cfg, a0, st)] if isinstance(a0, ast.Name) else [a0]
            if not all(isinstance(s, ast.Attribute) and s.attr == "reference_map" for s in src0):
                return False, "first argument of allowed_rule_ref_map is not a rule pack's reference_map"
            if a1 is None or not _derives_from_key_ip(repo, cfg, f, a1, st, KEY_DNE):
                return False, "second argument of allowed_rule_ref_map is not the value of config key 'disable_noqa_except'"
            continue
        if isinstance(x, ast.Subscript) and isinstance(x.value, ast.Name) and depth == 0:
            cache = x.value.id
            stores = [
                n for n in walk_local(f)
                if isinstance(n, ast.Assign) and any(isinstance(t, ast.Subscript) and isinstance(t.value, ast.Name) and t.value.id == cache for t in n.targets)
            ]
            if not stores:
                return False, f"read from {cache}[...] which is filled elsewhere"
            for s in stores:
                ok, why = _ref_map_ok(repo, cfg, f, s.value, s, depth + 1)
                if not ok:
                    return False, f"cache {cache} is filled with something else ({why})"
            continue
        return False, f"is {short(x, 60)}"
    return True, ""


def _r20b(chk, repo, mask_cls, sites) -> None:
    nm = repo.mod(NOQA)
    n = 0
    for c in sites:
        if not (isinstance(c.func, ast.Attribute) and c.func.attr in FACTORIES):
            chk.fail("R20b", c, "an IgnoreMask is built directly from a directive list outside noqa.py: the directives are not read with the allowed reference map", detail="IgnoreMask(...) outside noqa.py")
            continue
        n += 1
        f = enclosing_function(c)
        cfg = cfg_of(f)
        st = cfg.stmt_of(c)
        target = repo.fn(NOQA, f"IgnoreMask.{c.func.attr}")
        b = bind_args(c, target, bound=True)
        rm = b.get("reference_map")
        ok, why = (False, "no reference_map argument") if rm is None else _ref_map_ok(repo, cfg, f, rm, st)
        chk.require(
            ok, "R20b", c,
            f"{c.func.attr}: the reference map {why}; the construction sites must all read directives with allowed_rule_ref_map(<pack>.reference_map, <disable_noqa_except>)",
            detail=f"{c.func.attr} map = allowed_rule_ref_map(reference_map, disable_noqa_except)",
        )
        if "source" in b:
            src = b["source"]
            xs = [o.expr for o in origins(cfg, src, st)] if isinstance(src, ast.Name) else [src]
            good = bool(xs) and all(isinstance(x, ast.Attribute) and x.attr == "source_str" for x in xs)
            chk.require(
                good, "R20b", c,
                f"{c.func.attr} is given {short(src, 50)}, not a .source_str: directive line numbers would be counted in a different text than violation line numbers (source space)",
                detail=f"{c.func.attr} reads the source string",
            )
        if "dialect" in b:
            d = b["dialect"]
            good = _derives_from_key_ip(repo, cfg, f, d, st, "dialect_obj")
            chk.require(good, "R20b", c, f"{c.func.attr}: the comment matcher is not taken from the config's dialect_obj", detail=f"{c.func.attr} dialect = config dialect_obj")
    chk.count("R20b.factory_sites", n)
    chk.floor("R20b.factory_sites", 3)

    # tree based parser: directive line from the comment's source position
    ex = repo.fn(NOQA, "IgnoreMask._extract_ignore_from_comment")
    pn = repo.fn(NOQA, "IgnoreMask._parse_noqa")
    cfg = cfg_of(ex)
    calls = [c for c in calls_in(ex) if last_attr(c) == "_parse_noqa"]
    chk.count("R20b.tree_parse_noqa_calls", len(calls))
    chk.floor("R20b.tree_parse_noqa_calls", 1)
    cparam = [a.arg for a in ex.args.args if a.arg not in ("self", "cls")]
    for c in calls:
        b = bind_args(c, pn, bound=False)
        ln = b.get("line_no")
        os_ = component_origins(cfg, ln, cfg.stmt_of(c)) if isinstance(ln, (ast.Name, ast.Subscript)) else []

        def _recv_chain(o):
            # receiver of <x>.source_position(), a marker kept in a local looked through
            return attr_chain(expanded(cfg, o.expr.func.value, o.stmt)) or ("",)

        good = bool(os_) and all(
            o.kind == "expr" and tuple(o.path) == (0,) and isinstance(o.expr, ast.Call) and last_attr(o.expr) == "source_position" and isinstance(o.expr.func, ast.Attribute)
            and _recv_chain(o)[0] == (cparam[0] if cparam else None) and "pos_marker" in _recv_chain(o)
            for o in os_
        )
        chk.require(
            good, "R20b", c,
            "the tree based directive parser does not take the directive's line from <comment>.pos_marker.source_position()[0]: in templated files the directive would sit on another line than the violations it names",
            detail="directive line = comment source position",
        )
    # from_source: lines come from splitting the source parameter
    fs = repo.fn(NOQA, "IgnoreMask.from_source")
    cfg = cfg_of(fs)
    sparam = [a.arg for a in fs.args.args if a.arg not in ("self", "cls")]
    loops = [l for l in walk_local(fs) if isinstance(l, ast.For) and any(last_attr(c) == "_parse_noqa" for c in calls_in(l))]
    chk.count("R20b.source_line_loops", len(loops))
    chk.floor("R20b.source_line_loops", 1)
    for l in loops:
        it = l.iter
        if isinstance(it, ast.Call) and call_name(it) == "enumerate" and it.args:
            it = it.args[0]
        it = expanded(cfg, it, l)  # ``lines = source.split(..)`` kept in a local
        good = isinstance(it, ast.Call) and isinstance(it.func, ast.Attribute) and param_origin(cfg, it.func.value, l) == (sparam[0] if sparam else None) \
            and ((last_attr(it) == "split" and it.args and const(it.args[0]) == "\n") or (last_attr(it) == "splitlines" and not it.args))
        chk.require(good, "R20b", l, "from_source does not walk the lines of its own source argument", detail="from_source walks the lines of its source argument")


# ---------------------------------------------------------------------------
# R20c
# ---------------------------------------------------------------------------
def _used_stores(f) -> List[ast.Assign]:
    out = []
    for n in walk_local(f):
        if isinstance(n, ast.Assign) and any(isinstance(t, ast.Attribute) and t.attr == "used" for t in n.targets):
            out.append(n)
    return out


def _r20c(chk, repo, mask_cls) -> None:
    # ---- get_violations ------------------------------------------------
    gv = repo.fn(LFILE, "LintedFile.get_violations")
    cfg = cfg_of(gv)
    mcalls = [c for c in calls_in(gv) if last_attr(c) == "ignore_masked_violations"]
    chk.require(bool(mcalls), "R20c", gv, "LintedFile.get_violations never applies the ignore mask", detail="get_violations applies the mask")
    chk.count("R20c.get_violations_mask_calls", len(mcalls))
    for c in mcalls:
        st = cfg.stmt_of(c)
        conds = cfg.conditions(st)
        fi = [1 for e, pol in conds if pol and param_origin(cfg, e, st) == "filter_ignore"]
        other = [
            (e, pol) for e, pol in conds
            if not (pol and param_origin(cfg, e, st) == "filter_ignore")
            and not (pol and _self_attr(cfg, e, st, "ignore_mask"))
            and not (pol and isinstance(e, ast.Compare) and len(e.ops) == 1 and _self_attr(cfg, e.left, st, "ignore_mask") and isinstance(e.ops[0], ast.IsNot) and _is_none(e.comparators[0]))
            and not ((not pol) and isinstance(e, ast.Compare) and len(e.ops) == 1 and _self_attr(cfg, e.left, st, "ignore_mask") and isinstance(e.ops[0], ast.Is) and _is_none(e.comparators[0]))
            and not (isinstance(e, ast.Constant))
        ]
        chk.require(bool(fi), "R20c", c, "the mask is applied without a dominating test of the filter_ignore parameter: unfiltered counts (filter_ignore=False) would be masked too", detail="mask applied only under filter_ignore")
        chk.require(
            not other, "R20c", c,
            "the mask is applied only under additional conditions (" + ", ".join(("" if p else "not ") + short(e, 40) for e, p in other) + "): with filter_ignore set some violations would escape the directives",
            detail="mask applied whenever filter_ignore",
        )
        recv_ok = isinstance(c.func, ast.Attribute) and _self_attr(cfg, c.func.value, st, "ignore_mask")
        chk.require(recv_ok, "R20c", c, "the mask applied is not this file's own ignore_mask", detail="mask applied is self.ignore_mask")
        ch = _Chain(cfg, ("ignore_masked_violations",))
        if c.args:
            ch.walk(c.args[0], st)
        good = bool(c.args) and bool(ch.roots) and all(attr_chain(r) == ("self", "violations") for r in ch.roots) and not ch.opaque
        chk.require(good, "R20c", c, "the mask is not applied to the running list that started at self.violations (a slice or another list is masked)", detail="mask applied to the whole running list")
    rets = [r for r in walk_local(gv) if isinstance(r, ast.Return) and r.value is not None]
    chk.count("R20c.get_violations_returns", len(rets))
    chk.floor("R20c.get_violations_returns", 1)
    for r in rets:
        ch = _Chain(cfg, ("ignore_masked_violations",))
        ch.walk(r.value, r)
        good = any(c in ch.calls for c in mcalls) and all(attr_chain(x) == ("self", "violations") for x in ch.roots)
        if mcalls:
            chk.require(good, "R20c", r, "the masked list does not reach the return of get_violations (or the returned list does not start at self.violations)", detail="masked list is returned")
    # unused warnings read the same mask object
    gcalls = [c for c in calls_in(gv) if last_attr(c) == "generate_warnings_for_unused"]
    for c in gcalls:
        recv_ok = isinstance(c.func, ast.Attribute) and _self_attr(cfg, c.func.value, cfg.stmt_of(c), "ignore_mask")
        chk.require(recv_ok, "R20c", c, "unused-directive warnings are generated from another mask than the one applied", detail="warnings from self.ignore_mask")
    chk.count("R20c.unused_warning_calls", len(gcalls))
    chk.floor("R20c.unused_warning_calls", 1)

    # ---- ignore_masked_violations: complementary split ------------------
    imv = repo.fn(NOQA, "IgnoreMask.ignore_masked_violations")
    cfg = cfg_of(imv)
    def self_list(c, e, at):
        """('self', <attr>) when ``e`` is that attribute or a local holding nothing else."""
        ch_ = attr_chain(e)
        if ch_ is not None and len(ch_) == 2 and ch_[0] == "self":
            return ch_
        if isinstance(e, ast.Name):
            os_ = origins(c, e, at)
            chains = {attr_chain(o.expr) if o.kind == "expr" and not o.path else None for o in os_}
            if len(chains) == 1:
                ch_ = chains.pop()
                if ch_ is not None and len(ch_) == 2 and ch_[0] == "self":
                    return ch_
        return None

    parts = [v for v in _views(imv, cfg) if self_list(cfg, v.it, cfg.stmt_of(v.node)) is not None]
    chk.count("R20c.directive_partitions", len(parts))
    chk.require(len(parts) == 2, "R20c", imv, f"ignore_masked_violations splits the directive list into {len(parts)} filtered views, expected the single-line and the range view", detail="two views of the directive list")
    global_list = self_list(cfg, parts[0].it, cfg.stmt_of(parts[0].node)) if parts else None
    if len(parts) == 2:
        p1, p2 = parts
        same_list = self_list(cfg, p1.it, cfg.stmt_of(p1.node)) == self_list(cfg, p2.it, cfg.stmt_of(p2.node))
        ident = all(isinstance(p.elt, ast.Name) and p.elt.id == p.var for p in parts)
        compl = len(p1.conds) == 1 and len(p2.conds) == 1 and _subst(p1.conds[0][0], p1.var) == _subst(p2.conds[0][0], p2.var) and p1.conds[0][1] != p2.conds[0][1]
        chk.require(
            same_list and ident and compl, "R20c", p2.node,
            f"the two directive views are not complementary filters of one list ({short(p1.node, 60)} / {short(p2.node, 60)}): a directive could be consulted by both matchers or by none",
            detail="directive views are complementary",
        )
        # each view feeds exactly one matcher, and the returned list went through both
        rets = [r for r in walk_local(imv) if isinstance(r, ast.Return) and r.value is not None]
        vparam = [a.arg for a in imv.args.args if a.arg not in ("self", "cls")]
        for r in rets:
            ch = _Chain(cfg, ("_ignore_masked_violations_single_line", "_ignore_masked_violations_line_range"))
            ch.walk(r.value, r)
            fed = []
            for c in ch.calls:
                a = c.args[1] if len(c.args) > 1 else kwarg(c, "ignore_mask")
                fed.append((last_attr(c), [i for i, p in enumerate(parts) if a is not None and p.is_value_of(cfg, a, cfg.stmt_of(c))]))
            names = sorted(nm_ for nm_, _ in fed)
            views = [xs[0] for _, xs in fed if len(xs) == 1]
            good = names == ["_ignore_masked_violations_line_range", "_ignore_masked_violations_single_line"] and len(set(views)) == 2 \
                and bool(ch.roots) and all(isinstance(x, ast.arg) and vparam and x.arg == vparam[0] for x in ch.roots)
            chk.require(good, "R20c", r, "the returned violations did not pass both matchers, each with its own directive view, starting from the violations argument", detail="both matchers applied in sequence")
    # ---- generate_warnings_for_unused -----------------------------------
    gw = repo.fn(NOQA, "IgnoreMask.generate_warnings_for_unused")
    gcfg = cfg_of(gw)
    wviews = [v for v in _views(gw, gcfg) if any(isinstance(x, ast.Call) and last_attr(x) == "SQLUnusedNoQaWarning" for x in ast.walk(v.elt))]
    chk.count("R20c.unused_warning_views", len(wviews))
    chk.require(len(wviews) == 1, "R20c", gw, "generate_warnings_for_unused is not a single filtered walk of the directive list producing SQLUnusedNoQaWarning", detail="one walk of the directive list")
    for w in wviews:
        v = w.var
        # the walked list may itself be an identity filter of the directive list kept in a local
        # (``unused = [d for d in self._ignore_list if not d.used]``): its filters count as well
        w_it, w_at = w.it, gcfg.stmt_of(w.node)
        staged = []  # (normalised condition with the loop variable as $, polarity, expression)
        for _ in range(3):
            src = sole_expr_origin(gcfg, w_it, w_at) if isinstance(w_it, ast.Name) else None
            cv = _comp_view(src) if src is not None else None
            if cv is None or not (isinstance(cv[3], ast.Name) and cv[3].id == cv[1]):
                break
            staged += [(_subst(e, cv[1]), p, e) for e, p in cv[2]]
            w_it, w_at = cv[0], gcfg.stmt_of(src)
        good_it = global_list is not None and self_list(gcfg, w_it, w_at) == global_list
        conds = [(e, p) for _, p, e in staged] + list(w.conds)
        normed = [(s, p) for s, p, _ in staged] + [(_subst(e, v), p) for e, p in w.conds]
        good_c = len(normed) == 1 and normed[0] == ("$.used", False)
        chk.require(good_it, "R20c", w.node, "unused warnings are generated from another list than the one ignore_masked_violations consults", detail="warnings walk the consulted list")
        chk.require(good_c, "R20c", w.node, "an unused warning is not emitted exactly for 'not <directive>.used' (filter: " + (" and ".join(("" if p else "not ") + short(e, 30) for e, p in conds) or "none") + ")", detail="warning iff not used")
        lines = [x for x in ast.walk(w.elt) if isinstance(x, ast.Attribute) and x.attr == "line_no" and isinstance(x.value, ast.Name) and x.value.id == v]
        chk.require(bool(lines), "R20c", w.node, "the warning does not carry the line of the unused directive", detail="warning at directive line")
        rets = [r for r in walk_local(gw) if isinstance(r, ast.Return) and r.value is not None]
        chk.require(bool(rets) and all(w.is_value_of(gcfg, r.value, r) for r in rets), "R20c", gw, "generate_warnings_for_unused does not return the list of warnings it built", detail="warnings are returned")

    # ---- marking: single line -----------------------------------------------
    sl = repo.fn(NOQA, "NoQaDirective._filter_violations_single_line")
    cfg = cfg_of(sl)
    vparam = [a.arg for a in sl.args.args if a.arg not in ("self", "cls")]
    stores = [s for s in _used_stores(sl) if any(attr_chain(t) == ("self", "used") for t in s.targets) and const(s.value) is True]
    rets = [r for r in walk_local(sl) if isinstance(r, ast.Return) and r.value is not None]
    chk.count("R20c.single_line_returns", len(rets))
    chk.floor("R20c.single_line_returns", 1)
    n_filtered = 0
    for r in rets:
        if vparam and param_origin(cfg, r.value, r) == vparam[0]:
            continue  # hands the input back unchanged
        n_filtered += 1
        chk.require(
            bool(stores) and must_pass(cfg, cfg.entry, r, stores), "R20c", r,
            "the single-line matcher can return a filtered list without having set self.used = True: a directive that hid something would be reported as unused",
            detail="single-line: filtered return marks the directive",
        )
    chk.require(n_filtered >= 1, "R20c", sl, "the single-line matcher never returns a filtered list", detail="single-line: filters")
    sl_views = _views(sl, cfg)
    for s in stores:
        conds = cfg.conditions(s)
        good = False
        for e, pol in conds:
            ne = _nonempty_name(e, pol)
            if ne is not None:
                for o in origins(cfg, ne, cfg.stmt_of(e) or s):
                    cv = _comp_view(o.expr) if o.kind == "expr" else None
                    if cv is not None and vparam and param_origin(cfg, cv[0], o.stmt) == vparam[0] and cv[2]:
                        good = True
                    elif o.kind == "expr" and is_fresh_list(o.expr) and _append_loop_sources(cfg, ne.id):
                        # the matches collected by a loop: every append is a filtered walk of the argument
                        vs = [w for w in sl_views if w.sink == ne.id]
                        if vs and all(isinstance(w.node, ast.Call) and isinstance(w.elt, ast.Name) and w.elt.id == w.var and w.conds and vparam and param_origin(cfg, w.it, cfg.stmt_of(w.node)) == vparam[0] for w in vs) \
                                and len(vs) == len(_append_loop_sources(cfg, ne.id)):
                            good = True
        chk.require(good, "R20c", s, "self.used is set without a dominating test that some violation of the argument matched this directive", detail="single-line: marked only when something matched")

    # ---- marking: range -------------------------------------------------------
    lr = repo.fn(NOQA, "IgnoreMask._ignore_masked_violations_line_range")
    cfg = cfg_of(lr)
    vparam = [a.arg for a in lr.args.args if a.arg not in ("self", "cls")]
    loops = [l for l in walk_local(lr) if isinstance(l, ast.For) and vparam and param_origin(cfg, l.iter, l) == vparam[0]]
    chk.count("R20c.range_violation_loops", len(loops))
    chk.floor("R20c.range_violation_loops", 1)
    for l in loops:
        keeps = [
            c for c in calls_in(l)
            if last_attr(c) == "append" and c.args and for_origin(cfg, c.args[0], cfg.stmt_of(c)) == (l, ())
        ]
        chk.require(len(keeps) == 1, "R20c", l, f"the range matcher keeps the iterated violation at {len(keeps)} places, expected one", detail="range: one keep site")
        if len(keeps) != 1:
            continue
        keep = cfg.stmt_of(keeps[0])

        def decision(e, at, idx):
            # component ``idx`` of the range decision: unpacked (``ignore, last = ..``) or indexed (``verdict[0]``)
            if not isinstance(e, (ast.Name, ast.Subscript)):
                return None
            os_ = component_origins(cfg, e, at)
            if os_ and all(o.kind == "expr" and isinstance(o.expr, ast.Call) and last_attr(o.expr) == "_should_ignore_violation_line_range" and tuple(o.path) == (idx,) for o in os_):
                return os_[0].expr
            return None

        conds = [(e, p) for e, p in cfg.conditions(keep) if within(cfg.stmt_of(e) if hasattr(e, "_parent") else l, l.body)]
        good = len(conds) == 1 and conds[0][1] is False and decision(conds[0][0], keep, 0) is not None
        chk.require(
            good, "R20c", keeps[0],
            "the violation is not kept exactly under 'not <ignore>' of the range decision (conditions: " + (" and ".join(("" if p else "not ") + short(e, 30) for e, p in conds) or "none") + ")",
            detail="range: kept iff not ignored",
        )
        marks = []
        for s in _used_stores(l):
            t = [t for t in s.targets if isinstance(t, ast.Attribute) and t.attr == "used"][0]
            if const(s.value) is True and decision(t.value, s, 1) is not None:
                marks.append(s)

        def absent(e, pol, at):
            """The fact (e, pol) says: the range decision named no directive."""
            if isinstance(e, ast.Compare) and len(e.ops) == 1 and _is_none(e.comparators[0]) and isinstance(e.ops[0], (ast.Is, ast.IsNot)):
                return decision(e.left, at, 1) is not None and pol is isinstance(e.ops[0], ast.Is)
            return (not pol) and decision(e, at, 1) is not None

        def stop(n):
            if n is keep or any(n is m for m in marks):
                return True
            if isinstance(n, Branch) and isinstance(n.stmt, (ast.If, ast.While)):
                return _known_on_edge(n.stmt.test, n.polarity, lambda e, pol: absent(e, pol, n.stmt))
            return False

        chk.require(
            bool(marks) and not _iteration_can_avoid(cfg, l, stop), "R20c", l,
            "a violation can be dropped by the range matcher without marking the directive the range decision named: that directive would be reported as unused although it hid a violation",
            detail="range: dropping marks the named directive",
        )
        dcalls = [c for c in calls_in(l) if last_attr(c) == "_should_ignore_violation_line_range"]
        for c in dcalls:
            a0 = arg_of(c, 0, "line_no")
            a_at = cfg.stmt_of(c)
            if isinstance(a0, ast.Name):
                os_ = origins(cfg, a0, a_at)
                if len(os_) == 1 and os_[0].kind == "expr" and not os_[0].path:
                    a0, a_at = os_[0].expr, os_[0].stmt
            good = isinstance(a0, ast.Attribute) and a0.attr == "line_no" and for_origin(cfg, a0.value, a_at) == (l, ())
            chk.require(good, "R20c", c, "the range decision is not asked for the line of the iterated violation", detail="range: decision for the violation's line")

    # ---- who writes .used ---------------------------------------------------------
    nd = repo.cls(NOQA, "NoQaDirective")
    n = 0
    for m in repo.iter_modules("src/sqlfluff/core/"):
        if ".used" not in m.text or not any(w in m.text for w in ("IgnoreMask", "NoQaDirective", "ignore_mask", "_ignore_list")):
            continue  # only modules that can hold a directive
        for node in ast.walk(m.tree):
            tg = []
            if isinstance(node, ast.Assign):
                tg = node.targets
            elif isinstance(node, (ast.AugAssign, ast.AnnAssign)):
                tg = [node.target]
            for t in tg:
                if isinstance(t, ast.Attribute) and t.attr == "used":
                    n += 1
                    c = enclosing_class(node)
                    inside = c is nd or c is mask_cls
                    chk.require(inside, "R20c", node, "the 'used' flag of a directive is written outside NoQaDirective / IgnoreMask", detail=f"used written in {m.relpath}")
                    if inside:
                        chk.require(isinstance(node, ast.Assign) and const(node.value) is True, "R20c", node, "the 'used' flag is written with something other than True (a reset makes a directive that hid a violation look unused)", detail="used only set to True: " + short(node, 50))
    chk.count("R20c.used_stores", n)
    chk.floor("R20c.used_stores", 2)


# ---------------------------------------------------------------------------
# R20d / R20e
# ---------------------------------------------------------------------------
def _rules_arg(call, nd_cls) -> Optional[ast.AST]:
    fields = [s.target.id for s in nd_cls.body if isinstance(s, ast.AnnAssign) and isinstance(s.target, ast.Name)]
    pos = fields.index("rules")
    v = kwarg(call, "rules")
    if v is None and pos < len(call.args):
        v = call.args[pos]
    return v


def _r20d_e(chk, repo) -> None:
    nm = repo.mod(NOQA)
    nd = repo.cls(NOQA, "NoQaDirective")
    pn = repo.fn(NOQA, "IgnoreMask._parse_noqa")
    cfg = cfg_of(pn)
    cons = [c for c in calls_in(pn) if (callee(repo, c) or (None, None))[1] is nd]
    chk.count("R20d.directive_constructions", len(cons))
    chk.floor("R20d.directive_constructions", 1)
    sets: Dict[str, List[ast.Call]] = {}
    none_encoding = 0
    for c in cons:
        v = _rules_arg(c, nd)
        os_ = origins(cfg, v, cfg.stmt_of(c)) if isinstance(v, ast.Name) else ([] if v is None else [type("O", (), {"expr": v, "kind": "expr", "path": (), "stmt": cfg.stmt_of(c)})()])
        for o in os_:
            if o.kind == "expr" and _is_none(o.expr):
                none_encoding += 1
                continue
            ws = _wrapped_set_name(cfg, o.expr, o.stmt) if o.kind == "expr" and not o.path else None
            good = ws is not None
            cand = [ws[0]] if good else []
            fresh = False
            if good:
                so = origins(cfg, ws[0], ws[1])
                # ``s |= x`` and ``s = s | x`` both keep what the set held
                base = [x for x in so if x.kind != "aug" and not (x.kind == "expr" and _self_union(x.expr, ws[0].id) is not None)]
                fresh = bool(base) and all(x.kind == "expr" and is_fresh_set(x.expr) for x in base)
            chk.require(
                good and fresh, "R20d", c,
                f"the rules of a directive are {short(o.expr, 60) if isinstance(o.expr, ast.AST) else o.expr}, not (None | the whole expanded set built in _parse_noqa)",
                detail="directive rules = whole expanded set",
            )
            if good and fresh:
                sets.setdefault(cand[0].id, []).append((c, o.stmt))
    chk.count("R20e.none_encodings", none_encoding)
    chk.floor("R20e.none_encodings", 1)
    chk.require(bool(sets), "R20d", pn, "_parse_noqa never builds a directive from an expanded rule set", detail="expanded set reaches a directive")

    mparam = "reference_map"
    for sname, users in sets.items():
        adds, updates, others = [], [], []
        for n in walk_local(pn):
            if isinstance(n, ast.Call) and isinstance(n.func, ast.Attribute) and isinstance(n.func.value, ast.Name) and n.func.value.id == sname:
                if n.func.attr == "add":
                    adds.append(n)
                elif n.func.attr == "update":
                    updates.append(cfg.stmt_of(n))
                elif n.func.attr in ("discard", "remove", "clear", "pop", "difference_update", "intersection_update", "symmetric_difference_update"):
                    others.append(n)
            elif isinstance(n, ast.AugAssign) and isinstance(n.target, ast.Name) and n.target.id == sname:
                (updates if isinstance(n.op, ast.BitOr) else others).append(n)
            elif isinstance(n, ast.Assign) and len(n.targets) == 1 and isinstance(n.targets[0], ast.Name) and n.targets[0].id == sname and isinstance(n.value, ast.BinOp) \
                    and any(isinstance(x, ast.Name) and x.id == sname for x in (n.value.left, n.value.right)):
                # ``s = s | x`` grows the set like ``s |= x``; ``s = s - x`` / ``s = s & x`` shrink it
                (updates if _self_union(n.value, sname) is not None else others).append(n)
        for n in others:
            chk.fail("R20d", n, "references are removed from the expanded rule set again", detail=f"expanded set shrinks: {short(n, 50)}")
        loops = [l for l in walk_local(pn) if isinstance(l, ast.For) and any(within(a, l.body) for a in adds)]
        outer = None
        raw_adds = []
        for a in adds:
            fo = for_origin(cfg, a.args[0], cfg.stmt_of(a)) if a.args else None
            if fo is not None and not fo[1]:
                raw_adds.append((a, fo[0]))
        chk.count("R20d.raw_reference_adds", len(raw_adds))
        chk.require(
            bool(raw_adds), "R20d", pn,
            "_parse_noqa never adds the reference itself to the rule set: references that match no key of the reference map (PRS, LXR, TMP) could not be named in a directive",
            detail="raw reference kept when nothing matched",
        )
        for a, loop in raw_adds:
            ast_ = cfg.stmt_of(a)
            # the loop walks every reference
            it_src = [o.expr for o in origins(cfg, loop.iter, loop)] if isinstance(loop.iter, ast.Name) else [loop.iter]
            unfiltered = True
            for x in it_src:
                for y in ast.walk(x) if isinstance(x, ast.AST) else []:
                    if isinstance(y, ast.comprehension) and y.ifs:
                        unfiltered = False
                    if isinstance(y, ast.Subscript) and isinstance(y.slice, ast.Slice):
                        unfiltered = False
            chk.require(unfiltered, "R20d", loop, "references of the directive are filtered or sliced before they are expanded", detail="every reference is expanded")
            conds = [(e, p) for e, p in cfg.conditions(ast_) if _inside(e, loop)]
            flag = None
            extra = []
            for e, p in conds:
                nt = _name_truth(e, p)
                if nt is not None and nt[1] is False and flag is None:
                    flag = nt[0]  # ``not matched`` / ``n_matches == 0`` / ``not keys``
                elif p and _covers_special_codes(cfg, e, loop):
                    continue  # an allow-list that contains every special code keeps them matchable
                else:
                    extra.append((e, p))
            chk.require(
                flag is not None and not extra, "R20d", a,
                "the raw reference is kept only under " + (" and ".join(("" if p else "not ") + short(e, 40) for e, p in conds) or "no test")
                + ", not under exactly 'nothing matched': some unmatched references would be dropped",
                detail="raw reference kept exactly when nothing matched",
            )
            if flag is None or extra:
                continue
            # the flag: reset in every iteration, raised only next to an expansion of the set
            test_stmt = cfg.stmt_of(flag)
            ds = cfg.reaching().defs_at(test_stmt, flag.id)
            ok_flag = bool(ds)
            why = ""
            for d in ds:
                counted = d.kind == "aug" and isinstance(d.stmt, ast.AugAssign) and isinstance(d.stmt.op, ast.Add) and isinstance(d.value, ast.Constant) \
                    and isinstance(d.value.value, int) and not isinstance(d.value.value, bool) and d.value.value > 0
                if (d.kind != "assign" and not counted) or d.path or not within(d.stmt, loop.body):
                    ok_flag, why = False, f"'{flag.id}' may carry a value from outside the current reference's iteration"
                    break
                val = d.value
                cv = const(val)
                if not counted and isinstance(val, ast.Constant) and (cv is False or (isinstance(cv, int) and cv == 0)):
                    continue  # reset: False / 0
                if counted or (isinstance(val, ast.Constant) and (cv is True or (isinstance(cv, int) and not isinstance(cv, bool) and cv > 0))):
                    sibs = getattr(d.stmt, "_parent", None)
                    body = None
                    for fld in ("body", "orelse"):
                        if d.stmt in getattr(sibs, fld, []):
                            body = getattr(sibs, fld)
                    grows = [u for u in updates if body is not None and u in body]
                    from_map = False
                    for u in grows:
                        rhs = u.value if isinstance(u, ast.AugAssign) else (_self_union(u.value, sname) if isinstance(u, ast.Assign) else (u.value.args[0] if isinstance(u, ast.Expr) and isinstance(u.value, ast.Call) and u.value.args else None))
                        srcs = [o.expr for o in origins(cfg, rhs, u)] if isinstance(rhs, ast.Name) else [rhs]
                        if rhs is not None and any(_reads_param(cfg, s, u, mparam) for s in srcs if isinstance(s, ast.AST)) or (isinstance(rhs, ast.Name) and _loop_over_param(cfg, rhs, u, mparam)):
                            from_map = True
                    if not from_map:
                        ok_flag, why = False, f"'{flag.id}' is raised at line {d.stmt.lineno} without adding a value of the reference map to the rule set in the same block"
                        break
                    continue
                # emptiness idiom: ``keys = <matches>`` tested by ``not keys`` -- accepted when whatever is in it
                # is expanded: every path of the iteration from the binding passes a loop over that very list
                # whose body adds <map>[<its variable>] to the rule set, or a test that found the list empty
                kls = []
                for kl in walk_local(loop):
                    if isinstance(kl, ast.For) and isinstance(kl.iter, ast.Name) and kl.iter.id == flag.id and cfg.reaching().defs_at(kl, flag.id) == {d}:
                        for u in updates:
                            if u not in kl.body:
                                continue
                            rhs = u.value if isinstance(u, ast.AugAssign) else (_self_union(u.value, sname) if isinstance(u, ast.Assign) else (u.value.args[0] if isinstance(u, ast.Expr) and isinstance(u.value, ast.Call) and u.value.args else None))
                            if isinstance(rhs, ast.Subscript) and _reads_param(cfg, rhs, u, mparam) and for_origin(cfg, rhs.slice, u) == (kl, ()):
                                kls.append(kl)

                def expands_or_empty(n, kls=kls, fl=flag.id):
                    if any(n is kl for kl in kls):
                        return True
                    if isinstance(n, Branch) and isinstance(n.stmt, (ast.If, ast.While)):
                        return _known_on_edge(n.stmt.test, n.polarity, lambda e, pol: (_name_truth(e, pol) or (None, None))[1] is False and _name_truth(e, pol)[0].id == fl)
                    return False

                if kls and not cfg.paths_avoiding(d.stmt, loop, expands_or_empty):
                    continue
                ok_flag, why = False, f"'{flag.id}' is assigned {short(val, 40)}"
                break
            chk.require(
                ok_flag, "R20d", a,
                f"'nothing matched' is not established per reference: {why}; a reference could contribute neither its expansion nor itself",
                detail="match flag reset per reference and raised only with an expansion",
            )
            # leaving the iteration without the add implies the flag was seen true
            def stop(n, a_stmt=ast_, fl=flag.id, lp=loop):
                if n is a_stmt:
                    return True
                if isinstance(n, Branch) and isinstance(n.stmt, (ast.If, ast.While)):
                    return _known_on_edge(
                        n.stmt.test, n.polarity,
                        lambda e, pol: ((_name_truth(e, pol) or (None, None))[1] is True and _name_truth(e, pol)[0].id == fl) or ((not pol) and _covers_special_codes(cfg, e, lp)),
                    )
                return False

            chk.require(
                not _iteration_can_avoid(cfg, loop, stop), "R20d", a,
                "an iteration over the references can end without adding the raw reference although no match was recorded",
                detail="no reference falls through",
            )
            # a ``continue`` of the reference loop itself only ends this reference's iteration: whether it may
            # is decided by "no reference falls through" above; inside the key loop it skips a matching key
            early = [n for n in walk_local(loop) if isinstance(n, (ast.Break, ast.Return)) or (isinstance(n, ast.Continue) and enclosing_loop(n) is not loop)]
            for n in early:
                inner = enclosing_loop(n) is not loop
                chk.fail(
                    "R20d", n,
                    "the walk over the keys matching one reference is cut short: a glob would expand to its first match only" if inner
                    else "the loop over the references is left early: later references are never expanded",
                    detail=("key loop" if inner else "reference loop") + f" left early: {type(n).__name__.lower()}",
                )

    # ---- membership key ---------------------------------------------------------
    n_mem = 0
    rules_attrs, rules_aliases = _rules_reads(nm)
    alias_ids = {id(x) for x in rules_aliases}
    for node in ast.walk(nm.tree):
        if isinstance(node, ast.Compare) and len(node.ops) == 1 and isinstance(node.ops[0], (ast.In, ast.NotIn)):
            r = node.comparators[0]
            if (isinstance(r, ast.Attribute) and r.attr == "rules") or id(r) in alias_ids:
                n_mem += 1
                l = node.left
                if isinstance(l, ast.Name):
                    # ``code = v.rule_code()`` evaluated once and tested against several directives
                    mf = enclosing_function(node)
                    while mf is not None and not hasattr(mf, "_qualname"):
                        mf = enclosing_function(mf)
                    if mf is not None:
                        mcfg = cfg_of(mf)
                        mst = mcfg.stmt_of(node)
                        src = sole_expr_origin(mcfg, l, mst) if mst is not None else None
                        if src is not None:
                            l = src
                good = isinstance(l, ast.Call) and last_attr(l) == "rule_code" and not l.args and isinstance(l.func, ast.Attribute)
                chk.require(
                    good, "R20d", node,
                    f"a directive's rules are matched against {short(l, 40)}, not <violation>.rule_code(): errors without a rule object (TMP/PRS/LXR) could not be matched",
                    detail="membership key is rule_code(): " + _enclosing_name(node),
                )
    chk.count("R20d.membership_tests", n_mem)
    chk.floor("R20d.membership_tests", 2)

    # ---- R20e -------------------------------------------------------------------------
    # can a rule list be empty?  Only if the writer does not guard it.
    guarded = True
    for sname, users in sets.items():
        for c, defst in users:
            g = False
            # known non-empty where the rule list is built from the set, or where the directive is built
            for st in (defst, cfg.stmt_of(c)):
                for e, p in cfg.conditions(st) if st is not None else []:
                    if p and isinstance(e, ast.Name):
                        if e.id == sname:
                            g = True
                        for o in origins(cfg, e, st):
                            if o.kind == "expr" and any(isinstance(x, ast.Name) and x.id == sname for x in ast.walk(o.expr)):
                                g = True
            if not g:
                guarded = False
    chk.note("R20e: _parse_noqa " + ("guards every rule list against being empty" if guarded else "can produce an empty rule list (a reference may expand to an empty set of the allowed map)"))
    n_reads = 0
    for node in rules_attrs + rules_aliases:  # a local that holds only <directive>.rules is read like the attribute
        n_reads += 1
        p = getattr(node, "_parent", None)
        kind = "value"
        if isinstance(p, ast.Compare):
            if node in p.comparators and isinstance(p.ops[0], (ast.In, ast.NotIn)):
                kind = "membership"
            elif isinstance(p.ops[0], (ast.Is, ast.IsNot, ast.Eq, ast.NotEq)) and any(_is_none(x) for x in [p.left] + p.comparators):
                kind = "none-test"
            else:
                kind = "compare"
        elif isinstance(p, ast.UnaryOp) and isinstance(p.op, ast.Not):
            kind = "truthiness"
        elif isinstance(p, ast.BoolOp):
            kind = "truthiness"
        elif isinstance(p, (ast.If, ast.While, ast.IfExp, ast.Assert)) and p.test is node:
            kind = "truthiness"
        elif isinstance(p, ast.comprehension) and node in p.ifs:
            kind = "truthiness"
        elif isinstance(p, ast.Call) and call_name(p) == "bool":
            kind = "truthiness"
        if kind == "truthiness":
            chk.require(
                guarded, "R20e", node,
                f"'{short(p, 50)}' decides \"the directive names no rule, so it applies to every rule\" by truthiness, but _parse_noqa encodes that case as None and can produce an empty "
                "rule list (a reference whose expansion under disable_noqa_except is empty): such a directive is treated as 'disable=all' and hides every violation",
                detail="truthiness test of directive.rules in " + _enclosing_name(node),
            )
        else:
            chk.ok("R20e", f"{NOQA}::{_enclosing_name(node)}", f"{kind}: {short(p, 50)}")
    chk.count("R20e.rules_reads", n_reads)
    chk.floor("R20e.rules_reads", 3)


def _rules_reads(nm):
    """(attribute loads of ``.rules``, loads of a local that can only hold such an attribute) in noqa.py."""
    attrs = [n for n in ast.walk(nm.tree) if isinstance(n, ast.Attribute) and n.attr == "rules" and isinstance(n.ctx, ast.Load)]
    aliases = []
    for _q, f in nm.functions():
        cands = set()
        for s in walk_local(f):
            if isinstance(s, (ast.Assign, ast.AnnAssign)) and isinstance(s.value, ast.Attribute) and s.value.attr == "rules":
                for t_ in (s.targets if isinstance(s, ast.Assign) else [s.target]):
                    if isinstance(t_, ast.Name):
                        cands.add(t_.id)
        if not cands:
            continue
        fcfg = cfg_of(f)
        for n in walk_local(f):
            if isinstance(n, ast.Name) and isinstance(n.ctx, ast.Load) and n.id in cands:
                st = fcfg.stmt_of(n)
                os_ = origins(fcfg, n, st) if st is not None else []
                if os_ and all(o.kind == "expr" and not o.path and isinstance(o.expr, ast.Attribute) and o.expr.attr == "rules" for o in os_):
                    aliases.append(n)
    return attrs, aliases


_SET_WRAPPERS = ("tuple", "sorted", "list", "frozenset")


def _wrapped_set_name(cfg, e, at, depth: int = 0):
    """(name node of the set, statement) behind ``tuple(sorted(<set>))``; an intermediate result kept
    in a local (``in_order = sorted(<set>)``) is looked through.  None for anything else."""
    def is_wrapper(x):
        return isinstance(x, ast.Call) and isinstance(x.func, ast.Name) and x.func.id in _SET_WRAPPERS and len(x.args) == 1 and not isinstance(x.args[0], ast.Starred) \
            and all(k.arg is not None and isinstance(k.value, ast.Constant) for k in x.keywords)

    while is_wrapper(e):
        e = e.args[0]
    if not isinstance(e, ast.Name):
        return None
    os_ = origins(cfg, e, at)
    if depth < 4 and len(os_) == 1 and os_[0].kind == "expr" and not os_[0].path and is_wrapper(os_[0].expr):
        return _wrapped_set_name(cfg, os_[0].expr, os_[0].stmt, depth + 1)
    return e, at


def _self_union(e, name: str):
    """The added operand of ``<name> | x`` / ``x | <name>``; None for anything else."""
    if isinstance(e, ast.BinOp) and isinstance(e.op, ast.BitOr):
        if isinstance(e.left, ast.Name) and e.left.id == name:
            return e.right
        if isinstance(e.right, ast.Name) and e.right.id == name:
            return e.left
    return None


def _known_on_edge(test, polarity, accepted) -> bool:
    """Does taking the ``polarity`` edge of ``test`` establish an accepted fact?  A conjunction of
    facts needs one accepted member; a disjunction (false edge of ``and`` / true edge of ``or``)
    needs every alternative to establish one."""
    if any(accepted(e, pol) for e, pol in atoms(test, polarity)):
        return True
    t = test
    while isinstance(t, ast.UnaryOp) and isinstance(t.op, ast.Not):
        t, polarity = t.operand, not polarity
    if isinstance(t, ast.BoolOp) and ((isinstance(t.op, ast.And) and not polarity) or (isinstance(t.op, ast.Or) and polarity)):
        return all(_known_on_edge(v, polarity, accepted) for v in t.values)
    return False


SPECIAL_CODES = ("PRS", "LXR", "TMP")


def _covers_special_codes(cfg, e, loop) -> bool:
    """``<reference> in (<string literals>)`` where the literals include PRS, LXR and TMP."""
    if not (isinstance(e, ast.Compare) and len(e.ops) == 1 and isinstance(e.ops[0], ast.In)):
        return False
    fo = for_origin(cfg, e.left, cfg.stmt_of(e))
    if fo is None or fo[0] is not loop or fo[1]:
        return False
    lit = e.comparators[0]
    if not isinstance(lit, (ast.Tuple, ast.List, ast.Set)):
        return False
    vals = [const(x) for x in lit.elts]
    return all(isinstance(v, str) for v in vals) and all(c in vals for c in SPECIAL_CODES)


def _inside(e, loop) -> bool:
    p = e
    while p is not None:
        if p is loop:
            return True
        p = getattr(p, "_parent", None)
    return False


def enclosing_loop(n):
    p = getattr(n, "_parent", None)
    while p is not None and not isinstance(p, (ast.For, ast.While) + FuncNode):
        p = getattr(p, "_parent", None)
    return p if isinstance(p, (ast.For, ast.While)) else None


def _reads_param(cfg, e, at, pname) -> bool:
    """``e`` is <param>[...] / <param>.get(...)."""
    if isinstance(e, ast.Subscript):
        return param_origin(cfg, e.value, at) == pname
    if isinstance(e, ast.Call) and last_attr(e) == "get" and isinstance(e.func, ast.Attribute):
        return param_origin(cfg, e.func.value, at) == pname
    return False


def _loop_over_param(cfg, name, at, pname) -> bool:
    """``name`` is the variable of a loop whose iterable yields values of <param>."""
    os_ = origins(cfg, name, at)
    if not os_ or not all(o.kind == "for" for o in os_):
        return False
    for o in os_:
        it = o.expr
        hit = False
        for y in ast.walk(it):
            if isinstance(y, (ast.Subscript, ast.Call)) and _reads_param(cfg, y, o.stmt, pname):
                hit = True
            if isinstance(y, ast.Call) and last_attr(y) == "values" and isinstance(y.func, ast.Attribute) and param_origin(cfg, y.func.value, o.stmt) == pname:
                hit = True
        if not hit:
            return False
    return True


def _enclosing_name(node) -> str:
    f = enclosing_function(node)
    while f is not None and not hasattr(f, "_qualname"):
        f = enclosing_function(f)
    return getattr(f, "_qualname", getattr(f, "name", "<module>")) if f is not None else "<module>"


# ---------------------------------------------------------------------------
def _r20f(chk, repo) -> None:
    """Under disable_noqa_except the special codes are added to the reference map precisely so that the
    restriction can empty them: if the returned map is built from a map WITHOUT them, _parse_noqa finds no
    key for 'PRS', keeps the raw reference, and `-- noqa: PRS` hides parse errors although noqa was
    switched off for them."""
    f = repo.fn(LINTER, "Linter.allowed_rule_ref_map")
    cfg = cfg_of(f)

    def canon(name: str, at) -> Tuple[str, frozenset]:
        """follow plain aliases (a = b) to the underlying binding"""
        seen = set()
        cur, where = name, at
        while (cur, id(where)) not in seen:
            seen.add((cur, id(where)))
            # ``m |= {..}`` updates the object in place: it is still the binding that was there before
            ds = {d for d in cfg.reaching().defs_at(where, cur) if not (getattr(d, "kind", "") == "aug" and isinstance(d.stmt, ast.AugAssign) and isinstance(d.stmt.op, ast.BitOr))}
            if len(ds) == 1:
                d = next(iter(ds))
                if getattr(d, "kind", "") == "assign" and isinstance(d.value, ast.Name) and not d.path:
                    cur, where = d.value.id, d.stmt
                    continue
            return cur, frozenset(id(d) for d in ds)
        return cur, frozenset()

    stores = []
    for st in walk_local(f):
        if isinstance(st, ast.Assign):
            for t in st.targets:
                if isinstance(t, ast.Subscript) and isinstance(t.value, ast.Name):
                    stores.append((st, t.value.id))
        elif isinstance(st, ast.Expr) and isinstance(st.value, ast.Call) and isinstance(st.value.func, ast.Attribute) and st.value.func.attr in ("update", "setdefault") and isinstance(st.value.func.value, ast.Name):
            stores.append((st, st.value.func.value.id))  # ``m.update({..})``: the same store spelled as one call
        elif isinstance(st, ast.AugAssign) and isinstance(st.op, ast.BitOr) and isinstance(st.target, ast.Name):
            stores.append((st, st.target.id))  # ``m |= {..}``
    chk.count("R20f.special_code_stores", len(stores))
    if not stores:
        raise AnalysisError("R20f: allowed_rule_ref_map no longer stores the special codes into a map (rewritten; re-read it)")
    filled = {canon(nm, st) for st, nm in stores}
    n = 0
    for r in [x for x in walk_local(f) if isinstance(x, ast.Return) and x.value is not None]:
        v = r.value
        if isinstance(v, ast.Name):
            os_ = origins(cfg, v, r)
            v = os_[0].expr if len(os_) == 1 and os_[0].kind == "expr" else v
        if not isinstance(v, (ast.DictComp, ast.Call)):
            continue  # the unrestricted early return (`return reference_map`) is R20b's business
        its = [g.iter for g in v.generators] if isinstance(v, ast.DictComp) else [a for a in v.args]
        for it in its:
            root = it
            while isinstance(root, (ast.Call, ast.Attribute)):
                root = root.func if isinstance(root, ast.Call) else root.value
            if not isinstance(root, ast.Name):
                continue
            n += 1
            chk.require(
                canon(root.id, r) in filled, "R20f", r,
                f"the restricted map is built by iterating `{norm(it)}`, which is not the map the special codes PRS/LXR/TMP were stored into "
                f"({sorted(nm for _, nm in stores)}): those codes are missing from the result, `-- noqa: PRS` then matches literally and hides parse errors that noqa was disabled for",
                detail="restricted map iterates the map that holds the special codes",
            )
    # the exception list is expanded against that same map (PRS / LXR / TMP must be findable by it)
    # Accepted spellings of "the names that are globbed": the map itself / its .keys() / .items(); a copy of its keys
    # (list(m), sorted(m), tuple(m), set(m), [k for k in m]) taken AFTER the special codes went in; any of these through a
    # local; the variable of a loop or comprehension over any of these (fnmatch.fnmatch(k, pat) for k in m).
    from ..flow import _comp_binding

    _COPIES = ("list", "tuple", "sorted", "set", "frozenset", "iter", "reversed")

    def globbed_map(e, at, depth=0):
        """(name, statement where it is read, statements at which a copy of its keys was taken) or None"""
        copies: List[object] = []
        while True:
            if isinstance(e, ast.Call) and isinstance(e.func, ast.Name) and e.func.id in _COPIES and len(e.args) == 1 and not e.keywords:
                copies.append(at)
                e = e.args[0]
            elif isinstance(e, (ast.ListComp, ast.SetComp, ast.GeneratorExp)) and len(e.generators) == 1 and isinstance(e.elt, ast.Name):
                copies.append(at)
                e = e.generators[0].iter
            elif isinstance(e, (ast.Call, ast.Attribute)):
                e = e.func if isinstance(e, ast.Call) else e.value
            else:
                break
        if not isinstance(e, ast.Name):
            return None
        if not cfg.reaching().defs_at(at, e.id):
            b = _comp_binding(e)
            if b is not None and depth < 6:
                r = globbed_map(b[0], at, depth + 1)
                return None if r is None else (r[0], r[1], r[2] + copies)
            return None
        if canon(e.id, at) in filled or depth >= 6:
            return e.id, at, copies
        os_ = origins(cfg, e, at)
        if len(os_) == 1 and os_[0].kind in ("expr", "for") and isinstance(os_[0].expr, ast.AST) and os_[0].stmt is not None and (os_[0].kind == "for" or not isinstance(os_[0].expr, ast.Name)):
            r = globbed_map(os_[0].expr, os_[0].stmt, depth + 1)
            if r is not None:
                return r[0], r[1], r[2] + copies
        return e.id, at, copies

    n_g = 0
    for c in [c for c in ast.walk(f) if isinstance(c, ast.Call) and last_attr(c) in ("filter", "fnmatch", "fnmatchcase", "get")]:
        if last_attr(c) == "get":
            root = c.func.value if isinstance(c.func, ast.Attribute) and c.args else None
        else:
            root = arg_of(c, 0, "names" if last_attr(c) == "filter" else "name")
        if root is None:
            continue
        first = root
        while isinstance(first, (ast.Call, ast.Attribute)):
            first = first.func if isinstance(first, ast.Call) else first.value
        if isinstance(first, ast.Name) and first.id in ("fnmatch", "re", "regex", "disable_noqa_except"):
            continue
        st = cfg.stmt_of(c)
        if st is None:
            continue
        got = globbed_map(root, st)
        if got is None:
            continue
        name, at, copies = got
        n_g += 1
        ok = canon(name, at) in filled
        chk.require(
            ok, "R20f", c,
            f"the exceptions are expanded against `{name}` ({short(c, 50)}), which is not the map the special codes PRS/LXR/TMP were stored into: `disable_noqa_except = PRS` then "
            "selects nothing, the restricted map has an empty entry for PRS and `-- noqa: PRS` no longer hides the parse error it is allowed to hide",
            detail="exception list expanded against the map that holds the special codes",
        )
        early = [cp for cp in copies if any(cfg.reaches(cp, s_) for s_, nm in stores if canon(nm, s_) in {canon(name, at)})]
        if ok and copies:
            chk.require(
                not early, "R20f", c,
                f"the exceptions are expanded against a copy of the keys of `{name}` ({short(c, 50)}) taken at line {getattr(early[0], 'lineno', '?') if early else '?'}, before the special codes "
                "PRS/LXR/TMP are stored: the copy does not hold them, `disable_noqa_except = PRS` selects nothing and `-- noqa: PRS` no longer hides the parse error it is allowed to hide",
                detail="exception list expanded against a copy of the keys taken after the special codes were stored",
            )
    chk.count("R20f.exception_expansions", n_g)
    chk.count("R20f.restricted_returns", n)
    chk.floor("R20f.restricted_returns", 1)


def _r20h(chk, repo) -> None:
    """Accepted spellings: text.strip() / .strip(None) / str.strip(text) (whitespace only); a literal character set
    without glob characters, also through a local; removeprefix / removesuffix (cut a literal, not a set).  The trimming
    may live in helper functions the anchor calls with an argument (nested, same class, module level, imported): their
    strip calls are read the same way."""
    f = repo.fn(NOQA, "IgnoreMask._extract_ignore_from_comment")
    # the anchor and every function of the tree it hands a value to (the comment text travels through them)
    fns, todo = [f], [(f, 0)]
    while todo:
        g, depth = todo.pop()
        for call in calls_in(g, into_nested=True):
            if not (call.args or call.keywords) or depth >= 3:
                continue
            r = callee(repo, call)
            if r is not None and isinstance(r[1], FuncNode) and all(r[1] is not h for h in fns):
                fns.append(r[1])
                todo.append((r[1], depth + 1))
    n = 0
    for g in fns:
        shadowed = any(isinstance(x, ast.Name) and x.id == "str" and isinstance(x.ctx, ast.Store) for x in ast.walk(g)) or any(isinstance(x, ast.arg) and x.arg == "str" for x in ast.walk(g))
        for c in [c for c in ast.walk(g) if isinstance(c, ast.Call) and isinstance(c.func, ast.Attribute) and c.func.attr in ("strip", "lstrip", "rstrip", "removeprefix", "removesuffix")]:
            n += 1
            args = list(c.args)
            if isinstance(c.func.value, ast.Name) and c.func.value.id == "str" and not shadowed and args:
                args = args[1:]  # str.rstrip(text[, chars]): the first argument is the receiver
            if c.func.attr in ("removeprefix", "removesuffix") or not args:
                continue
            a = args[0]
            vals = [a]
            if isinstance(a, ast.Name):
                h = enclosing_function(c)
                st = cfg_of(h).stmt_of(c) if h is not None else None
                os_ = origins(cfg_of(h), a, st) if st is not None else []
                vals = [o.expr for o in os_] if os_ and all(o.kind == "expr" and not o.path and isinstance(o.expr, ast.AST) for o in os_) else [a]
            if all(isinstance(v, ast.Constant) and v.value is None for v in vals):
                continue  # strip(None) is strip()
            sets = [v.value if isinstance(v, ast.Constant) and isinstance(v.value, str) else None for v in vals]
            chars = None if any(s is None for s in sets) else "".join(sets)
            chk.require(
                chars is not None and not (set(chars) & set("*?[]")), "R20h", c,
                f"the directive text is stripped by the character set {chars!r} ({short(c, 40)}): a glob star at the end of the last rule reference (`/* noqa: AL0* */`) is removed with the comment "
                "marker, the reference matches no rule and the directive hides nothing",
                detail="_extract_ignore_from_comment: markers removed by length, not by character set",
            )
    chk.count("R20h.strip_calls", n)
    chk.floor("R20h.strip_calls", 1)


def _r20g(chk, repo) -> None:
    f = repo.fn(NOQA, "IgnoreMask.from_source")
    cfg = cfg_of(f)
    n = 0
    for l in [l for l in walk_local(f) if isinstance(l, ast.For)]:
        it = l.iter
        if isinstance(it, ast.Call) and call_name(it) == "enumerate" and it.args:
            it = it.args[0]
        if isinstance(it, ast.Name):
            os_ = origins(cfg, it, l)
            it = os_[0].expr if len(os_) == 1 and os_[0].kind == "expr" else it
        if not (isinstance(it, ast.Call) and isinstance(it.func, ast.Attribute) and it.func.attr in ("split", "splitlines", "rsplit")):
            continue
        n += 1
        sep = it.args[0] if it.args else None
        if isinstance(sep, ast.Name):
            os_ = origins(cfg, sep, l)
            sep = os_[0].expr if len(os_) == 1 and os_[0].kind == "expr" else sep
        ok = it.func.attr == "split" and isinstance(sep, ast.Constant) and sep.value == "\n"
        chk.require(
            ok, "R20g", it,
            f"from_source numbers the lines of `{short(it, 40)}`: only a split on the literal newline counts lines the way positions are counted elsewhere; "
            "with splitlines() a form feed or U+2028 earlier in the file shifts every later directive by one line, so a `noqa` on the error's own line no longer hides it",
            detail="from_source: lines are the pieces of a split on the newline literal",
        )
    chk.count("R20g.line_loops", n)
    chk.floor("R20g.line_loops", 1)


def _r20i(chk, repo) -> None:
    f = repo.fn(NOQA, "IgnoreMask._ignore_masked_violations_line_range")
    sorts = [c for c in ast.walk(f) if isinstance(c, ast.Call) and (call_name(c) == "sorted" or (isinstance(c.func, ast.Attribute) and c.func.attr == "sort"))]
    chk.count("R20i.directive_sorts", len(sorts))
    for c in sorts:
        k = kwarg(c, "key")
        attrs, first = None, None
        if isinstance(k, ast.Lambda) and len(k.args.args) == 1:
            p = k.args.args[0].arg
            body = k.body
            comps = list(body.elts) if isinstance(body, ast.Tuple) else [body]
            if all(isinstance(x, ast.Attribute) and isinstance(x.value, ast.Name) and x.value.id == p for x in comps):
                attrs = [x.attr for x in comps]
        elif isinstance(k, ast.Call) and call_name(k).split(".")[-1] == "attrgetter" and all(isinstance(a, ast.Constant) and isinstance(a.value, str) for a in k.args):
            attrs = [a.value for a in k.args]
        ok = bool(attrs) and attrs[0] == "line_no" and set(attrs) <= {"line_no", "line_pos"} and not any(kw.arg == "reverse" for kw in c.keywords)
        chk.require(
            ok, "R20i", c,
            f"the enable/disable directives that affect a violation are not ordered by their position alone (`{short(k, 70) if k is not None else 'no key'}`): directives sharing a line are "
            "replayed in another order than they were written (e.g. disable before enable), so `enable=all ... disable=LT01` on one line leaves LT01 enabled",
            detail="range directives sorted by line_no (then line_pos) only, stable", construct=f"{NOQA}::IgnoreMask._ignore_masked_violations_line_range",
        )
    chk.floor("R20i.directive_sorts", 1)


def run(chk) -> None:
    repo = chk.repo
    chk.rule("R20i", "range directives are replayed in source order: the sort of the directives affecting a violation is keyed on the directive's position only (line_no, optionally line_pos), never on its action or rules, and is not reversed")
    _r20i(chk, repo)
    chk.rule("R20a", "every IgnoreMask construction outside noqa.py is reachable only when 'not disable_noqa or disable_noqa_except' is known; a LintedFile stores None or such a mask")
    chk.rule("R20b", "all construction sites read directives with allowed_rule_ref_map(<pack>.reference_map, <disable_noqa_except>); the fallback reads .source_str with the config's dialect; directive lines are source positions")
    chk.rule("R20c", "get_violations applies the file's mask exactly under filter_ignore to the running list; the directive list is split into complementary views, both matchers run; unused warnings are 'not used' over the same list; hiding marks the directive; 'used' is only set True inside noqa.py's classes")
    chk.rule("R20d", "every reference of a directive contributes its map expansion or itself (raw reference kept exactly when no key matched); the whole set becomes the directive's rules; membership is tested on rule_code()")
    chk.rule("R20e", "the 'applies to every rule' case is encoded as rules=None and read by identity with None (no truthiness test while an empty rule list is producible)")
    mask_cls = repo.cls(NOQA, "IgnoreMask")
    sites = _mask_constructions(repo, mask_cls)
    _r20a(chk, repo, mask_cls, sites)
    _r20b(chk, repo, mask_cls, sites)
    _r20c(chk, repo, mask_cls)
    _r20d_e(chk, repo)
    chk.rule("R20f", "allowed_rule_ref_map restricts the very map that was given the special codes PRS/LXR/TMP: the returned map is built by iterating the object those keys were stored into (or an alias of it)")
    _r20f(chk, repo)
    chk.rule("R20h", "the comment markers are cut off the directive text by length, not by character set: _extract_ignore_from_comment applies no strip / lstrip / rstrip with a character-set argument to the comment's text (a set containing '*' also removes the glob star that ends a rule reference)")
    _r20h(chk, repo)
    chk.rule("R20g", "when directives are read from the raw source (no tree), lines are counted as everywhere else: IgnoreMask.from_source enumerates `<source>.split('\\n')`, never splitlines() (which also breaks at \\f, \\v, \\x1c-\\x1e, \\x85, U+2028/9 and would number every later directive one line too high)")
    _r20g(chk, repo)
    chk.note("Partial claim: wiring, gating, sibling agreement and marking of the noqa machinery. The algebra over line numbers, ranges and rule sets (which directive covers which line) is value-level and not decided.")


from ..selftest import Variant  # noqa: E402

CMDS = "src/sqlfluff/cli/commands.py"

# anchor texts shared by the R20h / R20f spellings below
_R20H_HEAD = (
    "    @classmethod\n    def _extract_ignore_from_comment(\n        cls,\n        comment: RawSegment,\n        reference_map: dict[str, set[str]],\n"
    "    ) -> Union[NoQaDirective, SQLParseError, None]:\n        \"\"\"Extract ignore mask entries from a comment segment.\"\"\"\n        # Also trim any whitespace\n"
)
_R20H_BETWEEN = (
    "        # If we have leading or trailing block comment markers, also strip them.\n        # NOTE: We need to strip block comment markers from the start\n"
    "        # to ensure that noqa directives in the following form are followed:\n        # /* noqa: disable=all */\n"
)
_R20H_CUT = (
    '        if comment_content.endswith("*/"):\n            comment_content = comment_content[:-2].rstrip()\n'
    '        if comment_content.startswith("/*"):\n            comment_content = comment_content[2:].lstrip()\n'
)
_R20F_LOOP = "        for r in unexpanded_rules:\n            for x in fnmatch.filter(output_map.keys(), r):\n                noqa_set |= output_map.get(x, set())\n"

VARIANTS: List[Variant] = [
    Variant(
        "r20i-tie-break-on-action", NOQA,
        "                key=lambda ignore: ignore.line_no,\n",
        "                key=lambda ignore: (ignore.line_no, ignore.action or \"\"),\n",
        "R20i", "_ignore_masked_violations_line_range", "seeded C20-9",
    ),
    Variant(
        "r20i-sorted-descending", NOQA,
        "                key=lambda ignore: ignore.line_no,\n",
        "                key=lambda ignore: ignore.line_no,\n                reverse=True,\n",
        "R20i", "_ignore_masked_violations_line_range", "last directive replayed first",
    ),
    Variant(
        "quiet-r20i-position-pair", NOQA,
        "                key=lambda ignore: ignore.line_no,\n",
        "                key=lambda d: (d.line_no, d.line_pos),\n",
        "QUIET", None, "R20i: keyed on the full position",
    ),
    Variant(
        "block-comment-markers-stripped-by-character-set", NOQA,
        '        if comment_content.endswith("*/"):\n            comment_content = comment_content[:-2].rstrip()\n',
        '        if comment_content.endswith("*/"):\n            comment_content = comment_content.rstrip("*/ ")\n',
        "R20h", "_extract_ignore_from_comment", "seeded C20-7 (same effect)",
    ),
    Variant(
        "quiet-special-codes-stored-into-a-copy", LINTER,
        "        output_map = reference_map\n",
        "        output_map = dict(reference_map)\n",
        "QUIET", None, "R20f: the special codes go into a copy and everything after uses that copy (seeded C22-7 additionally globs the original map and is reported)",
    ),
    Variant(
        "source-fallback-counts-lines-with-splitlines", NOQA,
        '        for idx, line in enumerate(source.split("\\n")):\n',
        "        for idx, line in enumerate(source.splitlines()):\n",
        "R20g", "from_source", "seeded C20-5",
    ),
    Variant(
        "quiet-source-fallback-lines-through-a-local", NOQA,
        '        for idx, line in enumerate(source.split("\\n")):\n',
        '        newline = "\\n"\n        source_lines = source.split(newline)\n        for idx, line in enumerate(source_lines):\n',
        "QUIET", None, "R20g: separator and line list through locals",
    ),
    Variant(
        "restricted-map-built-from-the-map-without-special-codes", LINTER,
        "        output_map = reference_map\n        # Add the special rules",
        "        output_map = dict(reference_map)\n        # Add the special rules",
        "QUIET", None, "working on a copy is fine as long as the copy is what gets restricted",
    ),
    Variant(
        "restricted-map-iterates-the-original", LINTER,
        "        return {k: v.intersection(noqa_set) for k, v in output_map.items()}\n",
        "        return {k: v.intersection(noqa_set) for k, v in reference_map.items()}\n",
        "QUIET", None, "today output_map IS reference_map (alias), so iterating either is the same object",
    ),
    Variant(
        "special-codes-on-a-copy-result-from-the-original", LINTER,
        "        output_map = reference_map\n        # Add the special rules so they can be excluded for `disable_noqa_except` usage\n        for special_rule in [\"PRS\", \"LXR\", \"TMP\"]:\n            output_map[special_rule] = {special_rule}\n",
        "        output_map = dict(reference_map)\n        for special_rule in [\"PRS\", \"LXR\", \"TMP\"]:\n            output_map[special_rule] = {special_rule}\n        output_map, reference_map = reference_map, output_map\n",
        "R20f", "allowed_rule_ref_map", "seeded C20-2 (same effect): PRS/LXR/TMP missing from the restricted map",
    ),
    # ---- behaviour-preserving edits: the check must stay quiet -------------------------------
    Variant(
        "quiet-gate-through-flag-local", LINTER,
        "        if not config.get(\"disable_noqa\") or disable_noqa_except:\n            allowed_rules_ref_map = cls.allowed_rule_ref_map(\n                rule_pack.reference_map, disable_noqa_except\n            )\n            ignore_mask, ivs = IgnoreMask.from_tree(tree, allowed_rules_ref_map)\n",
        "        noqa_off = config.get(\"disable_noqa\")\n        read_directives = not noqa_off or disable_noqa_except\n        if read_directives:\n            ref_map = cls.allowed_rule_ref_map(\n                rule_pack.reference_map, disable_noqa_except\n            )\n            built = IgnoreMask.from_tree(tree, ref_map)\n            ignore_mask, ivs = built\n",
        "QUIET", None, "gate kept in a flag local, locals renamed, result unpacked through a temp",
    ),
    Variant(
        "quiet-fallback-gate-inverted-branches", LINTER,
        "            if parsed.config.get(\"disable_noqa\") and not disable_noqa_except:\n",
        "            directives_off = bool(parsed.config.get(\"disable_noqa\")) and not disable_noqa_except\n            if directives_off:\n",
        "QUIET", None, "gate of the source fallback hoisted into a local",
    ),
    Variant(
        "quiet-get-violations-mask-through-local", LFILE,
        "            if self.ignore_mask:\n                violations = self.ignore_mask.ignore_masked_violations(violations)\n",
        "            mask = self.ignore_mask\n            if mask is not None:\n                kept = mask.ignore_masked_violations(violations)\n                violations = kept\n",
        "QUIET", None, "mask read into a local, identity test, result through a temp",
    ),
    Variant(
        "quiet-single-line-early-return", NOQA,
        "        if matched_violations:\n            # Successful match, mark ignore as used.\n            self.used = True\n            return [v for v in violations if v not in matched_violations]\n        else:\n            return violations\n",
        "        if not matched_violations:\n            return violations\n        hidden = matched_violations\n        self.used = True\n        return [v for v in violations if v not in hidden]\n",
        "QUIET", None, "if/else turned into an early return, local renamed",
    ),
    Variant(
        "quiet-parse-noqa-update-and-renamed-flag", NOQA,
        "                            matched = False\n                            for expanded in (\n                                reference_map[x]\n                                for x in fnmatch.filter(reference_map.keys(), r)\n                            ):\n                                expanded_rules |= expanded\n                                matched = True\n\n                            if not matched:\n",
        "                            found = False\n                            for key in fnmatch.filter(reference_map.keys(), r):\n                                found = True\n                                expanded_rules.update(reference_map[key])\n\n                            if not found:\n",
        "QUIET", None, "flag renamed, |= spelled update(), generator inlined into the loop",
    ),
    Variant(
        "quiet-unused-warnings-as-loop", NOQA,
        "        return [\n            SQLUnusedNoQaWarning(\n                line_no=ignore.line_no,\n                line_pos=ignore.line_pos,\n                description=f\"Unused noqa: {ignore.raw_str!r}\",\n            )\n            for ignore in self._ignore_list\n            if not ignore.used\n        ]\n",
        "        warnings: list[SQLBaseError] = []\n        for directive in self._ignore_list:\n            if directive.used:\n                continue\n            warnings.append(\n                SQLUnusedNoQaWarning(\n                    line_no=directive.line_no,\n                    line_pos=directive.line_pos,\n                    description=f\"Unused noqa: {directive.raw_str!r}\",\n                )\n            )\n        return warnings\n",
        "QUIET", None, "comprehension rewritten as a loop with an early continue",
    ),
    # behaviour-preserving refactors: must stay quiet
    Variant(
        "quiet-gate-arms-swapped-in-lint-fix-parsed", LINTER,
        "        if not config.get(\"disable_noqa\") or disable_noqa_except:\n            allowed_rules_ref_map = cls.allowed_rule_ref_map(\n                rule_pack.reference_map, disable_noqa_except\n            )\n            ignore_mask, ivs = IgnoreMask.from_tree(tree, allowed_rules_ref_map)\n            initial_linting_errors += ivs\n        else:\n            ignore_mask = None\n",
        "        if config.get(\"disable_noqa\") and not disable_noqa_except:\n            ignore_mask = None\n        else:\n            allowed_rules_ref_map = cls.allowed_rule_ref_map(\n                rule_pack.reference_map, disable_noqa_except\n            )\n            ignore_mask, ivs = IgnoreMask.from_tree(tree, allowed_rules_ref_map)\n            initial_linting_errors += ivs\n",
        "QUIET", None, "De Morgan on the gate, arms swapped (the spelling lint_parsed uses)",
    ),
    Variant(
        "quiet-mask-defaults-to-none-before-the-gate", LINTER,
        "        if not config.get(\"disable_noqa\") or disable_noqa_except:\n            allowed_rules_ref_map = cls.allowed_rule_ref_map(\n                rule_pack.reference_map, disable_noqa_except\n            )\n            ignore_mask, ivs = IgnoreMask.from_tree(tree, allowed_rules_ref_map)\n            initial_linting_errors += ivs\n        else:\n            ignore_mask = None\n",
        "        ignore_mask = None\n        if not config.get(\"disable_noqa\") or disable_noqa_except:\n            allowed_rules_ref_map = cls.allowed_rule_ref_map(\n                rule_pack.reference_map, disable_noqa_except\n            )\n            ignore_mask, ivs = IgnoreMask.from_tree(tree, allowed_rules_ref_map)\n            initial_linting_errors += ivs\n",
        "QUIET", None, "None by default, overwritten under the gate (no else arm)",
    ),
    Variant(
        "quiet-gate-reads-the-except-key-inline", LINTER,
        "        if not config.get(\"disable_noqa\") or disable_noqa_except:\n            allowed_rules_ref_map = cls.allowed_rule_ref_map(\n                rule_pack.reference_map, disable_noqa_except\n            )\n",
        "        if not config.get(\"disable_noqa\") or config.get(\"disable_noqa_except\"):\n            allowed_rules_ref_map = cls.allowed_rule_ref_map(\n                rule_pack.reference_map, config.get(\"disable_noqa_except\")\n            )\n",
        "QUIET", None, "the config key read where it is used instead of through the local",
    ),
    Variant(
        "quiet-gate-nested-ifs-in-cli-filter", CMDS,
        "    if parsed_string.config.get(\"disable_noqa\") and not disable_noqa_except:\n        return [v for v in violations if not v.ignore and not v.warning]\n",
        "    if parsed_string.config.get(\"disable_noqa\"):\n        if not disable_noqa_except:\n            return [v for v in violations if not v.ignore and not v.warning]\n",
        "QUIET", None, "conjunction of the early return as nested ifs",
    ),
    Variant(
        "quiet-cli-filter-config-through-a-local", CMDS,
        "    disable_noqa_except: Optional[str] = parsed_string.config.get(\"disable_noqa_except\")\n    if parsed_string.config.get(\"disable_noqa\") and not disable_noqa_except:\n",
        "    file_config = parsed_string.config\n    disable_noqa_except: Optional[str] = file_config.get(\"disable_noqa_except\")\n    noqa_disabled = file_config.get(\"disable_noqa\")\n    if noqa_disabled and not disable_noqa_except:\n",
        "QUIET", None, "config object and the disable_noqa value through locals",
    ),
    Variant(
        "quiet-fallback-gate-arms-swapped", LINTER,
        "            if parsed.config.get(\"disable_noqa\") and not disable_noqa_except:\n                # NOTE: This path is only accessible if there is no valid `tree`\n                # which implies that there was a fatal templating fail. Even an\n                # unparsable file will still have a valid tree.\n                ignore_mask = None\n            else:\n                # Templating and/or parsing have failed. Look for \"noqa\"\n                # comments (the normal path for identifying these comments\n                # requires access to the parse tree, and because of the failure,\n                # we don't have a parse tree).\n                allowed_rules_ref_map = cls.allowed_rule_ref_map(\n                    rule_pack.reference_map, disable_noqa_except\n                )\n                ignore_mask, ignore_violations = IgnoreMask.from_source_with_dialect(\n                    parsed.source_str,\n                    parsed.config.get(\"dialect_obj\"),\n                    allowed_rules_ref_map,\n                )\n                violations += ignore_violations\n",
        "            ignore_mask = None\n            if not parsed.config.get(\"disable_noqa\") or disable_noqa_except:\n                pack_map = rule_pack.reference_map\n                dialect_obj = parsed.config.get(\"dialect_obj\")\n                allowed_rules_ref_map = cls.allowed_rule_ref_map(\n                    reference_map=pack_map, disable_noqa_except=disable_noqa_except\n                )\n                ignore_mask, ignore_violations = IgnoreMask.from_source_with_dialect(\n                    source=parsed.source_str,\n                    dialect=dialect_obj,\n                    reference_map=allowed_rules_ref_map,\n                )\n                violations += ignore_violations\n",
        "QUIET", None, "None by default, construction under the positive gate, keyword arguments, arguments through locals",
    ),
    Variant(
        "quiet-lint-fix-parsed-result-kept-whole", LINTER,
        "            (\n                fixed_tree,\n                initial_linting_errors,\n                ignore_mask,\n                rule_timings,\n            ) = cls.lint_fix_parsed(\n                root_variant.tree,\n                config=parsed.config,\n                rule_pack=rule_pack,\n                fix=fix,\n                fname=parsed.fname,\n                templated_file=root_variant.templated_file,\n                formatter=formatter,\n            )\n",
        "            root_result = cls.lint_fix_parsed(\n                root_variant.tree,\n                config=parsed.config,\n                rule_pack=rule_pack,\n                fix=fix,\n                fname=parsed.fname,\n                templated_file=root_variant.templated_file,\n                formatter=formatter,\n            )\n            fixed_tree, initial_linting_errors = root_result[0], root_result[1]\n            ignore_mask = root_result[2]\n            rule_timings = root_result[3]\n",
        "QUIET", None, "result tuple kept whole and indexed",
    ),
    Variant(
        "quiet-linted-file-built-positionally", LINTER,
        "            tree,\n            ignore_mask=ignore_mask,\n            templated_file=templated_file,\n            encoding=encoding,\n            source_patches=merged_source_patches,\n        )\n",
        "            tree,\n            ignore_mask,\n            templated_file,\n            encoding,\n            merged_source_patches,\n        )\n",
        "QUIET", None, "LintedFile fields given positionally",
    ),
    Variant(
        "quiet-directive-position-kept-as-a-pair", NOQA,
        "        comment_line, comment_pos = comment.pos_marker.source_position()\n        result = cls._parse_noqa(\n            comment_content, comment_line, comment_pos, reference_map\n        )\n",
        "        marker = comment.pos_marker\n        where = marker.source_position()\n        result = cls._parse_noqa(comment_content, where[0], where[1], reference_map)\n",
        "QUIET", None, "source position kept as a pair and indexed; the marker through a local",
    ),
    Variant(
        "quiet-directive-position-by-keyword", NOQA,
        "        result = cls._parse_noqa(\n            comment_content, comment_line, comment_pos, reference_map\n        )\n",
        "        result = cls._parse_noqa(\n            comment_content, line_no=comment_line, line_pos=comment_pos, reference_map=reference_map\n        )\n",
        "QUIET", None, "keyword arguments",
    ),
    Variant(
        "quiet-from-source-lines-through-a-local", NOQA,
        "        for idx, line in enumerate(source.split(\"\\n\")):\n            match = inline_comment_regex.search(line) if line else None\n            if match:\n                ignore_entry = cls._parse_noqa(\n                    line[match[0] : match[1]], idx + 1, match[0], reference_map\n                )\n",
        "        lines = source.split(\"\\n\")\n        for line_no, line in enumerate(lines, start=1):\n            match = inline_comment_regex.search(line) if line else None\n            if match:\n                ignore_entry = cls._parse_noqa(\n                    line[match[0] : match[1]], line_no, match[0], reference_map\n                )\n",
        "QUIET", None, "lines through a local; enumerate(start=1) instead of idx + 1",
    ),
    Variant(
        "quiet-get-violations-mask-test-repeats-the-filter-test", LFILE,
        "            # Ignore any rules in the ignore mask\n            if self.ignore_mask:\n                violations = self.ignore_mask.ignore_masked_violations(violations)\n",
        "        # Ignore any rules in the ignore mask\n        if filter_ignore and self.ignore_mask:\n            violations = self.ignore_mask.ignore_masked_violations(violations)\n",
        "QUIET", None, "nested if flattened into a second `if filter_ignore and ...`",
    ),
    Variant(
        "quiet-get-violations-ignore-filter-as-a-loop", LFILE,
        "            violations = [v for v in violations if not v.ignore]\n",
        "            not_ignored = []\n            for v in violations:\n                if not v.ignore:\n                    not_ignored.append(v)\n            violations = not_ignored\n",
        "QUIET", None, "a filter step of the running list as an append loop",
    ),
    Variant(
        "quiet-mask-views-inlined-into-the-calls", NOQA,
        "        ignore_specific = [ignore for ignore in self._ignore_list if not ignore.action]\n        ignore_range = [ignore for ignore in self._ignore_list if ignore.action]\n        violations = self._ignore_masked_violations_single_line(\n            violations, ignore_specific\n        )\n        violations = self._ignore_masked_violations_line_range(violations, ignore_range)\n        return violations\n",
        "        directives = self._ignore_list\n        remaining = self._ignore_masked_violations_single_line(\n            violations, [d for d in directives if not d.action]\n        )\n        return self._ignore_masked_violations_line_range(\n            remaining, [d for d in directives if d.action]\n        )\n",
        "QUIET", None, "views inlined, directive list through a local, no rebinding of the parameter",
    ),
    Variant(
        "quiet-mask-views-built-by-one-loop", NOQA,
        "        ignore_specific = [ignore for ignore in self._ignore_list if not ignore.action]\n        ignore_range = [ignore for ignore in self._ignore_list if ignore.action]\n",
        "        ignore_specific: list[NoQaDirective] = []\n        ignore_range: list[NoQaDirective] = []\n        for ignore in self._ignore_list:\n            if ignore.action:\n                ignore_range.append(ignore)\n            else:\n                ignore_specific.append(ignore)\n",
        "QUIET", None, "both views filled by one loop with if/else",
    ),
    Variant(
        "quiet-matchers-called-with-keywords", NOQA,
        "        violations = self._ignore_masked_violations_line_range(violations, ignore_range)\n",
        "        violations = self._ignore_masked_violations_line_range(\n            violations=violations, ignore_mask=ignore_range\n        )\n",
        "QUIET", None, "keyword arguments for the range matcher",
    ),
    Variant(
        "quiet-unused-warnings-in-two-steps", NOQA,
        "        return [\n            SQLUnusedNoQaWarning(\n                line_no=ignore.line_no,\n                line_pos=ignore.line_pos,\n                description=f\"Unused noqa: {ignore.raw_str!r}\",\n            )\n            for ignore in self._ignore_list\n            if not ignore.used\n        ]\n",
        "        unused = [ignore for ignore in self._ignore_list if not ignore.used]\n        return [\n            SQLUnusedNoQaWarning(\n                line_no=ignore.line_no,\n                line_pos=ignore.line_pos,\n                description=f\"Unused noqa: {ignore.raw_str!r}\",\n            )\n            for ignore in unused\n        ]\n",
        "QUIET", None, "filter first, build the warnings from the filtered list",
    ),
    Variant(
        "quiet-single-line-match-test-by-length", NOQA,
        "        if matched_violations:\n            # Successful match",
        "        if len(matched_violations) > 0:\n            # Successful match",
        "QUIET", None, "len(x) > 0 instead of truthiness of a list",
    ),
    Variant(
        "quiet-single-line-matches-collected-by-a-loop", NOQA,
        "        matched_violations = [\n            v\n            for v in violations\n            if (\n                v.line_no == self.line_no\n                and (self.rules is None or v.rule_code() in self.rules)\n            )\n        ]\n",
        "        matched_violations = []\n        for v in violations:\n            if v.line_no != self.line_no:\n                continue\n            if self.rules is None or v.rule_code() in self.rules:\n                matched_violations.append(v)\n",
        "QUIET", None, "comprehension as a loop with an early continue",
    ),
    Variant(
        "quiet-range-decision-kept-as-a-pair", NOQA,
        "            ignore, last_ignore = cls._should_ignore_violation_line_range(\n                v.line_no, ignore_rule\n            )\n            if not ignore:\n                result.append(v)\n            # If there was a previous ignore which mean that we filtered out\n            # a violation, then mark it as used.\n            elif last_ignore:\n                last_ignore.used = True\n",
        "            verdict = cls._should_ignore_violation_line_range(\n                v.line_no, ignore_rule\n            )\n            if not verdict[0]:\n                result.append(v)\n            elif verdict[1]:\n                verdict[1].used = True\n",
        "QUIET", None, "the (ignore, directive) pair kept whole and indexed",
    ),
    Variant(
        "quiet-range-keep-as-early-continue", NOQA,
        "            if not ignore:\n                result.append(v)\n            # If there was a previous ignore which mean that we filtered out\n            # a violation, then mark it as used.\n            elif last_ignore:\n                last_ignore.used = True\n",
        "            if not ignore:\n                result.append(v)\n                continue\n            if last_ignore is None:\n                continue\n            last_ignore.used = True\n",
        "QUIET", None, "if/elif as early continues; identity test for the named directive",
    ),
    Variant(
        "quiet-range-violation-line-through-a-local", NOQA,
        "            ignore, last_ignore = cls._should_ignore_violation_line_range(\n                v.line_no, ignore_rule\n            )\n",
        "            violation_line = v.line_no\n            ignore, last_ignore = cls._should_ignore_violation_line_range(\n                line_no=violation_line, ignore_rules=ignore_rule\n            )\n",
        "QUIET", None, "the violation's line through a local, keyword arguments",
    ),
    Variant(
        "quiet-range-rule-code-hoisted", NOQA,
        "            ignore_rule = sorted(\n                (\n                    ignore\n                    for ignore in ignore_mask\n                    if ignore.rules is None or (v.rule_code() in ignore.rules)\n                ),\n",
        "            code = v.rule_code()\n            ignore_rule = sorted(\n                (\n                    ignore\n                    for ignore in ignore_mask\n                    if ignore.rules is None or (code in ignore.rules)\n                ),\n",
        "QUIET", None, "rule_code() evaluated once per violation",
    ),
    Variant(
        "quiet-parse-noqa-set-union-spelled-out", NOQA,
        "                                expanded_rules |= expanded\n",
        "                                expanded_rules = expanded_rules | expanded\n",
        "QUIET", None, "s = s | x instead of s |= x",
    ),
    Variant(
        "quiet-parse-noqa-raw-reference-after-continue", NOQA,
        "                            if not matched:\n                                # We were unable to expand the glob.\n                                # Therefore assume the user is referencing\n                                # a special error type (e.g. PRS, LXR, or TMP)\n                                # and add this to the list of rules to ignore.\n                                expanded_rules.add(r)\n",
        "                            if matched:\n                                continue\n                            expanded_rules.add(r)\n",
        "QUIET", None, "`if not matched: add` as `if matched: continue` + add",
    ),
    Variant(
        "quiet-parse-noqa-sorted-through-a-local", NOQA,
        "                        rules = tuple(sorted(expanded_rules))\n",
        "                        in_order = sorted(expanded_rules)\n                        rules = tuple(in_order)\n",
        "QUIET", None, "sorted list through a local",
    ),
    Variant(
        "quiet-parse-noqa-references-split-inline", NOQA,
        "                        unexpanded_rules = tuple(\n                            r.strip() for r in rule_part.split(\",\")\n                        )\n                        # We use a set to do natural deduplication.\n                        expanded_rules: set[str] = set()\n                        for r in unexpanded_rules:\n",
        "                        expanded_rules: set[str] = set()\n                        for r in [ref.strip() for ref in rule_part.split(\",\")]:\n",
        "QUIET", None, "references split in the loop header; set created first",
    ),
    Variant(
        "quiet-directive-built-with-keywords", NOQA,
        "                    return NoQaDirective(line_no, line_pos, rules, action, comment)\n",
        "                    return NoQaDirective(\n                        line_no=line_no, line_pos=line_pos, rules=rules, action=action, raw_str=comment\n                    )\n",
        "QUIET", None, "keyword construction",
    ),
    Variant(
        "quiet-special-codes-stored-with-update", LINTER,
        "        for special_rule in [\"PRS\", \"LXR\", \"TMP\"]:\n            output_map[special_rule] = {special_rule}\n",
        "        output_map.update({code: {code} for code in (\"PRS\", \"LXR\", \"TMP\")})\n",
        "QUIET", None, "three subscript stores as one update()",
    ),
    Variant(
        "quiet-special-codes-stored-with-in-place-union", LINTER,
        "        for special_rule in [\"PRS\", \"LXR\", \"TMP\"]:\n            output_map[special_rule] = {special_rule}\n",
        "        output_map |= {code: {code} for code in (\"PRS\", \"LXR\", \"TMP\")}\n",
        "QUIET", None, "dict |= updates the aliased map in place",
    ),
    Variant(
        "quiet-restricted-map-iterates-keys", LINTER,
        "        return {k: v.intersection(noqa_set) for k, v in output_map.items()}\n",
        "        restricted = {k: output_map[k].intersection(noqa_set) for k in output_map}\n        return restricted\n",
        "QUIET", None, "iterating the keys, result through a local",
    ),
    Variant(
        "quiet-cli-gate-through-a-negated-flag-local", CMDS,
        "    if parsed_string.config.get(\"disable_noqa\") and not disable_noqa_except:\n        return [v",
        "    read_noqa = not (parsed_string.config.get(\"disable_noqa\") and not disable_noqa_except)\n    if not read_noqa:\n        return [v",
        "QUIET", None, "the early return tests the negation of a flag local",
    ),
    Variant(
        "quiet-single-line-filtered-list-before-the-mark", NOQA,
        "            self.used = True\n            return [v for v in violations if v not in matched_violations]\n",
        "            remaining = [v for v in violations if v not in matched_violations]\n            self.used = True\n            return remaining\n",
        "QUIET", None, "filtered list computed first, then the mark, then the return",
    ),
    Variant(
        "quiet-parse-noqa-matches-counted", NOQA, "                            matched = False\n                            for expanded in (\n                                reference_map[x]\n                                for x in fnmatch.filter(reference_map.keys(), r)\n                            ):\n                                expanded_rules |= expanded\n                                matched = True\n\n                            if not matched:\n",
        "                            n_matches = 0\n                            for expanded in (\n                                reference_map[x]\n                                for x in fnmatch.filter(reference_map.keys(), r)\n                            ):\n                                expanded_rules |= expanded\n                                n_matches += 1\n\n                            if n_matches == 0:\n",
        "QUIET", None, "the match flag as a counter tested against zero",
    ),
    Variant(
        "quiet-parse-noqa-matching-keys-tested-for-emptiness", NOQA, "                            matched = False\n                            for expanded in (\n                                reference_map[x]\n                                for x in fnmatch.filter(reference_map.keys(), r)\n                            ):\n                                expanded_rules |= expanded\n                                matched = True\n\n                            if not matched:\n",
        "                            keys = fnmatch.filter(reference_map.keys(), r)\n                            for key in keys:\n                                expanded_rules |= reference_map[key]\n\n                            if not keys:\n",
        "QUIET", None, "no flag: the list of matching keys is expanded by a loop and tested for emptiness",
    ),
    Variant(
        "quiet-parse-noqa-matching-keys-if-else", NOQA, "                            matched = False\n                            for expanded in (\n                                reference_map[x]\n                                for x in fnmatch.filter(reference_map.keys(), r)\n                            ):\n                                expanded_rules |= expanded\n                                matched = True\n\n                            if not matched:\n                                # We were unable to expand the glob.\n                                # Therefore assume the user is referencing\n                                # a special error type (e.g. PRS, LXR, or TMP)\n                                # and add this to the list of rules to ignore.\n                                expanded_rules.add(r)\n",
        "                            keys = fnmatch.filter(reference_map.keys(), r)\n                            if len(keys) > 0:\n                                for key in keys:\n                                    expanded_rules.update(reference_map[key])\n                            else:\n                                expanded_rules.add(r)\n",
        "QUIET", None, "expansion loop on the non-empty arm, raw reference on the else arm",
    ),
    Variant(
        "quiet-single-line-rules-through-a-local", NOQA, "        matched_violations = [\n            v\n            for v in violations\n            if (\n                v.line_no == self.line_no\n                and (self.rules is None or v.rule_code() in self.rules)\n            )\n        ]\n",
        "        rules = self.rules\n        matched_violations = [\n            v\n            for v in violations\n            if v.line_no == self.line_no and (rules is None or v.rule_code() in rules)\n        ]\n",
        "QUIET", None, "self.rules read once into a local",
    ),
    Variant(
        "quiet-get-violations-type-filter-with-filter", LFILE,
        "            violations = [v for v in violations if isinstance(v, types)]\n",
        "            violations = list(filter(lambda v: isinstance(v, types), violations))\n",
        "QUIET", None, "a filter step spelled list(filter(..))",
    ),
    # ---- behaviour-preserving refactors: must stay quiet (R20h / R20f exception expansion) ---------
    Variant(
        "quiet-r20h-markers-through-locals", NOQA, _R20H_CUT,
        '        close_marker, open_marker = "*/", "/*"\n        if comment_content.endswith(close_marker):\n            comment_content = comment_content[: -len(close_marker)].rstrip()\n'
        "        if comment_content.startswith(open_marker):\n            comment_content = comment_content[len(open_marker) :].lstrip()\n",
        "QUIET", None, "R20h: markers kept in locals, cut by their length",
    ),
    Variant(
        "quiet-r20h-markers-cut-with-removesuffix", NOQA, _R20H_CUT,
        '        comment_content = comment_content.removesuffix("*/").rstrip()\n        comment_content = comment_content.removeprefix("/*").lstrip()\n',
        "QUIET", None, "R20h: removesuffix / removeprefix cut a literal, not a character set (the text is already stripped, so the unconditional rstrip()/lstrip() is a no-op without a marker)",
    ),
    Variant(
        "quiet-r20h-unbound-str-methods", NOQA, _R20H_CUT,
        '        if comment_content.endswith("*/"):\n            comment_content = str.rstrip(comment_content[:-2])\n        if comment_content.startswith("/*"):\n            comment_content = str.lstrip(comment_content[2:])\n',
        "QUIET", None, "R20h: str.rstrip(text) is text.rstrip(): the first argument is the receiver, not a character set",
    ),
    Variant(
        "quiet-r20h-whitespace-strip-with-explicit-none", NOQA, _R20H_CUT,
        '        if comment_content.endswith("*/"):\n            comment_content = comment_content[:-2].rstrip(None)\n        if comment_content.startswith("/*"):\n            comment_content = comment_content[2:].lstrip(None)\n',
        "QUIET", None, "R20h: rstrip(None) is rstrip()",
    ),
    Variant(
        "quiet-r20h-markers-cut-by-conditional-expressions", NOQA, _R20H_CUT,
        '        comment_content = comment_content[:-2].rstrip() if comment_content.endswith("*/") else comment_content\n'
        '        comment_content = comment_content[2:].lstrip() if comment_content.startswith("/*") else comment_content\n',
        "QUIET", None, "R20h: if statements as conditional expressions",
    ),
    Variant(
        "quiet-r20h-markers-cut-in-a-nested-helper", NOQA,
        "        comment_content = comment.raw_trimmed().strip()\n" + _R20H_BETWEEN + _R20H_CUT,
        "        def _cut_markers(text: str) -> str:\n            text = text.strip()\n            if text.endswith(\"*/\"):\n                text = text[:-2].rstrip()\n            if text.startswith(\"/*\"):\n                text = text[2:].lstrip()\n            return text\n\n"
        "        comment_content = _cut_markers(comment.raw_trimmed())\n",
        "QUIET", None, "R20h: the whole trimming in a nested function",
    ),
    Variant(
        "quiet-r20h-markers-cut-in-a-sibling-helper", NOQA,
        _R20H_HEAD + "        comment_content = comment.raw_trimmed().strip()\n" + _R20H_BETWEEN + _R20H_CUT,
        "    @staticmethod\n    def _cut_markers(text: str) -> str:\n        \"\"\"Trim whitespace and block comment markers.\"\"\"\n        text = text.strip()\n        if text.endswith(\"*/\"):\n            text = text[:-2].rstrip()\n        if text.startswith(\"/*\"):\n            text = text[2:].lstrip()\n        return text\n\n"
        + _R20H_HEAD + "        comment_content = cls._cut_markers(comment.raw_trimmed())\n",
        "QUIET", None, "R20h: the whole trimming in a static method of the class",
    ),
    Variant(
        "quiet-r20f-keys-snapshot-through-a-local", LINTER, _R20F_LOOP,
        "        known_codes = list(output_map)\n        for r in unexpanded_rules:\n            for x in fnmatch.filter(known_codes, r):\n                noqa_set |= output_map.get(x, set())\n",
        "QUIET", None, "R20f: the keys are listed once (after the special codes went in) and globbed from a local",
    ),
    Variant(
        "quiet-r20f-keys-view-through-a-local", LINTER, _R20F_LOOP,
        "        known_codes = output_map.keys()\n        for r in unexpanded_rules:\n            for x in fnmatch.filter(known_codes, r):\n                noqa_set |= output_map.get(x, set())\n",
        "QUIET", None, "R20f: keys view through a local",
    ),
    Variant(
        "quiet-r20f-filter-as-a-loop-over-the-keys", LINTER, _R20F_LOOP,
        "        for r in unexpanded_rules:\n            for x in output_map:\n                if fnmatch.fnmatch(x, r):\n                    noqa_set |= output_map[x]\n",
        "QUIET", None, "R20f: fnmatch.filter(names, pat) is [n for n in names if fnmatch.fnmatch(n, pat)]",
    ),
    Variant(
        "quiet-r20f-filter-as-a-loop-over-the-items", LINTER, _R20F_LOOP,
        "        for r in unexpanded_rules:\n            for code, expansion in output_map.items():\n                if fnmatch.fnmatch(code, r):\n                    noqa_set |= expansion\n",
        "QUIET", None, "R20f: same, over items()",
    ),
    Variant(
        "quiet-r20f-filter-called-with-keywords", LINTER, _R20F_LOOP,
        "        for r in unexpanded_rules:\n            for x in fnmatch.filter(names=output_map.keys(), pat=r):\n                noqa_set |= output_map.get(x, set())\n",
        "QUIET", None, "R20f: keyword arguments",
    ),
    Variant(
        "quiet-r20f-expansion-as-one-union", LINTER, "        noqa_set = set()\n" + _R20F_LOOP,
        "        noqa_set = set().union(\n            *(output_map[x] for r in unexpanded_rules for x in fnmatch.filter(list(output_map), r))\n        )\n",
        "QUIET", None, "R20f: the two loops as one generator, keys listed inline",
    ),
    Variant(
        "quiet-r20f-expansion-in-a-nested-helper", LINTER, _R20F_LOOP,
        "        def _expand(pattern: str) -> list[str]:\n            return fnmatch.filter(output_map.keys(), pattern)\n\n        for r in unexpanded_rules:\n            for x in _expand(r):\n                noqa_set |= output_map.get(x, set())\n",
        "QUIET", None, "R20f: the glob in a nested function",
    ),
    # ---- breaking twins of the R20h / R20f spellings above ----------------------------------------
    Variant(
        "r20h-unbound-str-method-with-a-character-set", NOQA, _R20H_CUT,
        '        if comment_content.endswith("*/"):\n            comment_content = str.rstrip(comment_content, "*/ ")\n        if comment_content.startswith("/*"):\n            comment_content = str.lstrip(comment_content[2:])\n',
        "R20h", "_extract_ignore_from_comment", "twin of quiet-r20h-unbound-str-methods: the second argument is the character set",
    ),
    Variant(
        "r20h-character-set-through-a-local", NOQA, _R20H_CUT,
        '        closing = "*/ "\n        if comment_content.endswith("*/"):\n            comment_content = comment_content.rstrip(closing)\n        if comment_content.startswith("/*"):\n            comment_content = comment_content[2:].lstrip(None)\n',
        "R20h", "_extract_ignore_from_comment", "twin of quiet-r20h-whitespace-strip-with-explicit-none: a set with the glob star through a local",
    ),
    Variant(
        "r20h-sibling-helper-strips-by-character-set", NOQA,
        _R20H_HEAD + "        comment_content = comment.raw_trimmed().strip()\n" + _R20H_BETWEEN + _R20H_CUT,
        "    @staticmethod\n    def _cut_markers(text: str) -> str:\n        \"\"\"Trim whitespace and block comment markers.\"\"\"\n        text = text.strip()\n        if text.endswith(\"*/\"):\n            text = text.rstrip(\"*/ \")\n        if text.startswith(\"/*\"):\n            text = text[2:].lstrip()\n        return text\n\n"
        + _R20H_HEAD + "        comment_content = cls._cut_markers(comment.raw_trimmed())\n",
        "R20h", "_extract_ignore_from_comment", "twin of quiet-r20h-markers-cut-in-a-sibling-helper",
    ),
    Variant(
        "r20f-keys-listed-before-the-special-codes", LINTER,
        "        output_map = reference_map\n        # Add the special rules so they can be excluded for `disable_noqa_except` usage\n        for special_rule in [\"PRS\", \"LXR\", \"TMP\"]:\n            output_map[special_rule] = {special_rule}\n        # Expand glob usage of rules\n        unexpanded_rules = tuple(r.strip() for r in disable_noqa_except.split(\",\"))\n        noqa_set = set()\n" + _R20F_LOOP,
        "        output_map = reference_map\n        known_codes = list(output_map)\n        for special_rule in [\"PRS\", \"LXR\", \"TMP\"]:\n            output_map[special_rule] = {special_rule}\n        unexpanded_rules = tuple(r.strip() for r in disable_noqa_except.split(\",\"))\n        noqa_set = set()\n        for r in unexpanded_rules:\n            for x in fnmatch.filter(known_codes, r):\n                noqa_set |= output_map.get(x, set())\n",
        "R20f", "allowed_rule_ref_map", "twin of quiet-r20f-keys-snapshot-through-a-local: the key list is taken before PRS/LXR/TMP go in, `disable_noqa_except = PRS` selects nothing",
    ),
    Variant(
        "r20f-loop-over-the-original-while-codes-are-on-a-copy", LINTER,
        "        output_map = reference_map\n        # Add the special rules so they can be excluded for `disable_noqa_except` usage\n        for special_rule in [\"PRS\", \"LXR\", \"TMP\"]:\n            output_map[special_rule] = {special_rule}\n        # Expand glob usage of rules\n        unexpanded_rules = tuple(r.strip() for r in disable_noqa_except.split(\",\"))\n        noqa_set = set()\n" + _R20F_LOOP,
        "        output_map = dict(reference_map)\n        for special_rule in [\"PRS\", \"LXR\", \"TMP\"]:\n            output_map[special_rule] = {special_rule}\n        unexpanded_rules = tuple(r.strip() for r in disable_noqa_except.split(\",\"))\n        noqa_set = set()\n        for r in unexpanded_rules:\n            for code, expansion in reference_map.items():\n                if fnmatch.fnmatch(code, r):\n                    noqa_set |= expansion\n",
        "R20f", "allowed_rule_ref_map", "twin of quiet-r20f-filter-as-a-loop-over-the-items: the loop walks the original map, the special codes are on the copy",
    ),
    Variant(
        "r20f-keyword-filter-over-the-original-while-codes-are-on-a-copy", LINTER,
        "        output_map = reference_map\n        # Add the special rules so they can be excluded for `disable_noqa_except` usage\n        for special_rule in [\"PRS\", \"LXR\", \"TMP\"]:\n            output_map[special_rule] = {special_rule}\n        # Expand glob usage of rules\n        unexpanded_rules = tuple(r.strip() for r in disable_noqa_except.split(\",\"))\n        noqa_set = set()\n" + _R20F_LOOP,
        "        output_map = dict(reference_map)\n        for special_rule in [\"PRS\", \"LXR\", \"TMP\"]:\n            output_map[special_rule] = {special_rule}\n        unexpanded_rules = tuple(r.strip() for r in disable_noqa_except.split(\",\"))\n        noqa_set = set()\n        for r in unexpanded_rules:\n            for x in fnmatch.filter(pat=r, names=sorted(reference_map)):\n                noqa_set |= output_map.get(x, set())\n",
        "R20f", "allowed_rule_ref_map", "twin of quiet-r20f-filter-called-with-keywords / -expansion-as-one-union: keyword arguments, keys of the original map copied inline",
    ),
    # ---- breaking twins of the quiet spellings above ---------------------------------------------
    Variant(
        "parse-noqa-counter-bumped-without-an-expansion", NOQA, "                            matched = False\n                            for expanded in (\n                                reference_map[x]\n                                for x in fnmatch.filter(reference_map.keys(), r)\n                            ):\n                                expanded_rules |= expanded\n                                matched = True\n\n                            if not matched:\n",
        "                            n_matches = 0\n                            for expanded in (\n                                reference_map[x]\n                                for x in fnmatch.filter(reference_map.keys(), r)\n                            ):\n                                expanded_rules |= expanded\n                            n_matches += 1\n\n                            if n_matches == 0:\n",
        "R20d", "_parse_noqa", "twin of quiet-parse-noqa-matches-counted: the count is bumped for every reference, the raw reference is never kept",
    ),
    Variant(
        "parse-noqa-matching-keys-only-first-expanded", NOQA, "                            matched = False\n                            for expanded in (\n                                reference_map[x]\n                                for x in fnmatch.filter(reference_map.keys(), r)\n                            ):\n                                expanded_rules |= expanded\n                                matched = True\n\n                            if not matched:\n",
        "                            keys = fnmatch.filter(reference_map.keys(), r)\n                            for key in keys[:1]:\n                                expanded_rules |= reference_map[key]\n\n                            if not keys:\n",
        "R20d", "_parse_noqa", "twin of quiet-parse-noqa-matching-keys-tested-for-emptiness: the loop walks a slice of the tested list",
    ),
    Variant(
        "parse-noqa-matching-keys-expanded-only-for-globs", NOQA, "                            matched = False\n                            for expanded in (\n                                reference_map[x]\n                                for x in fnmatch.filter(reference_map.keys(), r)\n                            ):\n                                expanded_rules |= expanded\n                                matched = True\n\n                            if not matched:\n",
        "                            keys = fnmatch.filter(reference_map.keys(), r)\n                            if \"*\" in r:\n                                for key in keys:\n                                    expanded_rules |= reference_map[key]\n\n                            if not keys:\n",
        "R20d", "_parse_noqa", "twin: a plain reference that matched a key contributes neither its expansion nor itself",
    ),
    Variant(
        "single-line-rules-local-tested-by-truthiness", NOQA, "        matched_violations = [\n            v\n            for v in violations\n            if (\n                v.line_no == self.line_no\n                and (self.rules is None or v.rule_code() in self.rules)\n            )\n        ]\n",
        "        rules = self.rules\n        matched_violations = [\n            v\n            for v in violations\n            if v.line_no == self.line_no and (not rules or v.rule_code() in rules)\n        ]\n",
        "R20e", "_filter_violations_single_line", "twin of quiet-single-line-rules-through-a-local",
    ),
    Variant(
        "single-line-rules-local-matched-on-rule-object", NOQA, "        matched_violations = [\n            v\n            for v in violations\n            if (\n                v.line_no == self.line_no\n                and (self.rules is None or v.rule_code() in self.rules)\n            )\n        ]\n",
        "        rules = self.rules\n        matched_violations = [\n            v\n            for v in violations\n            if v.line_no == self.line_no and (rules is None or getattr(v, \"rule\", None) in rules)\n        ]\n",
        "R20d", "_filter_violations_single_line", "twin of quiet-single-line-rules-through-a-local",
    ),
    Variant(
        "ignore-filter-loop-walks-a-capped-slice", LFILE,
        "            violations = [v for v in violations if not v.ignore]\n",
        "            not_ignored = []\n            for v in violations[:1000]:\n                if not v.ignore:\n                    not_ignored.append(v)\n            violations = not_ignored\n",
        "R20c", "get_violations", "twin of quiet-get-violations-ignore-filter-as-a-loop: the loop walks a slice of the running list",
    ),
    Variant(
        "range-matcher-fed-the-unfiltered-list-by-keyword", NOQA,
        "        violations = self._ignore_masked_violations_single_line(\n            violations, ignore_specific\n        )\n        violations = self._ignore_masked_violations_line_range(violations, ignore_range)\n",
        "        remaining = self._ignore_masked_violations_single_line(\n            violations, ignore_specific\n        )\n        violations = self._ignore_masked_violations_line_range(\n            violations=violations, ignore_mask=ignore_range\n        )\n",
        "R20c", "ignore_masked_violations", "twin of quiet-matchers-called-with-keywords: the single-line result is dropped",
    ),
    Variant(
        "unused-warnings-two-steps-first-step-narrower", NOQA,
        "        return [\n            SQLUnusedNoQaWarning(\n                line_no=ignore.line_no,\n                line_pos=ignore.line_pos,\n                description=f\"Unused noqa: {ignore.raw_str!r}\",\n            )\n            for ignore in self._ignore_list\n            if not ignore.used\n        ]\n",
        "        unused = [ignore for ignore in self._ignore_list if not ignore.used and not ignore.action]\n        return [\n            SQLUnusedNoQaWarning(\n                line_no=ignore.line_no,\n                line_pos=ignore.line_pos,\n                description=f\"Unused noqa: {ignore.raw_str!r}\",\n            )\n            for ignore in unused\n        ]\n",
        "R20c", "generate_warnings_for_unused", "twin of quiet-unused-warnings-in-two-steps",
    ),
    Variant(
        "single-line-marked-when-any-violation-exists", NOQA,
        "        if matched_violations:\n            # Successful match",
        "        if len(violations) > 0:\n            # Successful match",
        "R20c", "_filter_violations_single_line", "twin of quiet-single-line-match-test-by-length: the length of the wrong list",
    ),
    Variant(
        "single-line-matches-loop-without-a-filter", NOQA,
        "        matched_violations = [\n            v\n            for v in violations\n            if (\n                v.line_no == self.line_no\n                and (self.rules is None or v.rule_code() in self.rules)\n            )\n        ]\n",
        "        matched_violations = []\n        for v in violations:\n            if self.rules is None or v.rule_code() in self.rules:\n                pass\n            matched_violations.append(v)\n",
        "R20c", "_filter_violations_single_line", "twin of quiet-single-line-matches-collected-by-a-loop: the append slipped out of the test",
    ),
    Variant(
        "range-keep-decided-on-the-wrong-component", NOQA,
        "            ignore, last_ignore = cls._should_ignore_violation_line_range(\n                v.line_no, ignore_rule\n            )\n            if not ignore:\n                result.append(v)\n            # If there was a previous ignore which mean that we filtered out\n            # a violation, then mark it as used.\n            elif last_ignore:\n                last_ignore.used = True\n",
        "            verdict = cls._should_ignore_violation_line_range(\n                v.line_no, ignore_rule\n            )\n            if not verdict[1]:\n                result.append(v)\n            elif verdict[1]:\n                verdict[1].used = True\n",
        "R20c", "_ignore_masked_violations_line_range", "twin of quiet-range-decision-kept-as-a-pair",
    ),
    Variant(
        "range-decision-asked-for-the-column", NOQA,
        "            ignore, last_ignore = cls._should_ignore_violation_line_range(\n                v.line_no, ignore_rule\n            )\n",
        "            violation_line = v.line_pos\n            ignore, last_ignore = cls._should_ignore_violation_line_range(\n                line_no=violation_line, ignore_rules=ignore_rule\n            )\n",
        "R20c", "_ignore_masked_violations_line_range", "twin of quiet-range-violation-line-through-a-local",
    ),
    Variant(
        "range-hoisted-key-is-the-rule-object", NOQA,
        "            ignore_rule = sorted(\n                (\n                    ignore\n                    for ignore in ignore_mask\n                    if ignore.rules is None or (v.rule_code() in ignore.rules)\n                ),\n",
        "            code = getattr(v, \"rule\", None)\n            ignore_rule = sorted(\n                (\n                    ignore\n                    for ignore in ignore_mask\n                    if ignore.rules is None or (code in ignore.rules)\n                ),\n",
        "R20d", "_ignore_masked_violations_line_range", "twin of quiet-range-rule-code-hoisted",
    ),
    Variant(
        "parse-noqa-expansion-overwrites-the-set", NOQA,
        "                                expanded_rules |= expanded\n",
        "                                expanded_rules = expanded\n",
        "R20d", "_parse_noqa", "twin of quiet-parse-noqa-set-union-spelled-out: only the last key's expansion survives",
    ),
    Variant(
        "parse-noqa-expansion-intersects-the-set", NOQA,
        "                                expanded_rules |= expanded\n",
        "                                expanded_rules = expanded_rules & expanded\n",
        "R20d", "_parse_noqa", "twin: s = s & x shrinks the set",
    ),
    Variant(
        "parse-noqa-reference-skipped-by-continue", NOQA,
        "                            matched = False\n                            for expanded in (\n",
        "                            if r.startswith(\"!\"):\n                                continue\n                            matched = False\n                            for expanded in (\n",
        "R20d", "_parse_noqa", "twin of quiet-parse-noqa-raw-reference-after-continue: a reference contributes nothing",
    ),
    Variant(
        "parse-noqa-sorted-local-truncated", NOQA,
        "                        rules = tuple(sorted(expanded_rules))\n",
        "                        in_order = sorted(expanded_rules)[:10]\n                        rules = tuple(in_order)\n",
        "R20d", "_parse_noqa", "twin of quiet-parse-noqa-sorted-through-a-local",
    ),
    Variant(
        "special-codes-updated-into-a-copy-result-from-the-original", LINTER,
        "        output_map = reference_map\n        # Add the special rules so they can be excluded for `disable_noqa_except` usage\n        for special_rule in [\"PRS\", \"LXR\", \"TMP\"]:\n            output_map[special_rule] = {special_rule}\n",
        "        output_map = dict(reference_map)\n        output_map.update({code: {code} for code in (\"PRS\", \"LXR\", \"TMP\")})\n        output_map, reference_map = reference_map, output_map\n",
        "R20f", "allowed_rule_ref_map", "twin of quiet-special-codes-stored-with-update",
    ),
    Variant(
        "directive-line-pair-from-templated-position", NOQA,
        "        comment_line, comment_pos = comment.pos_marker.source_position()\n        result = cls._parse_noqa(\n            comment_content, comment_line, comment_pos, reference_map\n        )\n",
        "        marker = comment.pos_marker\n        where = marker.templated_position()\n        result = cls._parse_noqa(comment_content, where[0], where[1], reference_map)\n",
        "R20b", "_extract_ignore_from_comment", "twin of quiet-directive-position-kept-as-a-pair",
    ),
    Variant(
        "directive-line-pair-components-swapped", NOQA,
        "        comment_line, comment_pos = comment.pos_marker.source_position()\n        result = cls._parse_noqa(\n            comment_content, comment_line, comment_pos, reference_map\n        )\n",
        "        where = comment.pos_marker.source_position()\n        result = cls._parse_noqa(comment_content, where[1], where[0], reference_map)\n",
        "R20b", "_extract_ignore_from_comment", "twin: column handed in as the line",
    ),
    Variant(
        "from-source-lines-local-of-another-text", NOQA,
        "        for idx, line in enumerate(source.split(\"\\n\")):\n",
        "        lines = source.strip().split(\"\\n\")\n        for idx, line in enumerate(lines):\n",
        "R20b", "from_source", "twin of quiet-from-source-lines-through-a-local: leading blank lines stripped, every directive line shifts",
    ),
    Variant(
        "linted-file-mask-from-the-wrong-component", LINTER,
        "            (\n                fixed_tree,\n                initial_linting_errors,\n                ignore_mask,\n                rule_timings,\n            ) = cls.lint_fix_parsed(\n                root_variant.tree,\n                config=parsed.config,\n                rule_pack=rule_pack,\n                fix=fix,\n                fname=parsed.fname,\n                templated_file=root_variant.templated_file,\n                formatter=formatter,\n            )\n",
        "            root_result = cls.lint_fix_parsed(\n                root_variant.tree,\n                config=parsed.config,\n                rule_pack=rule_pack,\n                fix=fix,\n                fname=parsed.fname,\n                templated_file=root_variant.templated_file,\n                formatter=formatter,\n            )\n            fixed_tree, initial_linting_errors = root_result[0], root_result[1]\n            ignore_mask = root_result[3]\n            rule_timings = root_result[3]\n",
        "R20a", "lint_parsed", "twin of quiet-lint-fix-parsed-result-kept-whole",
    ),
    # ---- breaking edits -------------------------------------------------------------------------
    Variant(
        "gate-dropped-in-lint-fix-parsed", LINTER,
        "        if not config.get(\"disable_noqa\") or disable_noqa_except:\n",
        "        if True:\n",
        "R20a", "lint_fix_parsed", "directives are read although disable_noqa is set",
    ),
    Variant(
        "fallback-gate-wrong-polarity", LINTER,
        "            if parsed.config.get(\"disable_noqa\") and not disable_noqa_except:\n",
        "            if parsed.config.get(\"disable_noqa\") and disable_noqa_except:\n",
        "R20a", "lint_parsed",
    ),
    Variant(
        "cli-parse-filter-gate-dropped", CMDS,
        "    if parsed_string.config.get(\"disable_noqa\") and not disable_noqa_except:\n        return [v for v in violations if not v.ignore and not v.warning]\n",
        "",
        "R20a", "_get_filtered_parse_violations", "`sqlfluff parse` hides PRS errors through noqa although disabled",
    ),
    Variant(
        "mask-built-on-the-disabled-branch", LINTER,
        "                # unparsable file will still have a valid tree.\n                ignore_mask = None\n",
        "                # unparsable file will still have a valid tree.\n                ignore_mask = IgnoreMask.from_source_with_dialect(\n                    parsed.source_str, parsed.config.get(\"dialect_obj\"), rule_pack.reference_map\n                )[0]\n",
        "R20a", "lint_parsed", "a new construction site on the path where noqa is off",
    ),
    Variant(
        "fallback-reads-unrestricted-map", LINTER,
        "                    parsed.config.get(\"dialect_obj\"),\n                    allowed_rules_ref_map,\n",
        "                    parsed.config.get(\"dialect_obj\"),\n                    rule_pack.reference_map,\n",
        "R20b", "lint_parsed", "disable_noqa_except not honoured for files without a tree (R21d accepts the pack's own map)",
    ),
    Variant(
        "allowed-map-without-except-list", LINTER,
        "                rule_pack.reference_map, disable_noqa_except\n            )\n            ignore_mask, ivs = IgnoreMask.from_tree(tree, allowed_rules_ref_map)\n",
        "                rule_pack.reference_map, None\n            )\n            ignore_mask, ivs = IgnoreMask.from_tree(tree, allowed_rules_ref_map)\n",
        "R20b", "lint_fix_parsed",
    ),
    Variant(
        "fallback-reads-templated-text", LINTER,
        "                    parsed.source_str,\n                    parsed.config.get(\"dialect_obj\"),\n",
        "                    parsed.parsed_variants[0].templated_file.templated_str if parsed.parsed_variants else parsed.source_str,\n                    parsed.config.get(\"dialect_obj\"),\n",
        "R20b", "lint_parsed", "directive lines counted in rendered text, violations in source text",
    ),
    Variant(
        "directive-line-from-templated-position", NOQA,
        "        comment_line, comment_pos = comment.pos_marker.source_position()\n",
        "        comment_line, comment_pos = comment.pos_marker.templated_position()\n",
        "R20b", "_extract_ignore_from_comment",
    ),
    Variant(
        "mask-applied-regardless-of-filter-ignore", LFILE,
        "            # Ignore any rules in the ignore mask\n            if self.ignore_mask:\n                violations = self.ignore_mask.ignore_masked_violations(violations)\n",
        "        # Ignore any rules in the ignore mask\n        if self.ignore_mask:\n            violations = self.ignore_mask.ignore_masked_violations(violations)\n",
        "R20c", "get_violations", "unfiltered counts are masked too",
    ),
    Variant(
        "mask-result-discarded", LFILE,
        "                violations = self.ignore_mask.ignore_masked_violations(violations)\n",
        "                self.ignore_mask.ignore_masked_violations(violations)\n",
        "R20c", "get_violations",
    ),
    Variant(
        "mask-skipped-when-rules-filter-given", LFILE,
        "            if self.ignore_mask:\n",
        "            if self.ignore_mask and not rules:\n",
        "R20c", "get_violations",
    ),
    Variant(
        "range-view-drops-enable-directives", NOQA,
        "        ignore_range = [ignore for ignore in self._ignore_list if ignore.action]\n",
        "        ignore_range = [ignore for ignore in self._ignore_list if ignore.action == \"disable\"]\n",
        "R20c", "ignore_masked_violations", "enable directives are consulted by no matcher",
    ),
    Variant(
        "unused-warning-only-for-line-directives", NOQA,
        "            if not ignore.used\n",
        "            if not ignore.used and ignore.action is None\n",
        "R20c", "generate_warnings_for_unused",
    ),
    Variant(
        "single-line-match-not-marked", NOQA,
        "            # Successful match, mark ignore as used.\n            self.used = True\n",
        "            # Successful match, mark ignore as used.\n",
        "R20c", "_filter_violations_single_line",
    ),
    Variant(
        "range-match-not-marked", NOQA,
        "            elif last_ignore:\n                last_ignore.used = True\n",
        "",
        "R20c", "_ignore_masked_violations_line_range",
    ),
    Variant(
        "used-flag-preset-by-the-linter", LINTER,
        "            initial_linting_errors += ivs\n",
        "            initial_linting_errors += ivs\n            for _directive in ignore_mask._ignore_list:\n                _directive.used = True\n",
        "R20c", "lint_fix_parsed", "a second writer of the flag in another module",
    ),
    Variant(
        "unmatched-reference-dropped", NOQA,
        "                                expanded_rules.add(r)\n",
        "                                linter_logger.debug(\"Unknown rule reference %r\", r)\n",
        "R20d", "_parse_noqa", "noqa: PRS no longer matches anything",
    ),
    Variant(
        "raw-reference-allow-list-misses-tmp", NOQA,
        "                            if not matched:\n",
        "                            if not matched and r in (\"PRS\", \"LXR\"):\n",
        "R20d", "_parse_noqa",
    ),
    Variant(
        "glob-expands-to-first-key-only", NOQA,
        "                                expanded_rules |= expanded\n                                matched = True\n",
        "                                expanded_rules |= expanded\n                                matched = True\n                                break\n",
        "R20d", "_parse_noqa",
    ),
    Variant(
        "single-line-matches-on-rule-object", NOQA,
        "                and (self.rules is None or v.rule_code() in self.rules)\n",
        "                and (self.rules is None or getattr(v, \"rule\", None) in self.rules)\n",
        "R20d", "_filter_violations_single_line", "PRS/LXR/TMP errors have no rule object",
    ),
    Variant(
        "single-line-all-rules-by-truthiness", NOQA,
        "                and (self.rules is None or v.rule_code() in self.rules)\n",
        "                and (not self.rules or v.rule_code() in self.rules)\n",
        "R20e", "_filter_violations_single_line", "same defect as the range matcher has today",
    ),
    Variant(
        "range-all-rules-by-truthiness", NOQA,
        "                    if ignore.rules is None or (v.rule_code() in ignore.rules)\n",
        "                    if not ignore.rules or (v.rule_code() in ignore.rules)\n",
        "R20e", "_ignore_masked_violations_line_range", "stale until the finding of the unchanged tree is fixed; re-introduces it afterwards",
    ),
]
