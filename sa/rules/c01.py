"""C01 — lexing is total and unlexable characters are reported (decided clauses only).

R01a  lexer totality per dialect.  Let L be the last-resort matcher, read from the
      ``RegexLexer(...)`` call in ``PyLexer.__init__`` (pattern) and from
      ``RegexLexer.__post_init__`` (compile flags).  ``consumes(L)`` = characters c such
      that on every input starting with c the last-resort match is non-empty (regex
      AST, ``sa/rx_lex.py``).  W = complement of ``consumes(L)`` (today {TAB, LF, SPACE}).
      ``PyLexer.lex`` raises "Fatal. Unable to lex" exactly when no dialect matcher and
      not L consumes the next character, so: for every dialect of the lookup and every
      c in W some top-level matcher of the dialect's resolved table must consume c:
      the one-character string c is in its language and the matcher can never return
      an empty match for an input starting with c (non-nullable, or greedy ``X*``).
      ``StringLexer`` templates consume their single character.  Patterns the stdlib
      parser cannot read are *unknown* (``\\p{L}`` / ``(?R)`` are re-read in an over-
      approximated form that only yields a first-character superset), patterns with
      look-around/anchors/back-references are *inexact*; they discharge nothing and
      never alarm: if c is uncovered while an unknown pattern exists or an inexact /
      approximated pattern can start with c -> ANALYSIS-ERROR, not a violation.
R01b  wiring of LXR reporting (def-use on the source):
      (1) every ``return`` of ``PyLexer.lex`` returns ``(S, V)`` with V derived from
          ``violations_from_segments(S)`` for the same S;
      (2) ``violations_from_segments`` iterates its parameter and appends one
          ``SQLLexError`` per segment under the single test ``segment.is_type(T)``;
          the list appended to is what it returns;
      (3) T is the ``type`` of the segment class given to the last-resort matcher;
      (4) ``Linter._lex_templated_file``: the errors unpacked from ``lexer.lex(..)`` are
          added (``+=`` / ``extend``) to the list returned as second component on every
          path to the normal return, nothing is ever removed from that list, and the
          token filter in front of the return only ever skips *meta* segments
          (the template-indent balance filter: ``segment.is_meta`` and ``indent_val != 0``
          while template-block indents are off) - an unlexable token is never dropped;
      (5) the ``lexer.lex`` call sits in a ``try`` whose handler for ``SQLLexError``
          (or a base class) appends the caught error to the returned list and returns.

Spellings that are the same fact (each has a QUIET self-test variant): a test held in a boolean
local (``sa/idioms.atoms_at``); conjunction / nested ifs / early ``continue`` / if-else;
``indent_val != 0`` as truthiness; filter loop or list comprehension; the ``lexer.lex`` result
unpacked or kept whole and subscripted (``_lex_part``); ``+=`` or ``extend``; the created error or
the pattern literal passed through a local; keyword or positional arguments; the default matcher
built in the assignment or in an ``if`` on the parameter; the handler returning ``[err]`` or a
list it appended ``err`` to (on every path to each of its returns).
"""

from __future__ import annotations

import ast
import re
from typing import Dict, List, Optional, Tuple

from ..cfg import Branch, atoms, cfg_of, origins
from ..grammar import load_grammar
from ..idioms import branch_atoms
from ..index import AnalysisError, FuncNode, arg_of, call_name, calls_in, const, kwarg, last_attr, norm, short, walk_local
from ..rx_lex import EMPTY, CharSet, PatternInfo, analyse, analyse_literal, char_name

SELFTEST_NEEDS_FILES = True

LEXER = "src/sqlfluff/core/parser/lexer.py"
LINTER = "src/sqlfluff/core/linter/linter.py"
MAX_UNKNOWN_PATTERNS = 12
MAX_CHARS_REPORTED = 4
FLAG_NAMES = {
    "DOTALL": re.DOTALL, "S": re.DOTALL, "IGNORECASE": re.IGNORECASE, "I": re.IGNORECASE,
    "MULTILINE": re.MULTILINE, "M": re.MULTILINE, "VERBOSE": re.VERBOSE, "X": re.VERBOSE,
    "UNICODE": re.UNICODE, "U": re.UNICODE,
}


# -- static facts -----------------------------------------------------------------------


def _flags_value(expr: ast.AST, func: ast.AST) -> Optional[int]:
    """Value of a compile-flags expression (regex.DOTALL | regex.I, a local name, 0)."""
    if isinstance(expr, ast.Constant) and isinstance(expr.value, int):
        return expr.value
    if isinstance(expr, ast.Attribute) and expr.attr in FLAG_NAMES:
        return FLAG_NAMES[expr.attr]
    if isinstance(expr, ast.BinOp) and isinstance(expr.op, ast.BitOr):
        a, b = _flags_value(expr.left, func), _flags_value(expr.right, func)
        return None if a is None or b is None else a | b
    if isinstance(expr, ast.Name):
        cfg = cfg_of(func)
        os_ = origins(cfg, expr)
        vals = {_flags_value(o.expr, func) if o.kind == "expr" and not o.path else None for o in os_}
        if len(vals) == 1:
            return vals.pop()
    return None


def last_resort(repo) -> dict:
    """Pattern, flags and segment class of the last-resort matcher, from the source."""
    init = repo.fn(LEXER, "PyLexer.__init__")
    icfg = cfg_of(init)
    cands = []
    for st in walk_local(init):
        if isinstance(st, (ast.Assign, ast.AnnAssign)):
            tgts = st.targets if isinstance(st, ast.Assign) else [st.target]
            if any(isinstance(t, ast.Attribute) and t.attr == "last_resort_lexer" for t in tgts) and st.value is not None:
                # the default may be built in the assignment itself or reach it through a local
                # (`if not last_resort_lexer: last_resort_lexer = RegexLexer(..)`): look at the
                # value and at what its local names may hold here
                exprs = [st.value]
                for nm in [n for n in ast.walk(st.value) if isinstance(n, ast.Name)]:
                    exprs += [o.expr for o in origins(icfg, nm, st) if o.kind == "expr" and isinstance(o.expr, ast.AST)]
                for ex in exprs:
                    for c in [n for n in ast.walk(ex) if isinstance(n, ast.Call)]:
                        if last_attr(c) in ("RegexLexer", "StringLexer") and not any(c is x for x in cands):
                            cands.append(c)
    if len(cands) != 1:
        raise AnalysisError(f"PyLexer.__init__: expected exactly one RegexLexer(...) default assigned to self.last_resort_lexer, found {len(cands)}")
    call = cands[0]
    kind = last_attr(call)
    tmpl = call.args[1] if len(call.args) > 1 else kwarg(call, "template")
    segc = call.args[2] if len(call.args) > 2 else kwarg(call, "segment_class")
    if isinstance(tmpl, ast.Name):
        # the literal passed through a local of __init__ (one definition, a plain string)
        tos = origins(icfg, tmpl, icfg.stmt_of(call))
        if len(tos) == 1 and tos[0].kind == "expr" and not tos[0].path:
            tmpl = tos[0].expr
    if not (isinstance(tmpl, ast.Constant) and isinstance(tmpl.value, str)):
        raise AnalysisError("last-resort matcher pattern is not a string literal; cannot compute its character class")
    if not isinstance(segc, (ast.Name, ast.Attribute)):
        raise AnalysisError("last-resort matcher segment class is not a plain name")
    flags = 0
    if kind == "RegexLexer":
        post = repo.fn(LEXER, "RegexLexer.__post_init__")
        pcfg = cfg_of(post)

        def _is_template(e) -> bool:
            if e is None:
                return False
            if norm(e) == "self.template":
                return True
            if isinstance(e, ast.Name):
                os_ = origins(pcfg, e, pcfg.stmt_of(e))
                return bool(os_) and all(o.kind == "expr" and not o.path and norm(o.expr) == "self.template" for o in os_)
            return False

        comp = [c for c in calls_in(post) if last_attr(c) == "compile" and _is_template(arg_of(c, 0, "pattern"))]
        if len(comp) != 1:
            raise AnalysisError("RegexLexer.__post_init__: regex.compile(self.template, ...) not found")
        fexpr = comp[0].args[1] if len(comp[0].args) > 1 else kwarg(comp[0], "flags")
        fv = 0 if fexpr is None else _flags_value(fexpr, post)
        if fv is None:
            raise AnalysisError(f"RegexLexer.__post_init__: cannot evaluate compile flags {norm(fexpr)!r}")
        flags = fv
    # type of the segment class, through the source class hierarchy
    m = repo.mod(LEXER)
    r = repo.resolve_name(m, norm(segc))
    if not r or not isinstance(r[1], ast.ClassDef):
        raise AnalysisError(f"cannot resolve the last-resort segment class {norm(segc)}")
    seg_type = None
    for mm, cc in repo.mro(r[0], r[1]):
        for item in cc.body:
            if isinstance(item, (ast.Assign, ast.AnnAssign)):
                tg = item.targets if isinstance(item, ast.Assign) else [item.target]
                if any(isinstance(t, ast.Name) and t.id == "type" for t in tg) and isinstance(const(item.value), str):
                    seg_type = const(item.value)
                    break
        if seg_type is not None:
            break
    return {"call": call, "kind": kind, "pattern": tmpl.value, "flags": flags, "segment_class": norm(segc),
            "segment_class_def": r, "segment_type": seg_type}


def matcher_info(m: dict, flags: int) -> PatternInfo:
    if m["kind"] == "RegexLexer" and isinstance(m.get("template"), str):
        return analyse(m["template"], flags)
    if m["kind"] == "StringLexer" and isinstance(m.get("template"), str):
        return analyse_literal(m["template"])
    p = PatternInfo(str(m.get("template")))
    p.status = "unknown"
    p.exact = False
    p.error = f"matcher class {m.get('cls')} is not modelled"
    return p


# -- R01a -----------------------------------------------------------------------------------


def r01a(chk, repo, g, lr) -> None:
    init_construct = f"{LEXER}::PyLexer.__init__"
    if lr["kind"] == "RegexLexer":
        li = analyse(lr["pattern"], lr["flags"])
    else:
        li = analyse_literal(lr["pattern"])
    if li.status != "ok":
        raise AnalysisError(f"last-resort pattern {lr['pattern']!r} cannot be read by the stdlib regex parser: {li.error}")
    if li.nullable and li.shape == "nullable-unsupported":
        raise AnalysisError(f"last-resort pattern {lr['pattern']!r} can match empty in a shape the analysis does not understand")
    if not li.exact:
        raise AnalysisError(f"last-resort pattern {lr['pattern']!r} uses look-around/anchors; its character class cannot be computed exactly")
    W = li.consumes.complement()
    chk.note(f"last-resort matcher {lr['pattern']!r} (flags {lr['flags']}) consumes everything except W = {W.describe(8)}.")
    chk.extra["last_resort"] = {"pattern": lr["pattern"], "flags": lr["flags"], "W": W.describe(12), "W_size": len(W)}
    chk.count("R01a.W_size", len(W))
    unknown_patterns = set()
    all_uncovered: Dict[str, CharSet] = {}
    per_dialect = {}
    for label in sorted(g.lookup):
        d = g[label]
        if not d.lexer:
            # C29/R29b reports a dialect that does not load; totality cannot be judged for it
            if d.error:
                chk.note(f"dialect {label} did not load (stage {d.error.get('stage')}); see C29/R29b.")
                chk.count("R01a.dialects_not_loaded")
                continue
            raise AnalysisError(f"dialect {label} has an empty lexer matcher table")
        chk.count("R01a.dialects")
        infos = []
        for m in d.lexer:
            chk.count("R01a.matchers")
            pi = matcher_info(m, lr["flags"] if lr["kind"] == "RegexLexer" else re.DOTALL)
            infos.append((m, pi))
            if pi.status != "ok":
                unknown_patterns.add(m.get("template"))
        covered = EMPTY
        for m, pi in infos:
            if pi.status == "ok":
                covered = covered | pi.consumes
        uncovered = W - covered
        per_dialect[label] = (d, infos, uncovered)
        n_w = len(W)
        n_bad = len(uncovered)
        # obligations: one per (dialect, character of W)
        chk.obligations += n_w - n_bad
        chk.discharged += n_w - n_bad
        if n_w <= 16:
            for c in W.chars():
                if c not in uncovered:
                    who = next(m["name"] for m, pi in infos if pi.status == "ok" and c in pi.consumes)
                    chk.constructs.add(("R01a", f"{d.module}::{d.object_name}", f"dialect={label} char={char_name(c)} by={who}"))
        if uncovered:
            all_uncovered[label] = uncovered
    chk.count("R01a.unknown_patterns", len(unknown_patterns))
    if len(unknown_patterns) > MAX_UNKNOWN_PATTERNS:
        raise AnalysisError(f"{len(unknown_patterns)} lexer patterns are unreadable for the stdlib regex parser (ceiling {MAX_UNKNOWN_PATTERNS}): {sorted(unknown_patterns)[:5]}")
    # samples
    for label in ("ansi", "tsql"):
        if label in per_dialect and len(W) <= 16:
            d, infos, _ = per_dialect[label]
            for c in W.chars():
                who = [(m["name"], m["template"]) for m, pi in infos if pi.status == "ok" and c in pi.consumes][:1]
                chk.sample({"rule": "R01a", "dialect": label, "char": char_name(c), "consumed_by": who})
    undecided = []
    for label, unc in sorted(all_uncovered.items()):
        d, infos, _ = per_dialect[label]
        construct = f"{d.module}::{d.object_name}"
        chars = unc.sample(MAX_CHARS_REPORTED)
        for c in chars:
            maybe = [m for m, pi in infos if pi.status == "unknown" or (pi.status in ("ok", "approx") and not pi.exact and c in pi.first)]
            if maybe:
                undecided.append((label, c, [m["name"] for m in maybe]))
                continue
            near = [
                f"{m['name']} {m['template']!r} ({'can match empty' if pi.nullable else 'needs more than this one character'})"
                for m, pi in infos if pi.status == "ok" and c in pi.first
            ]
            chk.fail(
                "R01a", None,
                f"dialect {label!r}: no lexer matcher consumes {char_name(c)} and the last-resort matcher "
                f"{lr['pattern']!r} ({LEXER}:{lr['call'].lineno}) cannot match it either, so PyLexer.lex raises "
                f"'Fatal. Unable to lex' on any input containing it at a token boundary; "
                + (f"matchers starting with it: {'; '.join(near)}" if near else "no matcher of the dialect starts with it"),
                detail=f"dialect={label} char={char_name(c)}", construct=construct, loc=f"{d.module}:0",
                extra={"last_resort": lr["pattern"], "uncovered": unc.describe(12)},
            )
        if len(unc) > len(chars):
            chk.fail(
                "R01a", None,
                f"dialect {label!r}: {len(unc)} characters are consumed neither by a matcher nor by the last-resort matcher "
                f"{lr['pattern']!r}: {unc.describe(10)}",
                detail=f"dialect={label} further uncovered characters", construct=construct, loc=f"{d.module}:0",
            )
    if undecided and not chk.findings:
        lab, c, names = undecided[0]
        raise AnalysisError(
            f"R01a cannot decide {len(undecided)} (dialect, character) pairs, e.g. dialect {lab}: {char_name(c)} is only "
            f"reachable through unreadable/inexact patterns {names}"
        )
    if all_uncovered and len(all_uncovered) == chk.instances.get("R01a.dialects", 0):
        common = None
        for unc in all_uncovered.values():
            common = unc if common is None else (common & unc)
        if common:
            chk.note(f"characters uncovered in every dialect ({common.describe(6)}): look at the last-resort matcher in {init_construct} or at the ansi matcher table first.")
    chk.floor("R01a.matchers", 500)
    if not chk.instances.get("R01a.dialects_not_loaded"):
        chk.floor("R01a.dialects", 20)
    if len(W) == 0:
        chk.note("W is empty: the last-resort matcher consumes every character.")
    chk.exhaustive = True


# -- R01b -----------------------------------------------------------------------------------


def _tuple_returns(func) -> List[ast.Return]:
    return [n for n in walk_local(func) if isinstance(n, ast.Return)]


def _origin_ids(cfg, expr, at) -> set:
    return {(id(o.expr), o.path, o.kind) for o in origins(cfg, expr, at)}


def r01b(chk, repo, lr) -> None:
    # (1) PyLexer.lex ---------------------------------------------------------------
    lex = repo.fn(LEXER, "PyLexer.lex")
    cfg = cfg_of(lex)
    rets = _tuple_returns(lex)
    chk.count("R01b.lex_returns", len(rets))
    chk.floor("R01b.lex_returns", 1)
    for r in rets:
        v = r.value
        ok = False
        why = "does not return a (segments, violations) pair"
        if isinstance(v, ast.Tuple) and len(v.elts) == 2:
            seg_e, vio_e = v.elts
            why = "the second component does not derive from violations_from_segments(<returned segments>)"
            vos = origins(cfg, vio_e, r) if isinstance(vio_e, ast.Name) else [type("O", (), {"expr": vio_e, "path": (), "kind": "expr", "stmt": r})()]
            good = bool(vos)
            for o in vos:
                e = o.expr
                a = arg_of(e, 0, "segments") if isinstance(e, ast.Call) else None
                if not (o.kind == "expr" and not o.path and isinstance(e, ast.Call) and last_attr(e) == "violations_from_segments" and a is not None and len(e.args) + len(e.keywords) == 1):
                    good = False
                    break
                at = o.stmt if o.stmt is not None else r
                if _origin_ids(cfg, a, at) != _origin_ids(cfg, seg_e, r):
                    good = False
                    why = "violations_from_segments is applied to something other than the segments that are returned"
                    break
            ok = good
        chk.require(ok, "R01b", r, f"PyLexer.lex: {why}; unlexable tokens would not be reported as LXR", detail="lex returns violations_from_segments(returned segments)")

    # (2) violations_from_segments -----------------------------------------------------
    vf = repo.fn(LEXER, "PyLexer.violations_from_segments")
    vcfg = cfg_of(vf)
    params = [a.arg for a in vf.args.args if a.arg not in ("self", "cls")]
    creates = [c for c in calls_in(vf) if last_attr(c) == "SQLLexError"]
    chk.count("R01b.lex_error_sites", len(creates))
    chk.require(len(creates) >= 1, "R01b", vf, "violations_from_segments creates no SQLLexError", detail="creates SQLLexError")
    type_tests = []
    for c in creates:
        ok, why, tts = _error_site(vf, vcfg, params, c)
        type_tests += tts
        chk.require(
            ok, "R01b", c, f"violations_from_segments: {why}; some unlexable tokens would not be reported as LXR",
            detail="one SQLLexError per segment of the parameter, skipped only when not is_type(T), collected in the returned list",
        )

    # (3) type agreement ------------------------------------------------------------------
    t = lr["segment_type"]
    chk.require(
        t is not None and bool(type_tests) and all(t in tt for tt in type_tests), "R01b", lr["call"],
        f"the last-resort matcher produces {lr['segment_class']} segments (type {t!r}) but violations_from_segments tests "
        f"is_type({', '.join(repr(x) for tt in type_tests for x in tt) or '?'}); characters caught by the last resort would not be reported as LXR",
        detail="last-resort segment class type == type tested by violations_from_segments",
        construct=f"{LEXER}::PyLexer.__init__",
    )

    # (4)+(5) Linter._lex_templated_file -----------------------------------------------------
    lf = repo.fn(LINTER, "Linter._lex_templated_file")
    lcfg = cfg_of(lf)
    lex_calls = [c for c in calls_in(lf) if last_attr(c) == "lex" and isinstance(c.func, ast.Attribute)]
    chk.count("R01b.lex_call_sites", len(lex_calls))
    chk.floor("R01b.lex_call_sites", 1)
    for lc in lex_calls:
        lst = lcfg.stmt_of(lc)
        # (5) handler
        tr = lst
        handler = None
        while tr is not None and not isinstance(tr, FuncNode):
            par = getattr(tr, "_parent", None)
            if isinstance(par, ast.Try) and tr in par.body:
                for h in par.handlers:
                    names = []
                    if h.type is None:
                        names = ["BaseException"]
                    elif isinstance(h.type, ast.Tuple):
                        names = [norm(x) for x in h.type.elts]
                    else:
                        names = [norm(h.type)]
                    if any(n.split(".")[-1] in ("SQLLexError", "SQLBaseError", "Exception", "BaseException") for n in names):
                        handler = h
                        break
                if handler is not None:
                    break
            tr = par
        chk.require(
            handler is not None, "R01b", lc,
            "Linter._lex_templated_file: the lexer.lex call is not inside a try with a handler for SQLLexError; the 'Fatal. Unable to lex' error would escape instead of becoming a violation",
            detail="lexer.lex guarded by except SQLLexError",
        )
        if handler is not None:
            reraises = any(isinstance(n, ast.Raise) for n in walk_local(handler))
            hrets = [n for n in walk_local(handler) if isinstance(n, ast.Return)]

            def _hands_back(r) -> bool:
                """second component of the return holds the caught error: a list display with
                it, or a list it was appended to on every path to the return"""
                if not (handler.name and isinstance(r.value, ast.Tuple) and len(r.value.elts) == 2):
                    return False
                second = r.value.elts[1]
                if isinstance(second, ast.List):
                    return any(isinstance(x, ast.Name) and x.id == handler.name for x in second.elts)
                if not isinstance(second, ast.Name):
                    return False
                apps = [
                    lcfg.stmt_of(c) for c in calls_in(handler)
                    if last_attr(c) == "append" and len(c.args) == 1 and isinstance(c.args[0], ast.Name) and c.args[0].id == handler.name
                    and isinstance(c.func, ast.Attribute) and isinstance(c.func.value, ast.Name) and c.func.value.id == second.id
                ]
                return any(a is not None and lcfg.dominates(a, r) for a in apps)

            conv = bool(hrets) and all(_hands_back(r) for r in hrets)
            chk.require(
                conv and not reraises, "R01b", handler,
                "Linter._lex_templated_file: the SQLLexError handler does not append the caught error to the returned violations (or re-raises)",
                detail="handler converts SQLLexError to a returned violation",
            )
        # (4) unpacked errors flow to the normal returns
        # the result is bound: unpacked into (segments, errors) or kept whole in one local (its
        # components are then recognised where they are used, see _lex_part)
        tgt = lst.targets[0] if isinstance(lst, ast.Assign) and len(lst.targets) == 1 and lst.value is lc else None
        if isinstance(lst, ast.AnnAssign) and lst.value is lc:
            tgt = lst.target
        bound = (isinstance(tgt, ast.Tuple) and len(tgt.elts) == 2 and all(isinstance(e, ast.Name) for e in tgt.elts)) or isinstance(tgt, ast.Name)
        chk.require(bound, "R01b", lc, "Linter._lex_templated_file: result of lexer.lex is not unpacked into (segments, errors)", detail="lex result unpacked")
        if not bound:
            continue
        in_handlers = {id(n) for t in ast.walk(lf) if isinstance(t, ast.Try) for h in t.handlers for n in ast.walk(h)}
        normal_rets = [r for r in _tuple_returns(lf) if id(r) not in in_handlers]
        chk.count("R01b.linter_returns", len(normal_rets))
        for r in normal_rets:
            ok = False
            why = "does not return a (tokens, errors) pair"
            if isinstance(r.value, ast.Tuple) and len(r.value.elts) == 2:
                ve = r.value.elts[1]
                why = "the returned error list does not receive the errors unpacked from lexer.lex on every path"
                if isinstance(ve, ast.Name):
                    adders = []
                    for st in lcfg.nodes:
                        src = None
                        if isinstance(st, ast.AugAssign) and isinstance(st.op, ast.Add) and isinstance(st.target, ast.Name) and st.target.id == ve.id:
                            src = st.value
                        elif isinstance(st, ast.Expr) and isinstance(st.value, ast.Call) and last_attr(st.value) == "extend" and isinstance(st.value.func, ast.Attribute) and norm(st.value.func.value) == ve.id and len(st.value.args) == 1:
                            src = st.value.args[0]
                        if src is not None and _lex_part(lcfg, src, st, lc, 1):
                            adders.append(st)
                        # ``errs = errs + lex_errors``: the list itself plus the lexer's errors
                        tname = st.targets[0] if isinstance(st, ast.Assign) and len(st.targets) == 1 else (st.target if isinstance(st, ast.AnnAssign) else None)
                        if isinstance(tname, ast.Name) and tname.id == ve.id and isinstance(st.value, ast.BinOp):
                            ops = _add_operands(st.value)
                            if any(isinstance(x, ast.Name) and x.id == ve.id for x in ops) and any(_lex_part(lcfg, x, st, lc, 1) for x in ops):
                                adders.append(st)
                    direct = _lex_part(lcfg, ve, r, lc, 1)
                    if direct:
                        ok = True
                    elif adders:
                        # must-pass: no path from the lex statement to this return avoids every adder
                        ok = not lcfg.paths_avoiding(lst, r, lambda n: any(n is a for a in adders))
                    # nothing else may rebind or shrink the list
                    if ok:
                        for o in origins(lcfg, ve, r):
                            if o.kind == "aug":
                                continue
                            if o.kind == "expr" and ((o.expr is lc and o.path == (1,)) or (isinstance(o.expr, ast.List) and not o.expr.elts and not o.path)):
                                continue
                            if o.kind == "expr" and isinstance(o.expr, ast.Subscript) and not o.path and _lex_part(lcfg, o.expr, o.stmt, lc, 1):
                                continue
                            if o.kind == "expr" and isinstance(o.expr, ast.BinOp) and not o.path and all(
                                (isinstance(x, ast.Name) and x.id == ve.id) or (isinstance(x, ast.List) and not x.elts) or _lex_part(lcfg, x, o.stmt, lc, 1)
                                for x in _add_operands(o.expr)
                            ):
                                continue  # the list itself, extended by the lexer's errors
                            ok = False
                            why = f"the returned error list is re-bound to {short(o.expr, 60)!r}"
                        for n in walk_local(lf):
                            if isinstance(n, ast.Call) and isinstance(n.func, ast.Attribute) and norm(n.func.value) == ve.id and n.func.attr in ("remove", "pop", "clear", "__delitem__", "sort", "reverse"):
                                if n.func.attr in ("sort", "reverse"):
                                    continue
                                ok = False
                                why = f"errors are removed from the list: {short(n, 60)}"
                            if isinstance(n, ast.Delete) and any(ve.id in norm(t) for t in n.targets):
                                ok = False
                                why = f"errors are deleted from the list: {short(n, 60)}"
                            if isinstance(n, ast.Subscript) and isinstance(n.ctx, ast.Store) and norm(n.value) == ve.id:
                                ok = False
                                why = f"the error list is overwritten in place: {short(n, 60)}"
            chk.require(ok, "R01b", r, f"Linter._lex_templated_file: {why}; LXR errors would be dropped", detail="returned errors include everything lexer.lex reported")
            # token filter: only meta segments may be skipped
            if isinstance(r.value, ast.Tuple) and len(r.value.elts) == 2 and isinstance(r.value.elts[0], ast.Name):
                _token_filter(chk, lf, lcfg, r, r.value.elts[0], lc)


def _add_operands(e) -> list:
    """operands of ``a + b + ..`` (anything else: the expression itself)"""
    if isinstance(e, ast.BinOp) and isinstance(e.op, ast.Add):
        return _add_operands(e.left) + _add_operands(e.right)
    return [e]


def _lex_part(cfg, e, at, lex_call, idx) -> bool:
    """``e`` (evaluated at ``at``) is component ``idx`` of the value of ``lex_call`` (``idx`` None:
    the whole pair): unpacked by position, or kept whole in a local and subscripted."""
    if e is lex_call:
        return idx is None
    if isinstance(e, ast.Subscript):
        k = e.slice
        pos = -const(k.operand) if isinstance(k, ast.UnaryOp) and isinstance(k.op, ast.USub) and isinstance(const(k.operand), int) else const(k)
        return idx is not None and isinstance(pos, int) and not isinstance(pos, bool) and pos in (idx, idx - 2) and _lex_part(cfg, e.value, at, lex_call, None)
    if isinstance(e, ast.Name):
        os_ = origins(cfg, e, at)
        want = () if idx is None else (idx,)
        return bool(os_) and all(
            o.kind == "expr" and (
                (o.expr is lex_call and o.path == want)
                or (not o.path and isinstance(o.expr, ast.Subscript) and _lex_part(cfg, o.expr, o.stmt, lex_call, idx))
            )
            for o in os_
        )
    return False


def _loop_entry(cfg, loop):
    for n in cfg.succ.get(loop, ()):
        if isinstance(n, Branch) and n.stmt is loop and n.polarity:
            return n
    return None


def _skips_only_through(cfg, loop, keep_stmt, allowed) -> bool:
    """Every path from the start of an iteration back to the loop head that avoids
    ``keep_stmt`` passes a Branch accepted by ``allowed``."""
    start = _loop_entry(cfg, loop)
    if start is None:
        return False
    return not cfg.paths_avoiding(start, loop, lambda n: n is keep_stmt or (isinstance(n, Branch) and allowed(n)))


def _is_type_call(e, var):
    return (
        isinstance(e, ast.Call) and last_attr(e) == "is_type" and isinstance(e.func, ast.Attribute)
        and isinstance(e.func.value, ast.Name) and e.func.value.id == var and e.args
        and all(isinstance(const(a), str) for a in e.args)
    )


def _error_site(vf, vcfg, params, c):
    """(ok, why, [type lists]) for one ``SQLLexError(...)`` creation site.

    Accepted idioms: (a) ``for s in <param>: if s.is_type(T): <list>.append(SQLLexError(..))``
    with any spelling of the test (early ``continue``, nested ifs) as long as an iteration can
    only finish without the append when ``s.is_type(T)`` was false, and ``<list>`` is returned;
    (b) ``return [SQLLexError(..) for s in <param> if s.is_type(T)]`` (or assigned and returned).
    """
    tts = []
    # (b) comprehension
    comp = None
    for p in _ancestors(c):
        if isinstance(p, (ast.ListComp, ast.GeneratorExp)):
            comp = p
            break
        if isinstance(p, ast.stmt):
            break
    if comp is not None:
        if len(comp.generators) != 1 or comp.elt is not c:
            return False, "the comprehension creating the errors is not a single loop over the segments", tts
        gen = comp.generators[0]
        if not (isinstance(gen.target, ast.Name) and isinstance(gen.iter, ast.Name) and gen.iter.id in params):
            return False, "the errors are not created from the (unfiltered) segments parameter", tts
        var = gen.target.id
        for t in gen.ifs:
            if not _is_type_call(t, var):
                return False, f"segments are filtered by {short(t, 60)!r}, not only by is_type(<unlexable type>)", tts
            tts.append([const(a) for a in t.args])
        st = vcfg.stmt_of(comp)
        if isinstance(st, ast.Return) and st.value is comp:
            return True, "", tts
        if isinstance(st, (ast.Assign, ast.AnnAssign)) and st.value is comp:
            for r in _tuple_returns(vf):
                if isinstance(r.value, ast.Name) and all(o.kind == "expr" and o.expr is comp for o in origins(vcfg, r.value, r)):
                    return True, "", tts
        return False, "the list of created errors is not what the function returns", tts
    # (a) loop with append
    # the append that receives this error: ``L.append(SQLLexError(..))`` or, with the error held
    # in a local first, the one ``L.append(<name>)`` whose argument can only be this creation
    apps = []
    for a in calls_in(vf):
        if not (last_attr(a) == "append" and isinstance(a.func, ast.Attribute) and isinstance(a.func.value, ast.Name) and len(a.args) == 1 and not a.keywords):
            continue
        arg = a.args[0]
        if arg is c:
            apps.append(a)
        elif isinstance(arg, ast.Name):
            ao = origins(vcfg, arg, vcfg.stmt_of(a))
            if ao and all(o.kind == "expr" and not o.path and o.expr is c for o in ao):
                apps.append(a)
    if len(apps) != 1:
        return False, "the created error is not appended to a list", tts
    app = apps[0]
    st = vcfg.stmt_of(app)
    loop = st
    while loop is not None and not isinstance(loop, ast.For):
        loop = getattr(loop, "_parent", None)
    if not (isinstance(loop, ast.For) and isinstance(loop.target, ast.Name) and isinstance(loop.iter, ast.Name) and loop.iter.id in params):
        return False, "the error is not created in a loop over the (unfiltered) segments parameter", tts
    io = origins(vcfg, loop.iter, loop)
    if not (io and all(o.kind == "param" for o in io)):
        return False, "the loop iterates over a re-bound (possibly filtered) value, not the segments parameter", tts
    var = loop.target.id

    def not_that_type(br):
        return any((not pol) and _is_type_call(e, var) for e, pol in branch_atoms(vcfg, br))

    for gd in vcfg.guards(st):
        for e, pol in branch_atoms(vcfg, gd):
            if pol and _is_type_call(e, var):
                tts.append([const(a) for a in e.args])
    if not _skips_only_through(vcfg, loop, st, not_that_type):
        conds = " and ".join(("" if pol else "not ") + short(e, 60) for e, pol in vcfg.conditions(st) if not (isinstance(e, ast.Constant) and e.value is True))
        return False, f"a segment can be passed over although {var}.is_type(<unlexable type>) holds (error created under: {conds or 'unconditional'})", tts
    for n in walk_local(loop):
        if isinstance(n, (ast.Break, ast.Return, ast.Raise)) and not any(not_that_type(gd) for gd in vcfg.guards(n)):
            return False, f"the loop over the segments is left early at line {n.lineno}", tts
    lst = app.func.value.id
    for r in _tuple_returns(vf):
        if isinstance(r.value, ast.Name) and r.value.id == lst:
            ro = origins(vcfg, r.value, r)
            if ro and all(o.kind == "expr" and isinstance(o.expr, ast.List) for o in ro):
                return True, "", tts
    return False, "the list the errors are appended to is not what the function returns", tts


def _is_seg_var(lcfg, x, at, var) -> bool:
    """``x`` is the segment held by ``var`` (directly, through ``cast(T, var)`` or a local of that)."""
    if isinstance(x, ast.Name) and x.id == var:
        return True
    if isinstance(x, ast.Call) and call_name(x).split(".")[-1] == "cast" and len(x.args) == 2:
        return _is_seg_var(lcfg, x.args[1], at, var)
    if isinstance(x, ast.Name):
        os2 = origins(lcfg, x, at)
        return bool(os2) and all(o.kind == "expr" and not o.path and _is_seg_var(lcfg, o.expr, o.stmt, var) for o in os2)
    return False


def _meta_fact(facts, var) -> bool:
    """the facts (atoms known when a segment is skipped) include ``<var>.is_meta``"""
    return any(pol and isinstance(e, ast.Attribute) and e.attr == "is_meta" and isinstance(e.value, ast.Name) and e.value.id == var for e, pol in facts)


def _indent_fact(lcfg, facts, at, var) -> bool:
    """... include ``<var>.indent_val != 0`` (as a comparison with 0 or as truthiness)"""
    for e, pol in facts:
        if isinstance(e, ast.Attribute) and e.attr == "indent_val" and pol and _is_seg_var(lcfg, e.value, at, var):
            return True
        if isinstance(e, ast.Compare) and len(e.ops) == 1 and isinstance(e.left, ast.Attribute) and e.left.attr == "indent_val" and const(e.comparators[0]) == 0 and _is_seg_var(lcfg, e.left.value, at, var):
            if (isinstance(e.ops[0], ast.NotEq) and pol) or (isinstance(e.ops[0], ast.Eq) and not pol):
                return True
    return False


def _token_filter(chk, lf, lcfg, ret, tok_expr: ast.Name, lex_call) -> None:
    """The returned token list keeps every non-meta segment coming out of lexer.lex."""
    os_ = origins(lcfg, tok_expr, ret)
    if _lex_part(lcfg, tok_expr, ret, lex_call, 0):
        chk.ok("R01b", f"{LINTER}::Linter._lex_templated_file", "tokens returned as lexed")
        return
    if len(os_) == 1 and os_[0].kind == "expr" and not os_[0].path and isinstance(os_[0].expr, ast.ListComp):
        # the filter spelled as a comprehension: ``[s for s in <lexed segments> if <keep test>]``;
        # a segment is left out when some ``if`` is false, and that must imply the same two facts
        comp, cst = os_[0].expr, os_[0].stmt
        ok, why = True, ""
        gen = comp.generators[0]
        if len(comp.generators) != 1 or gen.is_async or not isinstance(gen.target, ast.Name):
            ok, why = False, "the returned token list is not built by a single loop over the lexed segments"
        elif not _lex_part(lcfg, gen.iter, cst, lex_call, 0):
            ok, why = False, "the filter loop does not iterate over the segments returned by lexer.lex"
        elif not (isinstance(comp.elt, ast.Name) and comp.elt.id == gen.target.id):
            ok, why = False, "something other than the lexed segment is kept"
        else:
            var = gen.target.id
            for t in gen.ifs:
                facts = atoms(t, False)
                if not _meta_fact(facts, var):
                    ok, why = False, f"a lexed token can be left out of the returned list without the test {var}.is_meta being true (only template-indent metas may be filtered)"
                    break
                if not _indent_fact(lcfg, facts, cst, var):
                    ok, why = False, (
                        f"a meta segment can be left out of the returned list without the test <{var}>.indent_val != 0 being true: only Indent/Dedent may be "
                        "filtered; a template placeholder dropped here leaves the source characters of its tag covered by no token and no placeholder"
                    )
                    break
        chk.require(
            ok, "R01b", ret, f"Linter._lex_templated_file: {why}; an unlexable token could be dropped from the token stream",
            detail="token filter only skips meta segments",
        )
        return
    appends = [
        c for c in calls_in(lf)
        if last_attr(c) == "append" and isinstance(c.func, ast.Attribute) and norm(c.func.value) == tok_expr.id
    ]
    ok = bool(appends) and all(o.kind == "expr" and isinstance(o.expr, ast.List) and not o.expr.elts for o in os_)
    why = "the returned token list is not built by appending the lexed segments"
    for ap in appends if ok else []:
        st = lcfg.stmt_of(ap)
        loop = st
        while loop is not None and not isinstance(loop, ast.For):
            loop = getattr(loop, "_parent", None)
        if not (isinstance(loop, ast.For) and isinstance(loop.target, ast.Name) and isinstance(loop.iter, ast.Name)):
            ok, why = False, "tokens are not appended in a loop over the lexed segments"
            break
        var = loop.target.id
        if not _lex_part(lcfg, loop.iter, loop, lex_call, 0):
            ok, why = False, "the filter loop does not iterate over the segments returned by lexer.lex"
            break
        if not (len(ap.args) == 1 and isinstance(ap.args[0], ast.Name) and ap.args[0].id == var):
            ok, why = False, "something other than the lexed segment is appended"
            break
        # every way of finishing an iteration without the append must have passed a test that
        # is only true for meta segments (`<segment>.is_meta`): the template-indent filter
        def meta_only(br, var=var):
            return _meta_fact(branch_atoms(lcfg, br), var)

        if not _skips_only_through(lcfg, loop, st, meta_only):
            ok, why = False, f"a lexed token can be left out of the returned list without the test {var}.is_meta being true (only template-indent metas may be filtered)"
            break

        # ... and, among the metas, only Indent/Dedent (indent_val != 0): a template placeholder is a
        # zero-width meta too, but it is what covers the source characters of a template tag
        def indent_only(br, var=var):
            return isinstance(br.stmt, (ast.If, ast.While)) and _indent_fact(lcfg, branch_atoms(lcfg, br), br.stmt, var)

        if not _skips_only_through(lcfg, loop, st, indent_only):
            ok, why = False, (
                f"a meta segment can be left out of the returned list without the test <{var}>.indent_val != 0 being true: only Indent/Dedent may be "
                "filtered; a template placeholder dropped here leaves the source characters of its tag covered by no token and no placeholder"
            )
            break
        for n in walk_local(loop):
            if isinstance(n, (ast.Break, ast.Return, ast.Raise)):
                if not any(meta_only(gd) for gd in lcfg.guards(n)):
                    ok, why = False, f"the filter loop is left at line {n.lineno} without the test {var}.is_meta"
                    break
        if not ok:
            break
    chk.require(
        ok, "R01b", ret, f"Linter._lex_templated_file: {why}; an unlexable token could be dropped from the token stream",
        detail="token filter only skips meta segments",
    )


def _ancestors(node):
    p = getattr(node, "_parent", None)
    while p is not None:
        yield p
        p = getattr(p, "_parent", None)


def r01c(chk, repo) -> None:
    """Source coverage: every source character is covered by a token or a placeholder for every configuration."""
    from ..cfg import cfg_of, origins
    from ..idioms import conditions_at

    m = repo.mod("src/sqlfluff/core/parser/lexer.py")
    n = 0
    for q, f in m.functions():
        switch = [a.arg for a in f.args.args + f.args.kwonlyargs if a.arg in ("add_indents", "template_blocks_indent")]
        ys = [y for y in walk_local(f) if isinstance(y, (ast.Yield, ast.YieldFrom)) and y.value is not None]
        cfg = None
        for y in ys:
            v = y.value
            cfg = cfg or cfg_of(f)
            st = cfg.stmt_of(y)
            vals = [o.expr for o in origins(cfg, v, st)] if isinstance(v, ast.Name) else [v]
            if not any(isinstance(x, ast.Call) and "TemplateSegment" in norm(x.func) for x in vals):
                continue
            n += 1
            if not switch:
                continue
            dep = []
            for e, pol in conditions_at(cfg, st):
                for x in ast.walk(e):
                    if isinstance(x, ast.Name) and x.id in switch:
                        dep.append(short(e, 50))
                    elif isinstance(x, ast.Name):
                        if any(o.kind == "param" and getattr(o.expr, "arg", None) in switch for o in origins(cfg, x, cfg.stmt_of(x) or st)):
                            dep.append(short(e, 50))
            chk.require(
                not dep, "R01c", y,
                f"{q} emits this placeholder only under {sorted(set(dep))}, which depends on the `{switch[0]}` switch: with template_blocks_indent = False the source "
                "it stands for (an untaken branch, the body of an empty loop) is covered by no token and no placeholder",
                detail=f"{q}: placeholder emission independent of the indent switch",
            )
    chk.count("R01c.placeholder_yields", n)
    chk.floor("R01c.placeholder_yields", 3)


def r01d(chk, repo) -> None:
    """Piece k of a split element is ``raw[c_k : c_k + inc_k]`` with ``c_{k+1} = c_k + inc_k`` and has to end where the
    slice ends: ``c_k + inc_k == <slice stop> - <element start>``.  The right-hand side does not depend on ``c``; hence
    an ``inc`` that does not read ``c`` cannot satisfy it for the second and later pieces."""
    from ..cfg import cfg_of, origins

    f = repo.fn("src/sqlfluff/core/parser/lexer.py", "_iter_segments")
    cfg = cfg_of(f)
    n = 0
    for st in walk_local(f):
        acc = inc = None
        if isinstance(st, ast.AugAssign) and isinstance(st.op, ast.Add) and isinstance(st.target, ast.Name):
            acc, inc = st.target.id, st.value
        elif isinstance(st, ast.Assign) and len(st.targets) == 1 and isinstance(st.targets[0], ast.Name) and isinstance(st.value, ast.BinOp) and isinstance(st.value.op, ast.Add) \
                and isinstance(st.value.left, ast.Name) and st.value.left.id == st.targets[0].id:
            acc, inc = st.targets[0].id, st.value.right
        if acc is None or "consumed" not in acc:
            continue
        n += 1
        exprs = [inc]
        if isinstance(inc, ast.Name):
            exprs = [o.expr for o in origins(cfg, inc, st) if o.kind == "expr"]
        ok = bool(exprs) and all(any(isinstance(x, ast.Name) and x.id == acc for x in ast.walk(e)) for e in exprs)
        chk.require(
            ok, "R01d", st,
            f"_iter_segments adds `{short(inc, 40)}` to `{acc}` but that amount is not computed from `{acc}`: from the second split of an element on, the piece is cut past the end of "
            "its slice, the pieces get overlapping or inverted source positions and some source characters are covered by no token",
            detail=f"_iter_segments: step added to {acc} is measured from the running position",
        )
    chk.count("R01d.running_length_steps", n)
    chk.floor("R01d.running_length_steps", 1)


def r01e(chk, repo) -> None:
    f = repo.fn(LEXER, "StringLexer._trim_match")
    loops = [w for w in walk_local(f) if isinstance(w, ast.While)]
    chk.count("R01e.subdivide_loops", len(loops))
    if len(loops) != 1:
        raise AnalysisError("R01e: StringLexer._trim_match no longer has exactly one subdividing while loop; re-confirm the anchor by hand")
    loop = loops[0]
    # carried buffers: names that are extended inside the loop and read in a LexedElement built after it
    def lexed_args(node):
        return [a for c in ast.walk(node) if isinstance(c, ast.Call) and last_attr(c) == "LexedElement" for a in c.args[:1]]
    carried = set()
    for a in lexed_args(f):
        if isinstance(a, ast.BinOp) and isinstance(a.op, ast.Add) and isinstance(a.left, ast.Name):
            carried.add(a.left.id)
    chk.count("R01e.carried_buffers", len(carried))
    if not carried:
        raise AnalysisError("R01e: no `<buffer> + <rest>` text is put into a LexedElement in _trim_match; re-confirm the anchor by hand")

    def blocks(node):
        for n in ast.walk(node):
            for fld in ("body", "orelse", "finalbody"):
                b = getattr(n, fld, None)
                if isinstance(b, list) and b and isinstance(b[0], ast.stmt):
                    yield b

    n = 0
    for block in blocks(loop):
        for i, st in enumerate(block):
            binds = []  # (name, value or None for augmented add)
            if isinstance(st, ast.AugAssign) and isinstance(st.target, ast.Name):
                binds.append((st.target.id, st, "aug" if isinstance(st.op, ast.Add) else "other"))
            elif isinstance(st, ast.Assign):
                for t in st.targets:
                    if isinstance(t, ast.Name):
                        binds.append((t.id, st.value, "val"))
                    elif isinstance(t, ast.Tuple) and isinstance(st.value, ast.Tuple) and len(t.elts) == len(st.value.elts):
                        binds += [(x.id, v, "val") for x, v in zip(t.elts, st.value.elts) if isinstance(x, ast.Name)]
                    elif isinstance(t, ast.Tuple):
                        binds += [(x.id, None, "opaque") for x in t.elts if isinstance(x, ast.Name)]
            for name, v, kind in binds:
                if name not in carried:
                    continue
                n += 1
                if kind == "aug":
                    ok = True
                elif kind == "val" and isinstance(v, ast.BinOp) and isinstance(v.op, ast.Add) and isinstance(v.left, ast.Name) and v.left.id == name:
                    ok = True
                elif kind == "val" and isinstance(v, ast.Constant) and v.value == "":
                    ok = any(isinstance(a, ast.BinOp) and isinstance(a.left, ast.Name) and a.left.id == name for p in block[:i] for a in lexed_args(p))
                else:
                    ok = False
                chk.require(
                    ok, "R01e", st,
                    f"_trim_match re-binds the carried buffer `{name}` inside the subdividing loop without keeping what it held (and without having emitted it in this block): with two or more "
                    "interior whitespace runs in one match (a block comment of three words) the text before the earlier run is dropped and the lexed elements no longer add up to the input",
                    detail=f"_trim_match: `{name}` grows or is flushed", construct=f"{LEXER}::StringLexer._trim_match",
                )
    chk.count("R01e.buffer_bindings", n)
    chk.floor("R01e.buffer_bindings", 2)


def run(chk) -> None:
    repo = chk.repo
    chk.rule("R01a", "for every dialect, every character the last-resort matcher cannot consume is consumed by some matcher of the dialect's resolved lexer table (lex never reaches 'Fatal. Unable to lex')")
    chk.rule("R01b", "PyLexer.lex returns violations_from_segments(returned segments); that creates one SQLLexError per segment of the last-resort type; Linter._lex_templated_file returns them all, never drops a non-meta token and converts a raised SQLLexError into a violation")
    chk.rule("R01c", "whether a placeholder (TemplateSegment) is emitted for source the rendering does not cover never depends on the `template_blocks_indent` switch: no yield of a TemplateSegment in the lexer is conditioned on the add_indents parameter (that switch may only decide Indent / Dedent metas)")
    r01c(chk, repo)
    chk.rule("R01d", "a lexed element that is split over several slices is cut where the previous piece ended: in _iter_segments every amount added to the running consumed length is computed from that running length (a step measured from the start of the element overshoots from the second split on)")
    r01d(chk, repo)
    chk.rule("R01e", "the carried text of a subdivided match is never overwritten: in StringLexer._trim_match the buffer that holds the text before a mid-match run only grows (`buf += ..` / `buf = buf + ..`) or is emptied in the very block that has just put `buf + ..` into a LexedElement -- a plain re-binding drops the characters carried so far (lossless lexing)")
    r01e(chk, repo)
    lr = last_resort(repo)
    r01b(chk, repo, lr)
    in_selftest = getattr(chk, "in_selftest", False)
    g = load_grammar(repo, cache=not in_selftest, rebuild=(chk.tier == "thorough" and not in_selftest))
    r01a(chk, repo, g, lr)


# -- self-test variants -------------------------------------------------------------------

from ..selftest import Variant  # noqa: E402

ANSI = "src/sqlfluff/dialects/dialect_ansi.py"
TSQL = "src/sqlfluff/dialects/dialect_tsql.py"
PG = "src/sqlfluff/dialects/dialect_postgres.py"

_LR_OLD = '        self.last_resort_lexer = last_resort_lexer or RegexLexer(\n            "<unlexable>",\n            r"[^\\t\\n\\ ]*",\n            UnlexableSegment,\n        )\n'
_VFS_OLD = (
    '            if segment.is_type("unlexable"):\n'
    "                violations.append(\n"
    "                    SQLLexError(\n"
    '                        "Unable to lex characters: {!r}".format(\n'
    '                            segment.raw[:10] + "..."\n'
    "                            if len(segment.raw) > 9\n"
    "                            else segment.raw\n"
    "                        ),\n"
    "                        pos=segment.pos_marker,\n"
    "                    )\n"
    "                )\n"
)
_FILTER_OLD = (
    "            if segment.is_meta:\n                meta_segment = cast(\"MetaSegment\", segment)\n                if meta_segment.indent_val != 0:\n"
    "                    # Don't allow it if we're not linting templating block indents.\n                    if not templating_blocks_indent:\n"
    "                        continue  # pragma: no cover\n"
)

VARIANTS = [
    Variant(
        "r01e-carried-text-overwritten", LEXER,
        "                    content_buff += str_buff[: trim_pos[1]]\n                    str_buff = str_buff[trim_pos[1] :]\n",
        "                    content_buff, str_buff = (\n                        str_buff[: trim_pos[1]],\n                        str_buff[trim_pos[1] :],\n                    )\n",
        "R01e", "_trim_match", "seeded C01-9",
    ),
    Variant(
        "r01e-carried-text-plain-assignment", LEXER,
        "                    content_buff += str_buff[: trim_pos[1]]\n",
        "                    content_buff = str_buff[: trim_pos[1]]\n",
        "R01e", "_trim_match", "+= became =",
    ),
    Variant(
        "quiet-r01e-explicit-concatenation", LEXER,
        "                    content_buff += str_buff[: trim_pos[1]]\n",
        "                    content_buff = content_buff + str_buff[: trim_pos[1]]\n",
        "QUIET", None, "R01e: += written out",
    ),
    Variant(
        "quiet-r01e-flush-reset-in-two-statements", LEXER,
        "                    content_buff, str_buff = \"\", \"\"\n",
        "                    content_buff = \"\"\n                    str_buff = \"\"\n",
        "QUIET", None, "R01e: reset as two statements",
    ),
    Variant(
        "split-step-measured-from-the-element-start", "src/sqlfluff/core/parser/lexer.py",
        "                            tfs.templated_slice.stop\n                            - element.template_slice.start\n                            - consumed_element_length\n",
        "                            tfs.templated_slice.stop\n                            - element.template_slice.start\n",
        "R01d", "_iter_segments", "the defect repaired by eea0344: spaces around three tags in a row get inverted source slices",
    ),
    Variant(
        "quiet-split-step-from-a-named-position", "src/sqlfluff/core/parser/lexer.py",
        "                            tfs.templated_slice.stop\n                            - element.template_slice.start\n                            - consumed_element_length\n",
        "                            tfs.templated_slice.stop\n                            - (element.template_slice.start + consumed_element_length)\n",
        "QUIET", None, "R01d: the same step with the running position bracketed",
    ),
    Variant(
        "skipped-source-placeholder-only-with-template-indents", "src/sqlfluff/core/parser/lexer.py",
        "        if next_tfs and next_tfs.source_slice.start > tfs.source_slice.stop:\n",
        "        if add_indents and next_tfs and next_tfs.source_slice.start > tfs.source_slice.stop:\n",
        "R01c", "_handle_zero_length_slice", "seeded C01-4 (same effect): template_blocks_indent = False loses the placeholder of skipped source",
    ),
    Variant(
        "quiet-indent-switch-in-a-boolean-local", "src/sqlfluff/core/parser/lexer.py",
        '        elif add_indents and tfs.slice_type in ("block_start", "block_mid"):\n',
        '        elif (opens_branch := add_indents and tfs.slice_type in ("block_start", "block_mid")):\n',
        "QUIET", None, "R01c: the Indent condition held in a local; placeholders do not depend on it",
    ),
    # behaviour-preserving refactors: must stay quiet
    Variant(
        "quiet-indent-filter-single-condition", LINTER, _FILTER_OLD,
        "            if segment.is_meta and cast(\"MetaSegment\", segment).indent_val != 0 and not templating_blocks_indent:\n                continue\n",
        "QUIET", None, "the three nested tests spelled as one conjunction",
    ),
    Variant(
        "quiet-indent-filter-test-in-a-local", LINTER, _FILTER_OLD,
        "            drop = segment.is_meta and cast(\"MetaSegment\", segment).indent_val != 0 and not templating_blocks_indent\n            if drop:\n                continue\n",
        "QUIET", None, "the filter test hoisted into a boolean local",
    ),
    Variant(
        "quiet-indent-filter-comprehension", LINTER,
        "        new_segments = []\n        for segment in segments:\n" + _FILTER_OLD + "            new_segments.append(segment)\n",
        "        new_segments = [\n            seg for seg in segments\n            if not (seg.is_meta and cast(\"MetaSegment\", seg).indent_val != 0 and not templating_blocks_indent)\n        ]\n",
        "QUIET", None, "filter loop spelled as a list comprehension",
    ),
    Variant(
        "quiet-indent-filter-truthiness-if-else", LINTER,
        _FILTER_OLD + "            new_segments.append(segment)\n",
        "            if segment.is_meta and cast(\"MetaSegment\", segment).indent_val and not templating_blocks_indent:\n                pass\n            else:\n                new_segments.append(segment)\n",
        "QUIET", None, "indent_val != 0 as truthiness (it is an int), continue spelled as if/else",
    ),
    Variant(
        "quiet-lex-result-kept-whole", LINTER,
        "            segments, lex_vs = lexer.lex(templated_file)\n",
        "            lexed = lexer.lex(templated_file)\n            segments = lexed[0]\n            lex_vs = lexed[1]\n",
        "QUIET", None, "lexer.lex result kept whole and subscripted",
    ),
    Variant(
        "quiet-lex-errors-extend-renamed", LINTER,
        "            segments, lex_vs = lexer.lex(templated_file)\n            # NOTE: There will always be segments, even if it's\n            # just an end of file marker.\n            assert segments, \"The token sequence should never be empty.\"\n            # We might just get the violations as a list\n            violations += lex_vs\n",
        "            segments, lexing_errors = lexer.lex(templated_file)\n            violations.extend(lexing_errors)\n            assert segments, \"The token sequence should never be empty.\"\n",
        "QUIET", None, "renamed local, += spelled as extend, independent statements reordered (an AssertionError escapes either way)",
    ),
    Variant(
        "quiet-lex-errors-added-in-try-else", LINTER,
        "            segments, lex_vs = lexer.lex(templated_file)\n            # NOTE: There will always be segments, even if it's\n            # just an end of file marker.\n            assert segments, \"The token sequence should never be empty.\"\n            # We might just get the violations as a list\n            violations += lex_vs\n            linter_logger.info(\"Lexed segments: %s\", [seg.raw for seg in segments])\n        except SQLLexError as err:  # pragma: no cover\n            linter_logger.info(\"LEXING FAILED! (%s): %s\", templated_file.fname, err)\n            violations.append(err)\n            return None, violations\n",
        "            segments, lex_vs = lexer.lex(templated_file)\n        except SQLLexError as err:  # pragma: no cover\n            linter_logger.info(\"LEXING FAILED! (%s): %s\", templated_file.fname, err)\n            violations.append(err)\n            return None, violations\n        else:\n            assert segments, \"The token sequence should never be empty.\"\n            violations = violations + lex_vs\n            linter_logger.info(\"Lexed segments: %s\", [seg.raw for seg in segments])\n",
        "QUIET", None, "only lexer.lex can raise SQLLexError: the rest of the try body moved to its else clause; += spelled as x = x + y (no alias of the list exists)",
    ),
    Variant(
        "quiet-handler-returns-fresh-list", LINTER,
        "            violations.append(err)\n            return None, violations\n\n        # Check that we've got sensible indentation from the lexer.",
        "            return None, [err]\n\n        # Check that we've got sensible indentation from the lexer.",
        "QUIET", None, "only lexer.lex raises SQLLexError, before anything was added: the list holds exactly the caught error",
    ),
    Variant(
        "quiet-last-resort-keywords", LEXER, _LR_OLD,
        '        self.last_resort_lexer = last_resort_lexer or RegexLexer(\n            name="<unlexable>",\n            template=r"[^\\t\\n\\ ]*",\n            segment_class=UnlexableSegment,\n        )\n',
        "QUIET", None, "positional arguments spelled as keywords",
    ),
    Variant(
        "quiet-last-resort-default-through-if", LEXER, _LR_OLD,
        '        if not last_resort_lexer:\n            last_resort_lexer = RegexLexer("<unlexable>", r"[^\\t\\n\\ ]*", UnlexableSegment)\n        self.last_resort_lexer = last_resort_lexer\n',
        "QUIET", None, "`a or default` spelled as an if on the parameter",
    ),
    Variant(
        "quiet-last-resort-pattern-in-a-local", LEXER, _LR_OLD,
        '        unlexable_pattern = r"[^\\t\\n\\ ]*"\n        self.last_resort_lexer = last_resort_lexer or RegexLexer(\n            "<unlexable>",\n            unlexable_pattern,\n            UnlexableSegment,\n        )\n',
        "QUIET", None, "pattern literal passed through a local",
    ),
    Variant(
        "quiet-post-init-template-local-flags-keyword", LEXER,
        "        flags = regex.DOTALL\n        self._compiled_regex = regex.compile(self.template, flags)\n",
        "        pattern = self.template\n        self._compiled_regex = regex.compile(pattern, flags=regex.DOTALL)\n",
        "QUIET", None, "template through a local, flags inlined as a keyword",
    ),
    Variant(
        "quiet-lex-return-inline-keyword", LEXER,
        "        violations: list[SQLLexError] = self.violations_from_segments(segments)\n\n        return segments, violations\n",
        "        return segments, self.violations_from_segments(segments=segments)\n",
        "QUIET", None, "violations local inlined into the return, keyword argument",
    ),
    Variant(
        "quiet-violations-early-continue", LEXER, _VFS_OLD,
        '            if not segment.is_type("unlexable"):\n                continue\n'
        '            text = segment.raw[:10] + "..." if len(segment.raw) > 9 else segment.raw\n'
        '            violations.append(SQLLexError("Unable to lex characters: {!r}".format(text), pos=segment.pos_marker))\n',
        "QUIET", None, "guard spelled as an early continue",
    ),
    Variant(
        "quiet-violations-error-and-test-through-locals", LEXER, _VFS_OLD,
        '            unlexable = segment.is_type("unlexable")\n'
        "            if unlexable:\n"
        '                text = segment.raw[:10] + "..." if len(segment.raw) > 9 else segment.raw\n'
        '                err = SQLLexError("Unable to lex characters: {!r}".format(text), pos=segment.pos_marker)\n'
        "                violations.append(err)\n",
        "QUIET", None, "type test and created error each held in a local first",
    ),
    Variant(
        "quiet-violations-comprehension-assigned", LEXER,
        "        violations = []\n        for segment in segments:\n" + _VFS_OLD + "        return violations\n",
        "        errors = [\n"
        '            SQLLexError("Unable to lex characters: {!r}".format(seg.raw[:10] + "..." if len(seg.raw) > 9 else seg.raw), pos=seg.pos_marker)\n'
        '            for seg in segments if seg.is_type("unlexable")\n'
        "        ]\n        return errors\n",
        "QUIET", None, "loop spelled as a comprehension",
    ),
    # the same refactored spellings with the property broken: must still be reported
    Variant(
        "filter-comprehension-drops-every-meta", LINTER,
        "        new_segments = []\n        for segment in segments:\n" + _FILTER_OLD + "            new_segments.append(segment)\n",
        "        new_segments = [seg for seg in segments if not (seg.is_meta and not templating_blocks_indent)]\n",
        "R01b", "_lex_templated_file", "comprehension spelling that also drops template placeholders",
    ),
    Variant(
        "filter-test-in-a-local-drops-every-meta", LINTER, _FILTER_OLD,
        "            drop = segment.is_meta and not templating_blocks_indent\n            if drop:\n                continue\n",
        "R01b", "_lex_templated_file", "hoisted test that lost the indent_val conjunct",
    ),
    Variant(
        "handler-returns-empty-list", LINTER,
        "            violations.append(err)\n            return None, violations\n\n        # Check that we've got sensible indentation from the lexer.",
        "            return None, []\n\n        # Check that we've got sensible indentation from the lexer.",
        "R01b", "_lex_templated_file", "the caught SQLLexError is swallowed",
    ),
    Variant(
        "lex-result-kept-whole-wrong-component", LINTER,
        "            segments, lex_vs = lexer.lex(templated_file)\n",
        "            lexed = lexer.lex(templated_file)\n            segments = lexed[0]\n            lex_vs = lexed[0]\n",
        "R01b", "_lex_templated_file", "subscripted spelling that forwards the wrong component",
    ),
    Variant(
        "violations-test-local-rebound-before-use", LEXER, _VFS_OLD,
        '            unlexable = segment.is_type("unlexable")\n'
        "            unlexable = unlexable and len(segment.raw) > 1\n"
        "            if unlexable:\n"
        '                violations.append(SQLLexError("Unable to lex characters: {!r}".format(segment.raw), pos=segment.pos_marker))\n',
        "R01b", "violations_from_segments", "test held in a local and narrowed before it is used",
    ),
    Variant(
        "indent-filter-also-drops-block-placeholders", LINTER,
        "                if meta_segment.indent_val != 0:\n",
        "                if meta_segment.indent_val != 0 or meta_segment.block_uuid:\n",
        "R01b", "_lex_templated_file", "seeded C01-2: placeholders of {% %} tags vanish when the template indents do not balance",
    ),
    Variant(
        "tsql-whitespace-excludes-tab", TSQL,
        "tsql_dialect.patch_lexer_matchers(\n    [\n",
        'tsql_dialect.patch_lexer_matchers(\n    [\n        RegexLexer("whitespace", r"[^\\S\\r\\n\\t]+", WhitespaceSegment),\n',
        "R01a", "dialect=tsql char=TAB", "a dialect patches whitespace and forgets tabs",
    ),
    Variant(
        "ansi-newline-crlf-only", ANSI,
        '        RegexLexer("newline", r"\\r\\n|\\n", NewlineSegment),',
        '        RegexLexer("newline", r"\\r\\n", NewlineSegment),',
        "R01a", "dialect=ansi char=LF",
    ),
    Variant(
        "ansi-whitespace-space-only", ANSI,
        'RegexLexer("whitespace", r"[^\\S\\r\\n]+", WhitespaceSegment),\n        RegexLexer(\n            "inline_comment",',
        'RegexLexer("whitespace", r" +", WhitespaceSegment),\n        RegexLexer(\n            "inline_comment",',
        "R01a", "char=TAB",
    ),
    Variant(
        "postgres-newline-needs-lookahead", PG,
        "postgres_dialect.patch_lexer_matchers(\n    [\n",
        'postgres_dialect.patch_lexer_matchers(\n    [\n        RegexLexer("newline", r"\\n\\n", NewlineSegment),\n',
        "R01a", "dialect=postgres char=LF", "matcher starts with LF but a single LF is not in its language",
    ),
    Variant(
        "last-resort-narrowed-to-non-space", LEXER,
        'r"[^\\t\\n\\ ]*",', 'r"\\S*",',
        "R01a", "char=CR", "CR is whitespace for \\S but no matcher consumes a lone CR",
    ),
    Variant(
        "last-resort-lazy", LEXER,
        'r"[^\\t\\n\\ ]*",', 'r"[^\\t\\n\\ ]*?",',
        "R01a", "further uncovered characters", "a lazy repeat always prefers the empty match",
    ),
    Variant(
        "except-sqllexerror-removed", LINTER,
        "        except SQLLexError as err:  # pragma: no cover\n            linter_logger.info(\"LEXING FAILED!",
        "        except KeyError as err:  # pragma: no cover\n            linter_logger.info(\"LEXING FAILED!",
        "R01b", "_lex_templated_file",
    ),
    Variant(
        "lex-errors-not-forwarded", LINTER,
        "            violations += lex_vs\n", "            pass\n",
        "R01b", "_lex_templated_file",
    ),
    Variant(
        "unlexable-tokens-filtered-out", LINTER,
        "            new_segments.append(segment)\n",
        "            if not segment.is_type(\"unlexable\"):\n                new_segments.append(segment)\n",
        "R01b", "_lex_templated_file",
    ),
    Variant(
        "violations-extra-filter", LEXER,
        '            if segment.is_type("unlexable"):\n',
        '            if segment.is_type("unlexable") and segment.raw.strip("\\x00"):\n',
        "R01b", "violations_from_segments",
    ),
    Variant(
        "violations-wrong-type-name", LEXER,
        '            if segment.is_type("unlexable"):\n',
        '            if segment.is_type("unlexible"):\n',
        "R01b", "PyLexer.__init__", "type tested differs from the last-resort segment class type",
    ),
    Variant(
        "lex-returns-empty-violations", LEXER,
        "        return segments, violations\n", "        return segments, []\n",
        "R01b", "PyLexer.lex",
    ),
    Variant(
        "last-resort-segment-class-changed", LEXER,
        '            r"[^\\t\\n\\ ]*",\n            UnlexableSegment,',
        '            r"[^\\t\\n\\ ]*",\n            RawSegment,',
        "R01b", "PyLexer.__init__", "last-resort text would become ordinary raw tokens, never reported",
    ),
]
