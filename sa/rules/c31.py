"""C31 — offset-to-line/column conversion is exact (DESIGN §3 C31, claimed at the weakest level).

What is decided are the *pairing and ownership* facts without which the conversion cannot be
right for templated files, plus the few facts about the arithmetic that are structural:

R31a  pairing.  (1) ``TemplatedFile._source_newlines`` is built from the source text and
      ``_templated_newlines`` from the rendered text, both by the same newline finder
      (kind inference: the stored table has kind Seq(SRC) / Seq(TPL));
      (2) ``get_line_pos_of_char_pos`` reads the source table only where its ``source`` flag is
      known true and the rendered table only where it is known false, and reads both;
      (3) every other function of the tree that reads a table only compares/bisects it with
      offsets of the table's own space (RQ-space restricted to those functions).
R31b  ownership.  The two tables and the two texts are stored only in ``TemplatedFile.__init__``
      (no other store, ``setattr``, ``__dict__`` write, subclass override or in-place table
      mutation anywhere in src/ and plugins/, decided by the receiver's class where it can be
      resolved; an unresolvable receiver is reported), each text is stored before its table is
      computed and never afterwards — so a table can not go stale.
R31c  structure of the arithmetic (only what is not a frozen text match):
      (1) in ``get_line_pos_of_char_pos`` the table that is bisected is the table whose entry is
      subtracted for the column, the offset bisected and the offset the column is computed from
      are both the offset parameter, the line component does not depend on the offset other
      than through the bisect result;
      (2) every newline-sensitive string operation in ``iter_indices_of_newlines`` and
      ``PositionMarker.infer_next_position`` uses the one literal ``"\\n"`` (no ``splitlines``,
      which also splits on \\r, \\v, \\f, \\x1c..): table lines and working lines agree;
      (3) in ``infer_next_position`` the line result derives from the line parameter and the text
      (not the column parameter) and the column result from the column parameter and the text
      (not the line parameter), on every return.

NOT decided: the integer arithmetic itself — ``bisect_left`` vs ``bisect_right``, the ``+ 1`` s, the
``nl_idx - 1`` index, the ``len(split[-1]) + 1`` column after a newline.  That is a proof
obligation about integers; within this technique family it would be a frozen-fragment match,
which is declined (DESIGN §3 C31).
"""

from __future__ import annotations

import ast
from typing import Dict, List, Optional, Set, Tuple

from ..cfg import cfg_of, origins
from ..flowutil import attr_chain, param_origin
from ..index import AnalysisError, FuncNode, call_name, calls_in, enclosing_class, enclosing_function, norm, short, walk_local
from ..quals import Seq
from ..spacekinds import MARKERS, SRC, TBASE, TPL, Inst, SpaceKinds, leaves

TABLES = {"_source_newlines": ("source_str", SRC), "_templated_newlines": ("templated_str", TPL)}
TEXTS = ("source_str", "templated_str")
OWNED = tuple(TABLES) + TEXTS
MUTATORS = ("append", "extend", "insert", "sort", "reverse", "pop", "remove", "clear", "__setitem__", "__delitem__", "__iadd__")
NL_METHODS = ("split", "rsplit", "find", "rfind", "index", "rindex", "count", "partition", "rpartition", "splitlines", "startswith", "endswith")
CONVERTER = "TemplatedFile.get_line_pos_of_char_pos"


def run(chk) -> None:
    repo = chk.repo
    chk.rule("R31a", "the source newline table is built from the source text and the rendered one from the rendered text; the converter consults the source table iff its source flag is true; other readers only pair a table with offsets of its own space")
    chk.rule("R31b", "the two newline tables and the two texts of a TemplatedFile are stored only in TemplatedFile.__init__, each text before its table and never after; no in-place mutation of a table anywhere")
    chk.rule("R31c", "the bisected table is the table subtracted for the column and both use the offset parameter; newline-sensitive string operations use the single literal '\\n'; infer_next_position keeps line and column derivations apart")
    sk = SpaceKinds(repo)
    sk.analyse_all()
    _r31a(chk, repo, sk)
    _r31b(chk, repo, sk)
    _r31c(chk, repo)
    chk.rule("R31d", "a serialised create fix collapses its location onto one end of the anchor in all coordinates together: LintFix.to_dict copies line_no, line_pos and file_pos (every start_/end_ key source_position_dict_from_slice produces) from the kept end, for create_before and for create_after")
    _r31d(chk, repo)
    deferred = chk.extra.pop("_r31a_deferred", [])
    if deferred and not any(f.rule == "R31c" for f in chk.findings):
        raise AnalysisError(deferred[0])
    chk.note(
        "Not decided: the integer arithmetic of the conversion (bisect_left vs bisect_right, the +1 offsets, the index nl_idx-1, the column after a newline in infer_next_position)."
    )


def _r31d_keys(cfg, e, at, _depth=0):
    """Every string ``e`` (a dict key) may be at statement ``at``, each with the loop bindings it is that
    string under: ``[(text, {id(for-stmt): element index})]``.  Reads string constants, locals holding
    them, loop variables over a literal tuple/list of strings (or of equal-length tuples of strings, by
    position), f-strings and ``+`` concatenations of those.  ``None`` = not resolvable."""
    if _depth > 6:
        return None
    if isinstance(e, ast.Constant):
        return [(e.value, {})] if isinstance(e.value, str) else None
    if isinstance(e, ast.Name):
        out = []
        for o in origins(cfg, e, at):
            if o.kind == "expr" and not o.path and isinstance(o.expr, ast.AST) and not isinstance(o.expr, ast.Name):
                r = _r31d_keys(cfg, o.expr, o.stmt, _depth + 1)
                if r is None:
                    return None
                out += r
            elif o.kind == "for" and isinstance(getattr(o.stmt, "iter", None), (ast.Tuple, ast.List)) and len(o.path) <= 1:
                for j, x in enumerate(o.stmt.iter.elts):
                    if o.path:
                        if not (isinstance(x, (ast.Tuple, ast.List)) and isinstance(o.path[0], int) and o.path[0] < len(x.elts)):
                            return None
                        x = x.elts[o.path[0]]
                    if not (isinstance(x, ast.Constant) and isinstance(x.value, str)):
                        return None
                    out.append((x.value, {id(o.stmt): j}))
            else:
                return None
        return out or None
    parts = None
    if isinstance(e, ast.JoinedStr):
        parts = []
        for p in e.values:
            if isinstance(p, ast.FormattedValue):
                if p.conversion != -1 or p.format_spec is not None:
                    return None
                parts.append(p.value)
            else:
                parts.append(p)
    elif isinstance(e, ast.BinOp) and isinstance(e.op, ast.Add):
        parts = [e.left, e.right]
    if parts is None:
        return None
    acc = [("", {})]
    for p in parts:
        r = _r31d_keys(cfg, p, at, _depth + 1)
        if r is None:
            return None
        nxt = []
        for t0, env0 in acc:
            for t1, env1 in r:
                if all(env0.get(k, v) == v for k, v in env1.items()):
                    nxt.append((t0 + t1, {**env0, **env1}))
        acc = nxt
    return acc or None


def _r31d_stores(td):
    """(statement, key expression, value expression) of every keyed store in ``td``: ``d[k] = v`` (also
    element-wise in a tuple assignment), ``d.update(k=v)`` / ``d.update({k: v})``, and a rebuilt dict
    ``d = {**d, k: v}`` / ``d = dict(d, k=v)``."""
    out = []
    for st in walk_local(td):
        if isinstance(st, ast.Assign):
            for t in st.targets:
                if isinstance(t, ast.Subscript):
                    out.append((st, t.slice, st.value))
                elif isinstance(t, (ast.Tuple, ast.List)) and isinstance(st.value, (ast.Tuple, ast.List)) and len(t.elts) == len(st.value.elts):
                    for a, b in zip(t.elts, st.value.elts):
                        if isinstance(a, ast.Subscript):
                            out.append((st, a.slice, b))
                elif isinstance(t, ast.Name):
                    v = st.value
                    if isinstance(v, ast.Dict) and any(k is None for k in v.keys):
                        out += [(st, k, x) for k, x in zip(v.keys, v.values) if k is not None]
                    elif isinstance(v, ast.Call) and call_name(v) == "dict" and v.args:
                        out += [(st, ast.Constant(kw.arg), kw.value) for kw in v.keywords if kw.arg]
        elif isinstance(st, ast.Expr) and isinstance(st.value, ast.Call) and isinstance(st.value.func, ast.Attribute) and st.value.func.attr == "update":
            c = st.value
            out += [(st, ast.Constant(kw.arg), kw.value) for kw in c.keywords if kw.arg]
            for a in c.args:
                if isinstance(a, ast.Dict):
                    out += [(st, k, x) for k, x in zip(a.keys, a.values) if k is not None]
    return out


def _r31d_under(cfg, st) -> Set[str]:
    """The edit types under which statement ``st`` runs, as far as tests of ``<x>.edit_type`` (or a local
    holding it) against string constants say: positive tests intersect, negative ones exclude."""
    from ..idioms import conditions_at

    def is_edit_type(e) -> bool:
        if isinstance(e, ast.Attribute):
            return e.attr == "edit_type"
        if isinstance(e, ast.Name):
            os_ = origins(cfg, e, cfg.stmt_of(e))
            return bool(os_) and all(o.kind == "expr" and not o.path and isinstance(o.expr, ast.Attribute) and o.expr.attr == "edit_type" for o in os_)
        return False

    allowed: Optional[Set[str]] = None
    excluded: Set[str] = set()
    for e, pol in conditions_at(cfg, st):
        if not (isinstance(e, ast.Compare) and len(e.ops) == 1):
            continue
        l, op, r = e.left, e.ops[0], e.comparators[0]
        if isinstance(op, (ast.Eq, ast.NotEq)) and isinstance(l, ast.Constant) and is_edit_type(r):
            l, r = r, l
        if not is_edit_type(l):
            continue
        if isinstance(op, (ast.Eq, ast.NotEq)) and isinstance(r, ast.Constant) and isinstance(r.value, str):
            vals, positive = {r.value}, isinstance(op, ast.Eq) == pol
        elif isinstance(op, (ast.In, ast.NotIn)) and isinstance(r, (ast.Tuple, ast.List, ast.Set)) and all(isinstance(x, ast.Constant) and isinstance(x.value, str) for x in r.elts):
            vals, positive = {x.value for x in r.elts}, isinstance(op, ast.In) == pol
        else:
            continue
        if positive:
            allowed = vals if allowed is None else allowed & vals
        else:
            excluded |= vals
    return (allowed or set()) - excluded


def _r31d(chk, repo) -> None:
    FIXF = "src/sqlfluff/core/rules/fix.py"
    td = repo.fn(FIXF, "LintFix.to_dict")
    maker = repo.fn(TBASE, "TemplatedFile.source_position_dict_from_slice")
    keys = set()
    for r in walk_local(maker):
        if isinstance(r, ast.Return) and isinstance(r.value, ast.Dict):
            keys |= {k.value for k in r.value.keys if isinstance(k, ast.Constant) and isinstance(k.value, str)}
    sufs = {k.split("_", 1)[1] for k in keys if k.startswith("start_")}
    if not sufs or sufs != {k.split("_", 1)[1] for k in keys if k.startswith("end_")}:
        raise AnalysisError("R31d: source_position_dict_from_slice no longer returns a literal dict of start_* / end_* keys (anchor refactored)")
    cfg = cfg_of(td)
    # keyed stores into the location dict, grouped by which create type they run under; what is read is
    # the (destination key, source key) pairs of each store, however the keys and the copied value are spelled
    want_pre = {"create_before": ("end", "start"), "create_after": ("start", "end")}
    cover: Dict[str, Set[str]] = {u: set() for u in want_pre}
    wrong: List[Tuple[ast.AST, str, str]] = []
    counted = set()
    for st, kexpr, vexpr in _r31d_stores(td):
        under = _r31d_under(cfg, st) & set(cover)
        if not under:
            continue
        counted.add(id(st))
        dks = _r31d_keys(cfg, kexpr, st)
        if dks is None:
            continue  # not a key this rule can name: it then covers nothing
        v, v_at = vexpr, st
        if isinstance(v, ast.Name):
            os_ = origins(cfg, v, st)
            if len(os_) == 1 and os_[0].kind == "expr" and not os_[0].path and isinstance(os_[0].expr, ast.AST):
                v, v_at = os_[0].expr, os_[0].stmt
        sks = _r31d_keys(cfg, v.slice, v_at) if isinstance(v, ast.Subscript) else None
        for dk, denv in dks:
            if "_" not in dk:
                continue
            pre, suf = dk.split("_", 1)
            if pre not in ("start", "end"):
                continue
            srcs = None if sks is None else sorted({sk for sk, senv in sks if all(denv.get(k, x) == x for k, x in senv.items())})
            for u in sorted(under):
                d, s_ = want_pre[u]
                if pre == d and srcs == [f"{s_}_{suf}"]:
                    cover[u].add(suf)
                else:
                    wrong.append((st, f"under {u}: `{short(st, 70)}` is not {d}_{suf} = {s_}_{suf}", dk))
    chk.count("R31d.collapse_stores", len(counted))
    chk.floor("R31d.collapse_stores", 1)
    for u, got in sorted(cover.items()):
        missing = sorted(sufs - got)
        chk.require(
            not missing, "R31d", td,
            f"LintFix.to_dict collapses a {u} fix onto one end of its anchor in {sorted(got & sufs)} but not in {missing}: when the anchor spans a newline the serialised fix carries a line number "
            "from one end and a column / file position from the other -- a (line, column) that is not the position of that file offset",
            detail=f"LintFix.to_dict: {u} collapses every coordinate",
        )
    for st, why, dk in wrong:
        chk.fail("R31d", st, f"LintFix.to_dict: {why}: the collapsed end takes a coordinate that is not the same coordinate of the kept end", detail=f"LintFix.to_dict: collapse copies like to like ({dk})")


# ---------------------------------------------------------------------------
def _table_reads(f) -> List[ast.Attribute]:
    return [n for n in walk_local(f) if isinstance(n, ast.Attribute) and n.attr in TABLES and isinstance(n.ctx, ast.Load)]


def _flag_polarity(cfg, node, flag: str) -> Optional[bool]:
    """Truth value of parameter ``flag`` known wherever ``node`` is evaluated (None = not known)."""
    # conditional expression arms
    p, child = getattr(node, "_parent", None), node
    while p is not None and not isinstance(p, ast.stmt):
        if isinstance(p, ast.IfExp) and child is not p.test:
            t = p.test
            pol = child is p.body
            if isinstance(t, ast.UnaryOp) and isinstance(t.op, ast.Not):
                t, pol = t.operand, not pol
            if isinstance(t, ast.Name) and param_origin(cfg, t, cfg.stmt_of(node)) == flag:
                return pol
        child, p = p, getattr(p, "_parent", None)
    st = cfg.stmt_of(node)
    for e, pol in cfg.conditions(st):
        if isinstance(e, ast.Name) and param_origin(cfg, e, st) == flag:
            return pol
        if isinstance(e, ast.Compare) and len(e.ops) == 1 and isinstance(e.left, ast.Name) and param_origin(cfg, e.left, st) == flag and isinstance(e.comparators[0], ast.Constant) and isinstance(e.comparators[0].value, bool):
            if isinstance(e.ops[0], (ast.Is, ast.Eq)):
                return pol == e.comparators[0].value
            if isinstance(e.ops[0], (ast.IsNot, ast.NotEq)):
                return pol != e.comparators[0].value
    return None


def _polarity_where_used(cfg, read, flag: str, want: bool) -> Optional[bool]:
    """``t = self._table`` evaluated unconditionally as a default and overwritten on the other arm
    (``t = <rendered>; if source: t = <source>``): the value is *consulted* only where that binding is
    still live.  Returns ``want`` when every path from the binding to a use of the local that passes no
    other binding of it passes a branch on which ``flag`` is known to be ``want``; else None."""
    from ..cfg import Branch, defs_of_stmt

    st = cfg.stmt_of(read)
    if not (isinstance(st, (ast.Assign, ast.AnnAssign)) and st.value is read):
        return None
    tg = st.targets if isinstance(st, ast.Assign) else [st.target]
    if len(tg) != 1 or not isinstance(tg[0], ast.Name):
        return None
    name = tg[0].id
    rd = cfg.reaching()
    uses = []
    for n in walk_local(cfg.func):
        if isinstance(n, ast.Name) and isinstance(n.ctx, ast.Load) and n.id == name:
            us = cfg.stmt_of(n)
            if us is not None and any(d.stmt is st for d in rd.defs_at(us, name)) and us not in uses:
                uses.append(us)
    if not uses:
        return None

    def blocks(n) -> bool:
        if n is not st and isinstance(n, ast.stmt) and any(d.name == name for d in defs_of_stmt(n)):
            return True  # overwritten: this value is no longer the one consulted
        if isinstance(n, Branch) and isinstance(n.stmt, (ast.If, ast.While)):
            t, pol = n.stmt.test, n.polarity
            while isinstance(t, ast.UnaryOp) and isinstance(t.op, ast.Not):
                t, pol = t.operand, not pol
            if isinstance(t, ast.Name) and param_origin(cfg, t, n.stmt) == flag and pol is want:
                return True
        return False

    if all(not cfg.paths_avoiding(st, us, blocks) for us in uses):
        return want
    return None


def _r31a(chk, repo, sk: SpaceKinds) -> None:
    init = repo.fn(TBASE, "TemplatedFile.__init__")
    # ---- (1) how the tables are built (kind of the stored value) -------------------------------
    stores = [s for s in sk.sites if s.cat == "attr-store" and s.node._module.relpath == TBASE and any(t in s.label for t in TABLES)]
    by_table: Dict[str, list] = {}
    for s in stores:
        for t in TABLES:
            if s.label.endswith("." + t):
                by_table.setdefault(t, []).append(s)
    for t, (text, space) in TABLES.items():
        ss = by_table.get(t, [])
        chk.count("R31a.table_store_sites", len({id(s.node) for s in ss}))
        if not ss:
            raise AnalysisError(f"R31a: no store into TemplatedFile.{t} was evaluated (table renamed or built elsewhere?)")
        for node_id in {id(s.node) for s in ss}:
            group = [s for s in ss if id(s.node) == node_id]
            node = group[0].node
            bad = [s for s in group if not s.ok]
            undecided = [s for s in group if s.ok and not s.decided]
            if bad:
                chk.fail(
                    "R31a", node,
                    f"TemplatedFile.{t} is built from offsets of the {'rendered' if space == SRC else 'source'} text ({bad[0].actual!r}); lines of the {text} are then looked up in the other text's newline table",
                    detail=f"{t} built from {text}",
                )
            elif undecided and len(undecided) == len(group):
                # the finder's shape is judged by R31c (2); only if that has nothing to say is this an analysis error
                chk.extra.setdefault("_r31a_deferred", []).append(f"R31a: cannot determine which text TemplatedFile.{t} is built from ({short(node, 80)}); the newline finder is no longer recognised")
            else:
                chk.ok("R31a", f"{TBASE}::TemplatedFile.__init__", f"{t} built from {text}")
    # both tables through the same finder function
    icfg = cfg_of(init)
    finders: Dict[str, Set[str]] = {}
    for st in walk_local(init):
        if isinstance(st, ast.Assign):
            for tg in st.targets:
                ch = attr_chain(tg)
                if ch and len(ch) == 2 and ch[0] == "self" and ch[1] in TABLES:
                    for e, path, kind in leaves(icfg, st.value, st):
                        names = {call_name(c) for c in ast.walk(e) if isinstance(c, ast.Call)} - {"list", "tuple", "sorted"}
                        finders.setdefault(ch[1], set()).update(names)
    if len(finders) == len(TABLES):
        vals = list(finders.values())
        chk.require(
            all(v == vals[0] for v in vals) and bool(vals[0]), "R31a", init,
            f"the two newline tables are produced by different functions ({ {k: sorted(v) for k, v in finders.items()} }): source and rendered lines would be counted differently",
            detail="both tables built by the same newline finder",
        )

    # ---- (2) the converter consults the right table --------------------------------------------
    conv = repo.fn(TBASE, CONVERTER)
    ccfg = cfg_of(conv)
    ps = [a.arg for a in conv.args.args]
    if len(ps) < 3:
        raise AnalysisError("get_line_pos_of_char_pos no longer takes (self, char_pos, source)")
    flag = ps[2]
    reads = _table_reads(conv)
    chk.count("R31a.converter_table_reads", len(reads))
    seen = set()
    for r in reads:
        pol = _flag_polarity(ccfg, r, flag)
        want = r.attr == "_source_newlines"
        if pol is None:
            pol = _polarity_where_used(ccfg, r, flag, want)
        seen.add(r.attr)
        chk.require(
            pol is want, "R31a", r,
            f"get_line_pos_of_char_pos reads {r.attr} where `{flag}` is {'not known' if pol is None else pol}: "
            f"{'source' if want else 'rendered'} offsets must be looked up in the {'source' if want else 'rendered'} table only",
            detail=f"{r.attr} consulted iff {flag} is {want}",
        )
    for t in TABLES:
        chk.require(t in seen, "R31a", conv, f"get_line_pos_of_char_pos never consults {t}: one of the two spaces is converted with the other's table", detail=f"converter consults {t}")

    # ---- (3) other readers ---------------------------------------------------------------------
    n_other = 0
    for m in repo.iter_modules():
        if not any(t in m.text for t in TABLES):
            continue
        for q, f in m.functions():
            if f is conv or f is init:
                continue
            rs = _table_reads(f)
            if not rs:
                continue
            n_other += 1
            fid = f"{m.relpath}::{q}"
            analysed = fid in sk.fnodes
            bad = [s for s in sk.sites if not s.ok and s.func is f]
            if not analysed:
                chk.fail("R31a", rs[0], f"{q} reads {rs[0].attr} outside the analysed position modules: its pairing with an offset space is not checked", detail=f"{q}: table read outside analysed modules")
                continue
            for s in bad:
                chk.fail("R31a", s.node, f"{q} consults a newline table with an offset of the other space: {s.msg}", detail=f"{q}: {s.cat} {short(s.node, 80)}")
            if not bad:
                chk.ok("R31a", fid, f"reads {sorted({r.attr for r in rs})} with offsets of its own space")
    chk.count("R31a.other_table_readers", n_other)


# ---------------------------------------------------------------------------
def _receiver_class(repo, sk: SpaceKinds, node: ast.AST, recv: ast.expr):
    """(relpath, qualname) of the receiver's class, 'self:<key>' resolution; None = unknown."""
    fn = enclosing_function(node)
    if isinstance(recv, ast.Name) and fn is not None:
        if recv.id in ("self", "cls"):
            c = enclosing_class(fn)
            # nested functions: walk up
            p = fn
            while c is None and p is not None:
                p = enclosing_function(p)
                c = enclosing_class(p) if p is not None else None
            if c is not None:
                return (c._module.relpath, getattr(c, "_qualname", c.name))
        f = fn
        while f is not None:
            if isinstance(f, FuncNode):
                for a in f.args.posonlyargs + f.args.args + f.args.kwonlyargs:
                    if a.arg == recv.id:
                        v = sk.ann_value(f._module, a.annotation)
                        return v.key if isinstance(v, Inst) else None
                for n in walk_local(f):
                    if isinstance(n, ast.AnnAssign) and isinstance(n.target, ast.Name) and n.target.id == recv.id:
                        v = sk.ann_value(f._module, n.annotation)
                        if isinstance(v, Inst):
                            return v.key
                    if isinstance(n, ast.Assign) and any(isinstance(t, ast.Name) and t.id == recv.id for t in n.targets) and isinstance(n.value, ast.Call):
                        r = repo.resolve_name(f._module, call_name(n.value)) if call_name(n.value) and "()" not in call_name(n.value) and not call_name(n.value).startswith("?") else None
                        if r and isinstance(r[1], ast.ClassDef):
                            return (r[0].relpath, getattr(r[1], "_qualname", r[1].name))
            f = enclosing_function(f)
    if isinstance(recv, ast.Attribute) and recv.attr == "templated_file":
        return (TBASE, "TemplatedFile")
    return None


def _is_tf(repo, key) -> bool:
    if key is None:
        return False
    m = repo.mod(key[0])
    c = m.defs.get(key[1])
    if not isinstance(c, ast.ClassDef):
        return False
    return any(cc.name == "TemplatedFile" and mm.relpath == TBASE for mm, cc in repo.mro(m, c))


def _r31b(chk, repo, sk: SpaceKinds) -> None:
    init = repo.fn(TBASE, "TemplatedFile.__init__")
    owner_stores: Dict[str, List[ast.stmt]] = {n: [] for n in OWNED}
    n_sites = 0

    def judge(node, recv, name, how):
        nonlocal n_sites
        n_sites += 1
        fn = enclosing_function(node)
        key = _receiver_class(repo, sk, node, recv)
        where = f"{node._module.relpath}::{getattr(fn, '_qualname', '<module>')}"
        if fn is init and isinstance(recv, ast.Name) and recv.id == "self" and how == "store":
            st = node
            while not isinstance(st, ast.stmt):
                st = st._parent
            owner_stores[name].append(st)
            chk.ok("R31b", where, f"owner store of {name}")
            return
        if key is not None and not _is_tf(repo, key):
            chk.ok("R31b", where, f"{how} of .{name} on a {key[1]} (not a TemplatedFile)")
            return
        who = "a TemplatedFile" if key is not None else "an object whose class cannot be resolved (it may be a TemplatedFile)"
        chk.fail(
            "R31b", node,
            f"{how} of .{name} on {who} outside TemplatedFile.__init__: "
            + ("the newline table no longer matches the text it was computed from" if name in TEXTS else "the newline table is changed after it was computed from the text"),
            detail=f"{how} .{name} in {getattr(fn, '_qualname', '<module>')}",
        )

    for m in repo.iter_modules():
        if not any(n in m.text for n in OWNED):
            continue
        for node in ast.walk(m.tree):
            if isinstance(node, ast.Attribute) and node.attr in OWNED and isinstance(node.ctx, (ast.Store, ast.Del)):
                judge(node, node.value, node.attr, "store" if isinstance(node.ctx, ast.Store) else "delete")
            elif isinstance(node, ast.Call):
                cn = call_name(node)
                if cn in ("setattr", "object.__setattr__", "delattr", "object.__delattr__") and len(node.args) >= 2 and isinstance(node.args[1], ast.Constant) and node.args[1].value in OWNED:
                    judge(node, node.args[0], node.args[1].value, "setattr")
                elif isinstance(node.func, ast.Attribute) and node.func.attr in MUTATORS and isinstance(node.func.value, ast.Attribute) and node.func.value.attr in TABLES:
                    judge(node, node.func.value.value, node.func.value.attr, f"in-place {node.func.attr}()")
                elif isinstance(node.func, ast.Attribute) and node.func.attr == "update" and isinstance(node.func.value, ast.Attribute) and node.func.value.attr == "__dict__":
                    for k in node.keywords:
                        if k.arg in OWNED:
                            judge(node, node.func.value.value, k.arg, "__dict__.update")
            elif isinstance(node, ast.Subscript) and isinstance(node.ctx, (ast.Store, ast.Del)):
                b = node.value
                if isinstance(b, ast.Attribute) and b.attr in TABLES:
                    judge(node, b.value, b.attr, "item assignment")
                elif isinstance(b, ast.Attribute) and b.attr == "__dict__" and isinstance(node.slice, ast.Constant) and node.slice.value in OWNED:
                    judge(node, b.value, node.slice.value, "__dict__ write")
            elif isinstance(node, ast.AugAssign) and isinstance(node.target, ast.Attribute) and node.target.attr in OWNED:
                pass  # the Store-context attribute above already covers it
    chk.count("R31b.write_sites_examined", n_sites)
    for n in OWNED:
        chk.count("R31b.owner_stores", len(owner_stores[n]))
        if not owner_stores[n]:
            raise AnalysisError(f"R31b: TemplatedFile.__init__ no longer stores self.{n}")
    chk.floor("R31b.owner_stores", 4)
    # order inside the constructor: text stored before its table, never after
    cfg = cfg_of(init)
    for t, (text, _space) in TABLES.items():
        for ts in owner_stores[t]:
            chk.require(
                any(cfg.dominates(xs, ts) for xs in owner_stores[text]), "R31b", ts,
                f"self.{t} is computed on a path on which self.{text} has not been stored yet",
                detail=f"{text} stored before {t} is computed",
            )
            late = [xs for xs in owner_stores[text] if xs is not ts and cfg.reaches(ts, xs)]
            chk.require(
                not late, "R31b", late[0] if late else ts,
                f"self.{text} is stored again after self.{t} was computed from it: the table is stale",
                detail=f"{text} not stored after {t} is computed",
            )
    # subclasses must not take over the converter or the constructor's tables
    for m, c in repo.subclasses_of("TemplatedFile"):
        if c.name == "TemplatedFile" and m.relpath == TBASE:
            continue
        for item in c.body:
            if isinstance(item, FuncNode) and item.name in ("get_line_pos_of_char_pos",):
                chk.fail("R31b", item, f"{c.name} overrides the offset->line/column converter of TemplatedFile", detail=f"{c.name} overrides {item.name}")


# ---------------------------------------------------------------------------
def _cone(cfg, expr, at, stop=(), _seen=None, _depth=0, _hit=None) -> Set[str]:
    """Parameters the value of ``expr`` is computed from (through local definitions).  Nodes in
    ``stop`` are opaque leaves; when one is met it is added to ``_hit``."""
    _seen = _seen if _seen is not None else set()
    out: Set[str] = set()
    if _depth > 8:
        return out
    stack = [expr]
    while stack:
        n = stack.pop()
        if any(n is s for s in stop):
            if _hit is not None:
                _hit.add(id(n))
            continue
        stack.extend(ast.iter_child_nodes(n))
        if not isinstance(n, ast.Name) or not isinstance(n.ctx, ast.Load):
            continue
        for o in origins(cfg, n, at):
            if o.kind == "param":
                out.add(o.expr.arg)
            elif o.kind in ("expr", "aug", "for", "with") and isinstance(o.expr, ast.AST):
                k = (id(o.expr), id(o.stmt))
                if k in _seen:
                    continue
                _seen.add(k)
                out |= _cone(cfg, o.expr, o.stmt, stop, _seen, _depth + 1, _hit)
    return out


def _bisect_args(c: ast.Call):
    """(sequence, value) of a ``bisect*(a, x)`` call, positional or by keyword; None when not both given."""
    if any(isinstance(a, ast.Starred) for a in c.args) or any(k.arg is None for k in c.keywords):
        return None
    kw = {k.arg: k.value for k in c.keywords}
    seq = c.args[0] if len(c.args) >= 1 else kw.get("a")
    val = c.args[1] if len(c.args) >= 2 else kw.get("x")
    return (seq, val) if seq is not None and val is not None else None


def _r31c(chk, repo) -> None:
    # ---- (1) one table, one offset -------------------------------------------------------------
    conv = repo.fn(TBASE, CONVERTER)
    cfg = cfg_of(conv)
    ps = [a.arg for a in conv.args.args]
    off = ps[1]
    bis = []
    for c in calls_in(conv):
        cn = call_name(c)
        fq = conv._module.imports.get(cn.split(".")[0], "")
        if cn.split(".")[-1] in ("bisect_left", "bisect_right", "bisect") and fq.startswith("bisect") and _bisect_args(c) is not None:
            bis.append(c)
    chk.count("R31c.bisect_calls", len(bis))
    if not bis:
        raise AnalysisError("R31c: get_line_pos_of_char_pos no longer bisects a newline table (conversion rewritten; re-read it)")

    def table_origin_ids(e, at) -> Optional[frozenset]:
        out = set()
        for x, path, kind in leaves(cfg, e, at):
            if kind == "expr" and not path and isinstance(x, ast.Attribute) and x.attr in TABLES:
                out.add(x.attr)
            else:
                return None
        return frozenset(out)

    tabs = set()
    bis_results: Set[str] = set()
    for b in bis:
        st = cfg.stmt_of(b)
        b_seq, b_off = _bisect_args(b)
        t = table_origin_ids(b_seq, st)
        chk.require(t is not None and len(t) >= 1, "R31c", b, f"the bisected sequence {short(b_seq, 40)} is not one of the TemplatedFile newline tables", detail="bisect over a newline table")
        if t:
            tabs.add(t)
        chk.require(
            isinstance(b_off, ast.Name) and param_origin(cfg, b_off, st) == off, "R31c", b,
            f"the offset that is bisected ({short(b_off, 40)}) is not the unmodified offset parameter '{off}'",
            detail=f"bisect({off})",
        )
        p = getattr(b, "_parent", None)
        if isinstance(p, ast.Assign) and len(p.targets) == 1 and isinstance(p.targets[0], ast.Name):
            bis_results.add(p.targets[0].id)
    rets = [r for r in walk_local(conv) if isinstance(r, ast.Return) and r.value is not None]
    chk.count("R31c.converter_returns", len(rets))
    chk.floor("R31c.converter_returns", 1)
    for r in rets:
        for e, path, kind in leaves(cfg, r.value, r):
            if not (isinstance(e, ast.Tuple) and len(e.elts) == 2):
                chk.fail("R31c", r, "get_line_pos_of_char_pos returns something other than a (line, column) pair display", detail="converter returns a pair")
                continue
            line_e, col_e = e.elts
            st = cfg.stmt_of(e) or r
            # column: every table entry used is from the bisected table
            for s in [n for n in ast.walk(col_e) if isinstance(n, ast.Subscript)]:
                t = table_origin_ids(s.value, st)
                chk.require(
                    t is not None and frozenset(t) in tabs, "R31c", s,
                    f"the column subtracts an entry of {short(s.value, 40)}, which is not the table that was bisected for the line: line and column refer to different texts",
                    detail="column uses the bisected table",
                )
            hit: Set[int] = set()
            line_cone = _cone(cfg, line_e, st, stop=bis, _hit=hit)
            chk.require(
                off not in line_cone, "R31c", r,
                f"the line component {short(line_e, 50)} is computed from the offset directly instead of from the bisect result",
                detail="line component from bisect result only",
            )
            if any(isinstance(n, ast.Name) for n in ast.walk(line_e)):
                chk.require(
                    bool(hit), "R31c", r,
                    f"the line component {short(line_e, 50)} does not use the bisect result", detail="line component uses the bisect result",
                )
            chk.require(
                off in _cone(cfg, col_e, st), "R31c", r,
                f"the column component {short(col_e, 50)} does not depend on the offset parameter '{off}'",
                detail="column component from the offset",
            )

    # ---- (2) one newline literal ------------------------------------------------------------------
    finder = repo.fn(TBASE, "iter_indices_of_newlines")
    infer = repo.fn(MARKERS, "PositionMarker.infer_next_position")
    lits: Dict[str, Set[str]] = {}
    for f in (finder, infer):
        fcfg = cfg_of(f)
        text_params = [a.arg for a in f.args.args if a.arg not in ("self", "cls")][:1]
        n_ops = 0
        for c in calls_in(f):
            if not (isinstance(c.func, ast.Attribute) and c.func.attr in NL_METHODS):
                continue
            recv = c.func.value
            if not (isinstance(recv, ast.Name) and param_origin(fcfg, recv, fcfg.stmt_of(c)) in text_params):
                continue
            n_ops += 1
            if c.func.attr == "splitlines":
                chk.fail("R31c", c, f"{f.name} splits with splitlines(), which also breaks lines at \\r, \\v, \\f, \\x1c-\\x1e, \\x85, \\u2028/9 while the newline tables only count '\\n'", detail=f"{f.name}: splitlines()")
                continue
            a0 = c.args[0] if c.args else None
            if isinstance(a0, ast.Name):
                os_ = origins(fcfg, a0, fcfg.stmt_of(c))  # ``newline = "\n"`` kept in a local
                if os_ and all(o.kind == "expr" and not o.path and isinstance(o.expr, ast.Constant) for o in os_) and len({o.expr.value for o in os_}) == 1:
                    a0 = os_[0].expr
            ok = isinstance(a0, ast.Constant) and isinstance(a0.value, str)
            chk.require(ok, "R31c", c, f"{f.name}: the separator of {short(c, 50)} is not a string literal", detail=f"{f.name}: literal newline separator")
            if ok:
                lits.setdefault(f.name, set()).add(a0.value)
        chk.count("R31c.newline_string_ops", n_ops)
        chk.require(n_ops >= 1, "R31c", f, f"{f.name} no longer locates newlines in its text parameter with a string operation on it", detail=f"{f.name}: newline operation on the text parameter")
    allv = set().union(*lits.values()) if lits else set()
    chk.require(
        allv == {"\n"}, "R31c", infer,
        f"newline-sensitive operations use the separators { {k: sorted(v) for k, v in lits.items()} }: the newline tables and the working-position arithmetic disagree about what a line is",
        detail="single newline literal '\\n'",
    )

    # ---- (3) infer_next_position keeps line and column apart -----------------------------------------
    icfg = cfg_of(infer)
    ips = [a.arg for a in infer.args.args if a.arg not in ("self", "cls")]
    if len(ips) != 3:
        raise AnalysisError(f"infer_next_position no longer takes (text, line, column): {ips}")
    text_p, line_p, col_p = ips
    rets = [r for r in walk_local(infer) if isinstance(r, ast.Return) and r.value is not None]
    chk.count("R31c.infer_returns", len(rets))
    chk.floor("R31c.infer_returns", 1)
    for r in rets:
        for e, path, kind in leaves(icfg, r.value, r):
            if not (isinstance(e, ast.Tuple) and len(e.elts) == 2):
                chk.fail("R31c", r, "infer_next_position returns something other than a (line, column) pair display", detail="infer_next_position returns a pair")
                continue
            st = icfg.stmt_of(e) or r
            lc, cc = _cone(icfg, e.elts[0], st), _cone(icfg, e.elts[1], st)
            chk.require(
                line_p in lc and col_p not in lc, "R31c", r,
                f"the line result {short(e.elts[0], 50)} derives from {sorted(lc)}; it must build on '{line_p}' and not on '{col_p}'",
                detail=f"line result from {line_p}",
            )
            # the column restarts after a newline, so the column parameter may be absent in one arm, but the line never feeds it
            chk.require(
                line_p not in cc and (col_p in cc or text_p in cc), "R31c", r,
                f"the column result {short(e.elts[1], 50)} derives from {sorted(cc)}; it must build on '{col_p}'/the text and not on '{line_p}'",
                detail=f"column result from {col_p}",
            )
            bare_line = isinstance(e.elts[0], ast.Name) and param_origin(icfg, e.elts[0], st) == line_p
            bare_col = isinstance(e.elts[1], ast.Name) and param_origin(icfg, e.elts[1], st) == col_p
            chk.require(
                (bare_line or text_p in lc) and (bare_col or text_p in cc), "R31c", r,
                "a result component is neither the unchanged parameter nor computed from the text parameter", detail="line and column from the same text",
            )

    # ---- (4) the column after a newline is measured from the LAST newline of the text -----------------
    # Whatever in the cone of the column result locates a newline in the text must be a last-oriented
    # operation.  First-oriented ones (index/find/partition, element 0 or 1 of a split) give the right
    # answer for texts with at most one newline -- all that a unit test usually tries -- and a wrong
    # column for a block comment or statement that spans three lines.
    LAST = {"rindex", "rfind", "rpartition", "rsplit"}
    FIRST = {"index", "find", "partition"}
    n_loc = 0
    for r in rets:
        for e, path, kind in leaves(icfg, r.value, r):
            if not (isinstance(e, ast.Tuple) and len(e.elts) == 2):
                continue
            st = icfg.stmt_of(e) or r
            # expressions the column derives from (through locals)
            todo, seen_e = [(e.elts[1], st)], []
            while todo:
                x, at = todo.pop()
                if any(x is y for y in seen_e):
                    continue
                seen_e.append(x)
                for sub in ast.walk(x):
                    if isinstance(sub, ast.Name):
                        for o in origins(icfg, sub, at):
                            if o.kind == "expr" and o.expr is not None and not any(o.expr is y for y in seen_e):
                                todo.append((o.expr, o.stmt))
            for x in seen_e:
                for sub in ast.walk(x):
                    if isinstance(sub, ast.Call) and isinstance(sub.func, ast.Attribute) and sub.func.attr in LAST | FIRST and sub.args and isinstance(sub.args[0], ast.Constant) and sub.args[0].value == "\n":
                        n_loc += 1
                        chk.require(
                            sub.func.attr in LAST, "R31c", sub,
                            f"the column after a newline is computed with `{short(sub, 40)}`, which finds the FIRST newline of the text: for a text with two or more newlines "
                            "the column is measured from the wrong line start",
                            detail="column measured from the last newline",
                        )
                    idx_c = None
                    if isinstance(sub, ast.Subscript):
                        sl = sub.slice
                        if isinstance(sl, ast.Constant) and isinstance(sl.value, int):
                            idx_c = sl.value
                        elif isinstance(sl, ast.UnaryOp) and isinstance(sl.op, ast.USub) and isinstance(sl.operand, ast.Constant) and isinstance(sl.operand.value, int):
                            idx_c = -sl.operand.value
                    if idx_c is not None and isinstance(sub.value, (ast.Call, ast.Name)):
                        v = sub.value
                        if isinstance(v, ast.Name):
                            os2 = origins(icfg, v, st)
                            v = os2[0].expr if len(os2) == 1 and os2[0].kind == "expr" else None
                        if isinstance(v, ast.Call) and isinstance(v.func, ast.Attribute) and v.func.attr in ("split", "rsplit", "splitlines") and (not v.args or (isinstance(v.args[0], ast.Constant) and v.args[0].value == "\n")):
                            n_loc += 1
                            chk.require(
                                idx_c == -1, "R31c", sub,
                                f"the column after a newline uses element {idx_c} of the split text; only the last element ([-1]) is the text of the final line",
                                detail="column measured from the last newline",
                            )
    chk.count("R31c.newline_locators_in_column", n_loc)


from ..selftest import Variant  # noqa: E402

LINTER = "src/sqlfluff/core/linter/linter.py"

VARIANTS = [
    Variant(
        "create-after-fix-keeps-the-start-line", "src/sqlfluff/core/rules/fix.py",
        '            _src_loc["start_line_no"] = _src_loc["end_line_no"]\n',
        "",
        "R31d", "LintFix.to_dict", "seeded C31-7 family: the line of one end with the column of the other",
    ),
    Variant(
        "create-before-fix-takes-the-column-as-line", "src/sqlfluff/core/rules/fix.py",
        '            _src_loc["end_line_no"] = _src_loc["start_line_no"]\n',
        '            _src_loc["end_line_no"] = _src_loc["start_line_pos"]\n',
        "R31d", "LintFix.to_dict", "like copied from unlike",
    ),
    Variant(
        "newline-finder-rewritten-with-splitlines", TBASE,
        '    init_idx = -1\n    while True:\n        nl_pos = raw_str.find("\\n", init_idx + 1)\n        if nl_pos >= 0:\n            yield nl_pos\n            init_idx = nl_pos\n        else:\n            break  # pragma: no cover TODO?\n',
        '    pos = 0\n    for line in raw_str.splitlines(keepends=True):\n        pos += len(line)\n        if line.endswith("\\n"):\n            yield pos - 1\n',
        "R31c", "iter_indices_of_newlines", "seeded C31-3 (same shape): a form feed in the text shifts every later line number",
    ),
    Variant(
        "infer-next-position-measures-from-first-newline", MARKERS,
        "        split = raw.split(\"\\n\")\n        return (\n            line_no + len(split) - 1,\n            line_pos + len(raw) if len(split) == 1 else len(split[-1]) + 1,\n        )\n",
        "        newlines = raw.count(\"\\n\")\n        if not newlines:\n            return line_no, line_pos + len(raw)\n        return line_no + newlines, len(raw) - raw.index(\"\\n\")\n",
        "R31c", "infer_next_position", "seeded C31-2: end of a three-line statement gets the wrong column",
    ),
    Variant(
        "quiet-infer-next-position-rindex", MARKERS,
        "        split = raw.split(\"\\n\")\n        return (\n            line_no + len(split) - 1,\n            line_pos + len(raw) if len(split) == 1 else len(split[-1]) + 1,\n        )\n",
        "        newlines = raw.count(\"\\n\")\n        if not newlines:\n            return line_no, line_pos + len(raw)\n        return line_no + newlines, len(raw) - raw.rindex(\"\\n\")\n",
        "QUIET", None, "the same arithmetic with rindex (correct)",
    ),
    # ---- behaviour-preserving edits ---------------------------------------------------------------
    Variant(
        "quiet-converter-conditional-expression", TBASE,
        "        if source:\n            ref_str = self._source_newlines\n        else:\n            ref_str = self._templated_newlines\n",
        "        table = self._templated_newlines if not source else self._source_newlines\n        ref_str = table\n",
        "QUIET", None, "if/else written as a conditional expression through a second local",
    ),
    Variant(
        "quiet-tables-built-through-helper-and-locals", TBASE,
        "        self._source_newlines = list(iter_indices_of_newlines(self.source_str))\n        self._templated_newlines = list(iter_indices_of_newlines(self.templated_str))\n",
        "        rendered = self.templated_str\n        src_nl = list(iter_indices_of_newlines(source_str))\n        self._templated_newlines = list(iter_indices_of_newlines(rendered))\n        self._source_newlines = src_nl\n",
        "QUIET", None, "order of the two stores swapped, texts through locals / the constructor parameter",
    ),
    Variant(
        "quiet-converter-early-return", TBASE,
        "        if nl_idx > 0:\n            return nl_idx + 1, char_pos - ref_str[nl_idx - 1]\n        else:\n            # NB: line_pos is char_pos+1 because character position is 0-indexed,\n            # but the line position is 1-indexed.\n            return 1, char_pos + 1\n",
        "        if nl_idx <= 0:\n            return 1, char_pos + 1\n        line = nl_idx + 1\n        line_start = ref_str[nl_idx - 1]\n        col = char_pos - line_start\n        return line, col\n",
        "QUIET", None, "early return, components through locals",
    ),
    Variant(
        "quiet-infer-next-position-locals", MARKERS,
        "        split = raw.split(\"\\n\")\n        return (\n            line_no + len(split) - 1,\n            line_pos + len(raw) if len(split) == 1 else len(split[-1]) + 1,\n        )\n",
        "        parts = raw.split(\"\\n\")\n        n_new = len(parts) - 1\n        if n_new == 0:\n            return line_no, line_pos + len(raw)\n        return line_no + n_new, len(parts[-1]) + 1\n",
        "QUIET", None, "conditional expression unfolded into two returns",
    ),
    # behaviour-preserving refactors: must stay quiet
    Variant(
        "quiet-flag-nested-not", TBASE,
        '        if source:\n            ref_str = self._source_newlines\n        else:\n            ref_str = self._templated_newlines\n',
        '        if not source:\n            ref_str = self._templated_newlines\n        else:\n            ref_str = self._source_newlines\n',
        "QUIET", None, 'arms swapped under `not source`',
    ),
    Variant(
        "quiet-default-then-override", TBASE,
        '        if source:\n            ref_str = self._source_newlines\n        else:\n            ref_str = self._templated_newlines\n',
        '        ref_str = self._templated_newlines\n        if source:\n            ref_str = self._source_newlines\n',
        "QUIET", None, 'rendered table as the default, overwritten when source is set',
    ),
    Variant(
        "quiet-flag-is-true", TBASE,
        '        if source:\n            ref_str = self._source_newlines\n',
        '        if source is True:\n            ref_str = self._source_newlines\n',
        "QUIET", None, '`source is True`',
    ),
    Variant(
        "quiet-flag-local", TBASE,
        '        if source:\n            ref_str = self._source_newlines\n',
        '        in_source = source\n        if in_source:\n            ref_str = self._source_newlines\n',
        "QUIET", None, 'flag through a local',
    ),
    Variant(
        "quiet-bisect-keyword", TBASE,
        '        nl_idx = bisect_left(ref_str, char_pos)\n',
        '        nl_idx = bisect_left(ref_str, x=char_pos)\n',
        "QUIET", None, 'offset handed to bisect by keyword',
    ),
    Variant(
        "quiet-offset-local", TBASE,
        '        nl_idx = bisect_left(ref_str, char_pos)\n',
        '        offset = char_pos\n        nl_idx = bisect_left(ref_str, offset)\n',
        "QUIET", None, 'offset through a local',
    ),
    Variant(
        "quiet-tuple-local", TBASE,
        '            return nl_idx + 1, char_pos - ref_str[nl_idx - 1]\n',
        '            result = (nl_idx + 1, char_pos - ref_str[nl_idx - 1])\n            return result\n',
        "QUIET", None, 'result pair through a local',
    ),
    Variant(
        "quiet-prev-index-local", TBASE,
        '            return nl_idx + 1, char_pos - ref_str[nl_idx - 1]\n',
        '            prev_nl = nl_idx - 1\n            return nl_idx + 1, char_pos - ref_str[prev_nl]\n',
        "QUIET", None, 'index of the previous newline through a local',
    ),
    Variant(
        "quiet-gt-zero-truthy", TBASE,
        '        if nl_idx > 0:\n',
        '        if nl_idx:\n',
        "QUIET", None, '`nl_idx > 0` as truthiness of a non-negative index',
    ),
    Variant(
        "quiet-two-arms-return", TBASE,
        '        if source:\n            ref_str = self._source_newlines\n        else:\n            ref_str = self._templated_newlines\n\n        nl_idx = bisect_left(ref_str, char_pos)\n',
        '        ref_str = self._source_newlines if source else self._templated_newlines\n        nl_idx = bisect_left(ref_str, char_pos)\n',
        "QUIET", None, 'table chosen by one conditional expression',
    ),
    Variant(
        "quiet-tables-comprehension", TBASE,
        '        self._source_newlines = list(iter_indices_of_newlines(self.source_str))\n',
        '        self._source_newlines = [idx for idx in iter_indices_of_newlines(self.source_str)]\n',
        "QUIET", None, 'list() as a comprehension',
    ),
    Variant(
        "quiet-tables-tuple-assign", TBASE,
        '        self._source_newlines = list(iter_indices_of_newlines(self.source_str))\n        self._templated_newlines = list(iter_indices_of_newlines(self.templated_str))\n',
        '        self._source_newlines, self._templated_newlines = (\n            list(iter_indices_of_newlines(self.source_str)),\n            list(iter_indices_of_newlines(self.templated_str)),\n        )\n',
        "QUIET", None, 'both tables stored by one tuple assignment',
    ),
    Variant(
        "quiet-finder-newline-constant", TBASE,
        '        nl_pos = raw_str.find("\\n", init_idx + 1)\n',
        '        newline = "\\n"\n        nl_pos = raw_str.find(newline, init_idx + 1)\n',
        "QUIET", None, 'the newline literal through a local',
    ),
    Variant(
        "quiet-finder-start-local", TBASE,
        '        nl_pos = raw_str.find("\\n", init_idx + 1)\n',
        '        search_from = init_idx + 1\n        nl_pos = raw_str.find("\\n", search_from)\n',
        "QUIET", None, 'search start through a local',
    ),
    Variant(
        "quiet-infer-early-len", MARKERS,
        '        if not raw:\n            return line_no, line_pos\n',
        '        if len(raw) == 0:\n            return (line_no, line_pos)\n',
        "QUIET", None, 'emptiness by length, parenthesised pair',
    ),
    Variant(
        "quiet-infer-rsplit", MARKERS,
        '        split = raw.split("\\n")\n        return (\n            line_no + len(split) - 1,\n            line_pos + len(raw) if len(split) == 1 else len(split[-1]) + 1,\n        )\n',
        '        split = raw.split("\\n")\n        last_line = split[-1]\n        n_lines = len(split)\n        new_line_no = line_no + n_lines - 1\n        new_line_pos = line_pos + len(raw) if n_lines == 1 else len(last_line) + 1\n        return new_line_no, new_line_pos\n',
        "QUIET", None, 'components through locals',
    ),
    Variant(
        "quiet-infer-rpartition", MARKERS,
        '        split = raw.split("\\n")\n        return (\n            line_no + len(split) - 1,\n            line_pos + len(raw) if len(split) == 1 else len(split[-1]) + 1,\n        )\n',
        '        head, nl, tail = raw.rpartition("\\n")\n        if not nl:\n            return line_no, line_pos + len(raw)\n        return line_no + raw.count("\\n"), len(tail) + 1\n',
        "QUIET", None, 'last line by rpartition, line count by count',
    ),
    # behaviour-preserving refactors: must stay quiet (R31d)
    Variant(
        'quiet-r31d-edit-type-local', "src/sqlfluff/core/rules/fix.py",
        '        if self.edit_type == "create_before":\n            # If we\'re creating _before_, the end point isn\'t relevant.\n            # Make it the same as the start.\n            _src_loc["end_line_no"] = _src_loc["start_line_no"]\n            _src_loc["end_line_pos"] = _src_loc["start_line_pos"]\n            _src_loc["end_file_pos"] = _src_loc["start_file_pos"]\n        elif self.edit_type == "create_after":\n            # If we\'re creating _after_, the start point isn\'t relevant.\n            # Make it the same as the end.\n            _src_loc["start_line_no"] = _src_loc["end_line_no"]\n            _src_loc["start_line_pos"] = _src_loc["end_line_pos"]\n            _src_loc["start_file_pos"] = _src_loc["end_file_pos"]\n',
        '        kind = self.edit_type\n        if kind == "create_before":\n            _src_loc["end_line_no"] = _src_loc["start_line_no"]\n            _src_loc["end_line_pos"] = _src_loc["start_line_pos"]\n            _src_loc["end_file_pos"] = _src_loc["start_file_pos"]\n        elif "create_after" == kind:\n            _src_loc["start_line_no"] = _src_loc["end_line_no"]\n            _src_loc["start_line_pos"] = _src_loc["end_line_pos"]\n            _src_loc["start_file_pos"] = _src_loc["end_file_pos"]\n',
        "QUIET", None, 'edit type through a local, one comparison written constant-first',
    ),
    Variant(
        'quiet-r31d-values-through-locals', "src/sqlfluff/core/rules/fix.py",
        '        if self.edit_type == "create_before":\n            # If we\'re creating _before_, the end point isn\'t relevant.\n            # Make it the same as the start.\n            _src_loc["end_line_no"] = _src_loc["start_line_no"]\n            _src_loc["end_line_pos"] = _src_loc["start_line_pos"]\n            _src_loc["end_file_pos"] = _src_loc["start_file_pos"]\n',
        '        if self.edit_type == "create_before":\n            start_line = _src_loc["start_line_no"]\n            start_col = _src_loc["start_line_pos"]\n            start_off = _src_loc["start_file_pos"]\n            _src_loc["end_file_pos"] = start_off\n            _src_loc["end_line_pos"] = start_col\n            _src_loc["end_line_no"] = start_line\n',
        "QUIET", None, 'kept end read into locals first, stores reordered',
    ),
    Variant(
        'quiet-r31d-tuple-assignment', "src/sqlfluff/core/rules/fix.py",
        '        elif self.edit_type == "create_after":\n            # If we\'re creating _after_, the start point isn\'t relevant.\n            # Make it the same as the end.\n            _src_loc["start_line_no"] = _src_loc["end_line_no"]\n            _src_loc["start_line_pos"] = _src_loc["end_line_pos"]\n            _src_loc["start_file_pos"] = _src_loc["end_file_pos"]\n',
        '        elif self.edit_type == "create_after":\n            _src_loc["start_line_no"], _src_loc["start_line_pos"], _src_loc["start_file_pos"] = (\n                _src_loc["end_line_no"],\n                _src_loc["end_line_pos"],\n                _src_loc["end_file_pos"],\n            )\n',
        "QUIET", None, 'three stores as one tuple assignment',
    ),
    Variant(
        'quiet-r31d-update-call', "src/sqlfluff/core/rules/fix.py",
        '        if self.edit_type == "create_before":\n            # If we\'re creating _before_, the end point isn\'t relevant.\n            # Make it the same as the start.\n            _src_loc["end_line_no"] = _src_loc["start_line_no"]\n            _src_loc["end_line_pos"] = _src_loc["start_line_pos"]\n            _src_loc["end_file_pos"] = _src_loc["start_file_pos"]\n',
        '        if self.edit_type == "create_before":\n            _src_loc.update(\n                end_line_no=_src_loc["start_line_no"],\n                end_line_pos=_src_loc["start_line_pos"],\n                end_file_pos=_src_loc["start_file_pos"],\n            )\n',
        "QUIET", None, 'stores as one dict.update call',
    ),
    Variant(
        'quiet-r31d-loop-over-coordinates', "src/sqlfluff/core/rules/fix.py",
        '        if self.edit_type == "create_before":\n            # If we\'re creating _before_, the end point isn\'t relevant.\n            # Make it the same as the start.\n            _src_loc["end_line_no"] = _src_loc["start_line_no"]\n            _src_loc["end_line_pos"] = _src_loc["start_line_pos"]\n            _src_loc["end_file_pos"] = _src_loc["start_file_pos"]\n        elif self.edit_type == "create_after":\n            # If we\'re creating _after_, the start point isn\'t relevant.\n            # Make it the same as the end.\n            _src_loc["start_line_no"] = _src_loc["end_line_no"]\n            _src_loc["start_line_pos"] = _src_loc["end_line_pos"]\n            _src_loc["start_file_pos"] = _src_loc["end_file_pos"]\n',
        '        if self.edit_type in ("create_before", "create_after"):\n            for coord in ("line_no", "line_pos", "file_pos"):\n                if self.edit_type == "create_before":\n                    _src_loc[f"end_{coord}"] = _src_loc[f"start_{coord}"]\n                else:\n                    _src_loc["start_" + coord] = _src_loc["end_" + coord]\n',
        "QUIET", None, 'one loop over the coordinate names, f-string and concatenated keys, else arm of a nested test',
    ),
    Variant(
        'quiet-r31d-rebuilt-dict', "src/sqlfluff/core/rules/fix.py",
        '        elif self.edit_type == "create_after":\n            # If we\'re creating _after_, the start point isn\'t relevant.\n            # Make it the same as the end.\n            _src_loc["start_line_no"] = _src_loc["end_line_no"]\n            _src_loc["start_line_pos"] = _src_loc["end_line_pos"]\n            _src_loc["start_file_pos"] = _src_loc["end_file_pos"]\n',
        '        elif self.edit_type == "create_after":\n            _src_loc = {\n                **_src_loc,\n                "start_line_no": _src_loc["end_line_no"],\n                "start_line_pos": _src_loc["end_line_pos"],\n                "start_file_pos": _src_loc["end_file_pos"],\n            }\n',
        "QUIET", None, 'location dict rebuilt with the three keys overridden',
    ),
    Variant(
        'quiet-r31d-pairs-loop', "src/sqlfluff/core/rules/fix.py",
        '        if self.edit_type == "create_before":\n            # If we\'re creating _before_, the end point isn\'t relevant.\n            # Make it the same as the start.\n            _src_loc["end_line_no"] = _src_loc["start_line_no"]\n            _src_loc["end_line_pos"] = _src_loc["start_line_pos"]\n            _src_loc["end_file_pos"] = _src_loc["start_file_pos"]\n',
        '        if self.edit_type == "create_before":\n            for dst, src in (("end_line_no", "start_line_no"), ("end_line_pos", "start_line_pos"), ("end_file_pos", "start_file_pos")):\n                _src_loc[dst] = _src_loc[src]\n',
        "QUIET", None, 'loop over literal (destination, source) key pairs',
    ),
    # ---- breaking twins of the R31d spellings above
    Variant(
        'r31d-tuple-assignment-crossed', "src/sqlfluff/core/rules/fix.py",
        '        elif self.edit_type == "create_after":\n            # If we\'re creating _after_, the start point isn\'t relevant.\n            # Make it the same as the end.\n            _src_loc["start_line_no"] = _src_loc["end_line_no"]\n            _src_loc["start_line_pos"] = _src_loc["end_line_pos"]\n            _src_loc["start_file_pos"] = _src_loc["end_file_pos"]\n',
        '        elif self.edit_type == "create_after":\n            _src_loc["start_line_no"], _src_loc["start_line_pos"], _src_loc["start_file_pos"] = (\n                _src_loc["end_line_pos"],\n                _src_loc["end_line_no"],\n                _src_loc["end_file_pos"],\n            )\n',
        "R31d", 'LintFix.to_dict', 'twin of quiet-r31d-tuple-assignment: line and column crossed',
    ),
    Variant(
        'r31d-update-call-forgets-file-pos', "src/sqlfluff/core/rules/fix.py",
        '        if self.edit_type == "create_before":\n            # If we\'re creating _before_, the end point isn\'t relevant.\n            # Make it the same as the start.\n            _src_loc["end_line_no"] = _src_loc["start_line_no"]\n            _src_loc["end_line_pos"] = _src_loc["start_line_pos"]\n            _src_loc["end_file_pos"] = _src_loc["start_file_pos"]\n',
        '        if self.edit_type == "create_before":\n            _src_loc.update(\n                end_line_no=_src_loc["start_line_no"],\n                end_line_pos=_src_loc["start_line_pos"],\n            )\n',
        "R31d", 'LintFix.to_dict', 'twin of quiet-r31d-update-call: one coordinate left at the other end',
    ),
    Variant(
        'r31d-loop-copies-onto-itself', "src/sqlfluff/core/rules/fix.py",
        '        if self.edit_type == "create_before":\n            # If we\'re creating _before_, the end point isn\'t relevant.\n            # Make it the same as the start.\n            _src_loc["end_line_no"] = _src_loc["start_line_no"]\n            _src_loc["end_line_pos"] = _src_loc["start_line_pos"]\n            _src_loc["end_file_pos"] = _src_loc["start_file_pos"]\n',
        '        if self.edit_type == "create_before":\n            for coord in ("line_no", "line_pos", "file_pos"):\n                _src_loc[f"end_{coord}"] = _src_loc[f"end_{coord}"]\n',
        "R31d", 'LintFix.to_dict', 'twin of quiet-r31d-loop-over-coordinates: nothing collapsed',
    ),
    Variant(
        'r31d-loop-misses-a-coordinate', "src/sqlfluff/core/rules/fix.py",
        '        if self.edit_type == "create_before":\n            # If we\'re creating _before_, the end point isn\'t relevant.\n            # Make it the same as the start.\n            _src_loc["end_line_no"] = _src_loc["start_line_no"]\n            _src_loc["end_line_pos"] = _src_loc["start_line_pos"]\n            _src_loc["end_file_pos"] = _src_loc["start_file_pos"]\n',
        '        if self.edit_type == "create_before":\n            for coord in ("line_no", "line_pos"):\n                _src_loc[f"end_{coord}"] = _src_loc[f"start_{coord}"]\n',
        "R31d", 'LintFix.to_dict', 'twin of quiet-r31d-loop-over-coordinates: file_pos not in the loop',
    ),
    Variant(
        'r31d-local-holds-the-wrong-coordinate', "src/sqlfluff/core/rules/fix.py",
        '        if self.edit_type == "create_before":\n            # If we\'re creating _before_, the end point isn\'t relevant.\n            # Make it the same as the start.\n            _src_loc["end_line_no"] = _src_loc["start_line_no"]\n            _src_loc["end_line_pos"] = _src_loc["start_line_pos"]\n            _src_loc["end_file_pos"] = _src_loc["start_file_pos"]\n',
        '        if self.edit_type == "create_before":\n            start_line = _src_loc["start_line_no"]\n            start_col = _src_loc["start_line_pos"]\n            _src_loc["end_line_no"] = start_col\n            _src_loc["end_line_pos"] = start_line\n            _src_loc["end_file_pos"] = _src_loc["start_file_pos"]\n',
        "R31d", 'LintFix.to_dict', 'twin of quiet-r31d-values-through-locals',
    ),
    Variant(
        'r31d-pairs-loop-crossed', "src/sqlfluff/core/rules/fix.py",
        '        if self.edit_type == "create_before":\n            # If we\'re creating _before_, the end point isn\'t relevant.\n            # Make it the same as the start.\n            _src_loc["end_line_no"] = _src_loc["start_line_no"]\n            _src_loc["end_line_pos"] = _src_loc["start_line_pos"]\n            _src_loc["end_file_pos"] = _src_loc["start_file_pos"]\n',
        '        if self.edit_type == "create_before":\n            for dst, src in (("end_line_no", "start_line_pos"), ("end_line_pos", "start_line_no"), ("end_file_pos", "start_file_pos")):\n                _src_loc[dst] = _src_loc[src]\n',
        "R31d", 'LintFix.to_dict', 'twin of quiet-r31d-pairs-loop',
    ),
    Variant(
        'r31d-nested-else-also-covers-replace', "src/sqlfluff/core/rules/fix.py",
        '        if self.edit_type == "create_before":\n            # If we\'re creating _before_, the end point isn\'t relevant.\n            # Make it the same as the start.\n            _src_loc["end_line_no"] = _src_loc["start_line_no"]\n            _src_loc["end_line_pos"] = _src_loc["start_line_pos"]\n            _src_loc["end_file_pos"] = _src_loc["start_file_pos"]\n        elif self.edit_type == "create_after":\n            # If we\'re creating _after_, the start point isn\'t relevant.\n            # Make it the same as the end.\n            _src_loc["start_line_no"] = _src_loc["end_line_no"]\n            _src_loc["start_line_pos"] = _src_loc["end_line_pos"]\n            _src_loc["start_file_pos"] = _src_loc["end_file_pos"]\n',
        '        if self.edit_type == "create_before":\n            _src_loc["end_line_no"] = _src_loc["start_line_no"]\n            _src_loc["end_line_pos"] = _src_loc["start_line_pos"]\n            _src_loc["end_file_pos"] = _src_loc["start_file_pos"]\n        elif self.edit_type != "create_after":\n            pass\n        else:\n            _src_loc["start_line_no"] = _src_loc["end_line_no"]\n            _src_loc["start_file_pos"] = _src_loc["end_file_pos"]\n',
        "R31d", 'LintFix.to_dict', 'create_after reached through a negated test, one coordinate dropped',
    ),
    # ---- breaking twins of the quiet spellings above ---------------------------------------------
    Variant(
        "default-source-override-when-source", TBASE,
        '        if source:\n            ref_str = self._source_newlines\n        else:\n            ref_str = self._templated_newlines\n',
        '        ref_str = self._source_newlines\n        if source:\n            ref_str = self._templated_newlines\n',
        "R31a", "get_line_pos_of_char_pos", 'twin of quiet-default-then-override: tables swapped',
    ),
    Variant(
        "default-not-overridden", TBASE,
        '        if source:\n            ref_str = self._source_newlines\n        else:\n            ref_str = self._templated_newlines\n',
        '        ref_str = self._templated_newlines\n        if source and char_pos:\n            ref_str = self._source_newlines\n',
        "R31a", "get_line_pos_of_char_pos", 'twin of quiet-default-then-override: the default survives when source is set and the offset is 0',
    ),
    Variant(
        "bisect-keyword-other-offset", TBASE,
        '        nl_idx = bisect_left(ref_str, char_pos)\n',
        '        nl_idx = bisect_left(ref_str, x=char_pos + 1)\n',
        "R31c", "get_line_pos_of_char_pos", 'twin of quiet-bisect-keyword',
    ),
    Variant(
        "newline-local-crlf", TBASE,
        '        nl_pos = raw_str.find("\\n", init_idx + 1)\n',
        '        newline = "\\r\\n"\n        nl_pos = raw_str.find(newline, init_idx + 1)\n',
        "R31c", "infer_next_position", 'twin of quiet-finder-newline-constant',
    ),
    # ---- breaking edits -----------------------------------------------------------------------------
    Variant(
        "source-table-built-from-rendered-text", TBASE,
        "        self._source_newlines = list(iter_indices_of_newlines(self.source_str))\n",
        "        self._source_newlines = list(iter_indices_of_newlines(self.templated_str))\n",
        "R31a", "_source_newlines",
    ),
    Variant(
        "rendered-table-built-from-source-parameter", TBASE,
        "        self._templated_newlines = list(iter_indices_of_newlines(self.templated_str))\n",
        "        self._templated_newlines = list(iter_indices_of_newlines(source_str))\n",
        "R31a", "_templated_newlines",
    ),
    Variant(
        "converter-tables-swapped", TBASE,
        "        if source:\n            ref_str = self._source_newlines\n",
        "        if not source:\n            ref_str = self._source_newlines\n",
        "R31a", "get_line_pos_of_char_pos",
    ),
    Variant(
        "converter-always-source-table", TBASE,
        "        else:\n            ref_str = self._templated_newlines\n\n        nl_idx = bisect_left(ref_str, char_pos)\n",
        "        else:\n            ref_str = self._source_newlines\n\n        nl_idx = bisect_left(ref_str, char_pos)\n",
        "R31a", "get_line_pos_of_char_pos",
    ),
    Variant(
        "visual-column-walks-source-table", MARKERS,
        "        for newline_idx in self.templated_file._templated_newlines:\n",
        "        for newline_idx in self.templated_file._source_newlines:\n",
        "R31a", "working_visual_column",
    ),
    Variant(
        "rendered-text-normalised-after-tables", TBASE,
        "        # Consistency check raw string and slices.\n        pos = 0\n",
        "        self.templated_str = self.templated_str.rstrip(\" \")\n        # Consistency check raw string and slices.\n        pos = 0\n",
        "R31b", "TemplatedFile.__init__", "text changed after its table was computed",
    ),
    Variant(
        "second-writer-in-linter", LINTER,
        "        linter_logger.info(\"LEXING RAW (%s)\", templated_file.fname)\n",
        "        linter_logger.info(\"LEXING RAW (%s)\", templated_file.fname)\n        templated_file.templated_str = templated_file.templated_str.expandtabs(4)\n",
        "R31b", "_lex_templated_file", "another module rewrites the rendered text; the table is stale",
    ),
    Variant(
        "table-extended-in-place-by-reader", MARKERS,
        "        line_start_idx = 0\n        for newline_idx in self.templated_file._templated_newlines:\n",
        "        line_start_idx = 0\n        self.templated_file._templated_newlines.append(len(self.templated_file.templated_str))\n        for newline_idx in self.templated_file._templated_newlines:\n",
        "R31b", "working_visual_column",
    ),
    Variant(
        "setattr-writer-in-from-string", TBASE,
        "        return cls(source_str=raw, fname=\"<string>\")\n",
        "        tf = cls(source_str=raw, fname=\"<string>\")\n        setattr(tf, \"_source_newlines\", [])\n        return tf\n",
        "R31b", "from_string",
    ),
    Variant(
        "column-from-the-other-table", TBASE,
        "            return nl_idx + 1, char_pos - ref_str[nl_idx - 1]\n",
        "            return nl_idx + 1, char_pos - self._source_newlines[nl_idx - 1]\n",
        "R31c", "get_line_pos_of_char_pos",
    ),
    Variant(
        "bisect-on-shifted-offset", TBASE,
        "        nl_idx = bisect_left(ref_str, char_pos)\n",
        "        nl_idx = bisect_left(ref_str, char_pos + 1)\n",
        "R31c", "get_line_pos_of_char_pos",
    ),
    Variant(
        "working-lines-by-splitlines", MARKERS,
        "        split = raw.split(\"\\n\")\n",
        "        split = raw.splitlines()\n",
        "R31c", "infer_next_position", "form feed / CR now start a working line but not a table line",
    ),
    Variant(
        "tables-count-carriage-returns", TBASE,
        "        nl_pos = raw_str.find(\"\\n\", init_idx + 1)\n",
        "        nl_pos = raw_str.find(\"\\r\", init_idx + 1)\n",
        "R31c", None,
    ),
    Variant(
        "infer-next-line-from-column", MARKERS,
        "            line_no + len(split) - 1,\n",
        "            line_pos + len(split) - 1,\n",
        "R31c", "infer_next_position",
    ),
]
