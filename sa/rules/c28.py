"""C28 — parse output is a faithful serialisation of the tree (DESIGN §3 C28, minimal claim).

Decided: wiring facts without which the parse output cannot list every token of the file with
its text in file order.

R28a  requests.  Every method call of ``as_record`` / ``to_tuple`` in the tree outside the
      serialiser's own recursion (today: the ``parse`` CLI command and ``api.simple.parse``)
      passes ``show_raw=True``; ``code_only`` and ``include_meta`` are either left at their
      default (False), the constant False, or the enclosing command's own parameter (the user's
      ``--code-only`` / ``--include-meta`` flag, whose click option is a plain flag) — never a
      constant True (placeholders would put *source* text between the rendered tokens, code-only
      drops whitespace and comments).  ``as_record`` forwards its keyword arguments unchanged to
      ``self.to_tuple`` and simplifies exactly that tuple.  ``api.simple.parse`` returns that
      record and the CLI's ``segments`` entry is that record (or None).  Human format: every
      ``stringify`` call of the formatter receives the command's ``code_only`` parameter.
R28b  record merge.  In ``structural_simplify`` the child records are merged into one dict only
      where the keys of *all* children were found pairwise distinct (``len(set(keys)) ==
      len(keys)`` over an unfiltered list of every child's keys); otherwise the list itself is
      stored; the children are simplified by a comprehension over the whole value tuple.
R28c  traversal.  In ``BaseSegment.to_tuple`` every child loop iterates ``self.segments`` itself
      (no filtered / sorted / reversed / sliced view), appends the recursive ``to_tuple`` of the
      loop variable with the four options passed through unchanged, and returns
      ``(type, tuple(<that list>))``; where ``code_only`` is false the only filter is
      ``include_meta or not <child>.is_meta``; the leaf arm (``show_raw`` and no children)
      returns ``(type, self.raw)`` with ``self.raw`` unmodified.  ``to_tuple`` / ``as_record`` /
      ``structural_simplify`` are overridden only by meta segment classes (``is_meta = True``),
      which the parent filters.  Human format: ``stringify`` visits children through
      ``self.segments`` in order (a partitioned view such as ``_comments`` + ``_non_comments`` is
      reported when a segment class enables it); a raw segment's line is its ``_preface``, which
      embeds ``_suffix()``, which embeds ``self.raw``; non-meta raw classes do not override it.

NOT decided: that ``self.segments`` / ``raw`` hold what the parser matched (C02), YAML/JSON
encoding of strings, key order preservation by ``yaml.dump``/``json.dumps`` (``sort_keys=False``
is not checked), that ``raw`` texts concatenate to the rendered file.
"""

from __future__ import annotations

import ast
from typing import Dict, List, Optional, Set, Tuple

from ..cfg import cfg_of, origins
from ..flowutil import attr_chain, for_origin, is_fresh_list, mutations_of, param_origin
from ..idioms import conditions_at
from ..index import AnalysisError, FuncNode, arg_of, call_name, calls_in, enclosing_class, enclosing_function, kwarg, last_attr, norm, short, walk_local
from ..spacekinds import attr_path, leaves

SEGBASE = "src/sqlfluff/core/parser/segments/base.py"
SEGRAW = "src/sqlfluff/core/parser/segments/raw.py"
CMDS = "src/sqlfluff/cli/commands.py"
API = "src/sqlfluff/api/simple.py"
FMT = "src/sqlfluff/cli/formatters.py"
SERIALISERS = ("to_tuple", "as_record", "structural_simplify")
OPTS = ("code_only", "show_raw", "include_meta", "include_position")


def run(chk) -> None:
    repo = chk.repo
    chk.rule("R28a", "every serialisation request (parse command, api.simple.parse) asks for leaf text (show_raw=True) and never forces code_only / include_meta to True; as_record forwards its options to to_tuple unchanged; the entry points hand out that record")
    chk.rule("R28b", "structural_simplify merges child records into one dict only under a dominating test that the keys of all children are pairwise distinct; otherwise it keeps the ordered list")
    chk.rule("R28c", "the serialisers visit self.segments itself, in order, recursing with unchanged options; without code_only only meta segments are filtered; leaves carry self.raw unmodified; only meta classes override a serialiser")
    _r28a(chk, repo)
    _r28b(chk, repo)
    chk.rule("R28d", "the human parse output prints, under each variant's heading, the tree of that variant: inside a loop over the parsed variants every stringify() receiver derives from the loop's own element")
    _r28d(chk, repo)
    chk.rule("R28e", "each record the parse / lint commands and the simple API build in a loop describes the item of that iteration: no value placed in a record built inside a loop is a local whose in-loop assignment can reach the record only from an earlier iteration")
    _r28e(chk, repo)
    chk.rule("R28f", "the two child lists the human tree output of an unparsable section walks (comments, then the rest) partition self.segments: one comprehension over self.segments with a test, the other with the negation of the same test")
    _r28f(chk, repo)
    chk.rule("R28g", "the human tree output shows each node's type and each token's text in full: the functions that format a line (_preface, _suffix, stringify) apply no precision to a text field, no slice and no shortening helper to the type or the raw text")
    _r28g(chk, repo)
    _r28c(chk, repo)
    chk.rule("R28h", "the machine-readable parse output keeps the key order of the records (children with distinct types are one mapping whose order IS the file order): in the parse command json.dumps is called without sort_keys (or with the constant False) and yaml.dump with the constant sort_keys=False")
    _r28h(chk, repo)
    chk.rule("R28i", "structural_simplify turns only an empty child TUPLE into null: the store of None under `not value` is reached only where value is known not to be a str (the leaf return for strings dominates it), so a zero-width token keeps its (empty) text")
    _r28i(chk, repo)
    chk.note("Claimed at the weakest level: these are wiring facts of the serialiser, not a proof that the listed texts concatenate to the rendered SQL.")


# ---------------------------------------------------------------------------
R28E_SCOPE = ("src/sqlfluff/cli/commands.py", "src/sqlfluff/api/simple.py", "src/sqlfluff/core/linter/linted_dir.py", "src/sqlfluff/core/linter/linting_result.py")


def _r28h(chk, repo) -> None:
    f = repo.fn(CMDS, "parse")
    n = 0
    for c in calls_in(f):
        cn = call_name(c) or ""
        if cn.endswith("json.dumps") or cn == "dumps":
            n += 1
            k = kwarg(c, "sort_keys")
            chk.require(
                k is None or (isinstance(k, ast.Constant) and k.value is False), "R28h", c,
                f"the parse command serialises its records with json.dumps(sort_keys={short(k, 40) if k is not None else ''}): a node whose children have distinct types is one JSON object whose key "
                "order is the file order; sorted, the tokens come out of order and their texts no longer concatenate to the SQL",
                detail="parse: json.dumps keeps the key order",
            )
        elif cn.endswith("yaml.dump") or cn.endswith("yaml.safe_dump"):
            n += 1
            k = kwarg(c, "sort_keys")
            chk.require(
                isinstance(k, ast.Constant) and k.value is False, "R28h", c,
                "the parse command serialises its records with yaml.dump without the constant sort_keys=False (PyYAML sorts mapping keys by default): children of a node come out in alphabetical, "
                "not file, order",
                detail="parse: yaml.dump keeps the key order",
            )
    chk.count("R28h.dump_calls", n)
    chk.floor("R28h.dump_calls", 2)


def _r28i(chk, repo) -> None:
    f = repo.fn(SEGBASE, "BaseSegment.structural_simplify")
    cfg = cfg_of(f)
    params = [a.arg for a in f.args.args]
    n = 0
    for st in walk_local(f):
        if not (isinstance(st, ast.Assign) and len(st.targets) == 1 and isinstance(st.targets[0], ast.Subscript) and isinstance(st.value, ast.Constant) and st.value.value is None):
            continue
        n += 1
        conds = conditions_at(cfg, st)
        # the value whose emptiness decides
        empt = [e.operand for e, pol in conds if pol and isinstance(e, ast.UnaryOp) and isinstance(e.op, ast.Not)] + [e for e, pol in conds if not pol and isinstance(e, (ast.Name, ast.Attribute))]
        for e, pol in conds:
            # len(V) == 0 / len(V) < 1 / V == () (and their negations on the other arm)
            if isinstance(e, ast.Compare) and len(e.ops) == 1:
                l, r, op = e.left, e.comparators[0], e.ops[0]
                if isinstance(l, ast.Call) and call_name(l) == "len" and l.args and isinstance(r, ast.Constant):
                    if (pol and ((isinstance(op, ast.Eq) and r.value == 0) or (isinstance(op, ast.Lt) and r.value == 1) or (isinstance(op, ast.LtE) and r.value == 0))) \
                            or (not pol and ((isinstance(op, (ast.NotEq, ast.Gt)) and r.value == 0) or (isinstance(op, ast.GtE) and r.value == 1))):
                        empt.append(l.args[0])
                elif isinstance(r, ast.Tuple) and not r.elts and ((pol and isinstance(op, ast.Eq)) or (not pol and isinstance(op, ast.NotEq))):
                    empt.append(l)
        not_str = any(isinstance(e, ast.Compare) and len(e.ops) == 1 and isinstance(e.comparators[0], ast.Tuple) and not e.comparators[0].elts and ((pol and isinstance(e.ops[0], ast.Eq)) or (not pol and isinstance(e.ops[0], ast.NotEq))) for e, pol in conds)
        for e, pol in conds:
            if isinstance(e, ast.Call) and call_name(e) == "isinstance" and len(e.args) == 2:
                ty = norm(e.args[1])
                if not pol and "str" in ty and any(norm(e.args[0]) == norm(v) for v in empt):
                    not_str = True
                if pol and "tuple" in ty and "str" not in ty and any(norm(e.args[0]) == norm(v) for v in empt):
                    not_str = True
        for a in walk_local(f):
            if isinstance(a, ast.Assert) and cfg.dominates(a, st) and isinstance(a.test, ast.Call) and call_name(a.test) == "isinstance" and len(a.test.args) == 2 \
                    and "tuple" in norm(a.test.args[1]) and "str" not in norm(a.test.args[1]) and any(norm(a.test.args[0]) == norm(v) for v in empt):
                not_str = True
        chk.require(
            bool(empt) and not_str, "R28i", st,
            "structural_simplify writes null for an empty value before it has established that the value is not a string: a zero-width token (indent, dedent, end of file, an empty placeholder) "
            "is serialised as `type: null` -- the representation of a node without children -- and its text is lost",
            detail="structural_simplify: null only for an empty tuple",
        )
    chk.count("R28i.null_stores", n)
    chk.floor("R28i.null_stores", 1)


def _r28g(chk, repo) -> None:
    import re as _re

    targets = []
    for rel in ("src/sqlfluff/core/parser/segments/base.py", "src/sqlfluff/core/parser/segments/raw.py", "src/sqlfluff/core/parser/segments/meta.py"):
        for q, f in repo.mod(rel).functions():
            if f.name in ("_preface", "_suffix", "stringify"):
                targets.append((rel, q, f))
    chk.count("R28g.line_formatters", len(targets))
    chk.floor("R28g.line_formatters", 3)
    for rel, q, f in targets:
        for x in ast.walk(f):
            bad = None
            if isinstance(x, ast.FormattedValue) and x.format_spec is not None:
                spec = "".join(v.value for v in x.format_spec.values if isinstance(v, ast.Constant) and isinstance(v.value, str))
                if _re.search(r"\.\d", spec) and not spec.rstrip().endswith(("f", "e", "g", "%")):
                    bad = f"the format spec `{spec}` cuts the field `{short(x.value, 30)}` to a maximum width"
            if isinstance(x, ast.Call) and isinstance(x.func, ast.Attribute) and x.func.attr == "format":
                if isinstance(x.func.value, ast.Constant) and isinstance(x.func.value.value, str) and _re.search(r":[^}]*\.\d+[^}fge%]*}", x.func.value.value):
                    bad = f"the template `{x.func.value.value}` has a precision on a text field"
            if isinstance(x, ast.Call) and (last_attr(x) in ("curtail_string", "shorten", "ljust_truncate") or (isinstance(x.func, ast.Name) and "curtail" in x.func.id)):
                bad = f"`{short(x, 40)}` shortens the text"
            if isinstance(x, ast.Subscript) and isinstance(x.slice, ast.Slice) and any(isinstance(y, ast.Attribute) and y.attr in ("raw", "raw_upper") for y in ast.walk(x.value)):
                bad = f"`{short(x, 40)}` takes a part of the raw text"
            if bad:
                chk.fail(
                    "R28g", x,
                    f"{q}: {bad}: deeply nested nodes lose (part of) their type and long tokens their text in the human `sqlfluff parse` output, so the listed texts no longer "
                    "concatenate to the SQL",
                    detail=f"{q}: type and text are printed in full",
                )


def _r28f(chk, repo) -> None:
    SEGBASE_ = "src/sqlfluff/core/parser/segments/base.py"
    a = repo.fn(SEGBASE_, "BaseSegment._comments")
    b = repo.fn(SEGBASE_, "BaseSegment._non_comments")

    def shape(f):
        cfg = cfg_of(f)
        rets = [r for r in walk_local(f) if isinstance(r, ast.Return) and r.value is not None]
        if len(rets) != 1:
            return None
        v = rets[0].value
        if isinstance(v, ast.Name):
            os_ = origins(cfg, v, rets[0])
            v = os_[0].expr if len(os_) == 1 and os_[0].kind == "expr" else v
        if isinstance(v, ast.Call) and call_name(v) in ("list", "tuple") and len(v.args) == 1:
            v = v.args[0]
        if not (isinstance(v, (ast.ListComp, ast.GeneratorExp)) and len(v.generators) == 1 and isinstance(v.generators[0].target, ast.Name)):
            return None
        g = v.generators[0]
        if not (isinstance(v.elt, ast.Name) and v.elt.id == g.target.id and norm(g.iter) == "self.segments" and len(g.ifs) == 1):
            return None
        t, neg = g.ifs[0], False
        while isinstance(t, ast.UnaryOp) and isinstance(t.op, ast.Not):
            t, neg = t.operand, not neg
        import copy
        t2 = copy.deepcopy(t)
        for x in ast.walk(t2):
            if isinstance(x, ast.Name) and x.id == g.target.id:
                x.id = "$"
        return norm(t2), neg

    sa_, sb_ = shape(a), shape(b)
    if sa_ is None or sb_ is None:
        raise AnalysisError("R28f: _comments / _non_comments are no longer single filtered comprehensions over self.segments; re-confirm the anchor by hand")
    chk.require(
        sa_[0] == sb_[0] and sa_[1] != sb_[1], "R28f", b,
        f"_comments keeps children with `{'not ' if sa_[1] else ''}{sa_[0]}` and _non_comments those with `{'not ' if sb_[1] else ''}{sb_[0]}`: the two lists no longer partition the children, "
        "so the human output of an unparsable section that holds a comment loses (or repeats) tokens",
        detail="_comments / _non_comments partition self.segments",
    )


def _r28e(chk, repo) -> None:
    """`x = None` before the loop, `if ok: x = f(item)` inside it, `records.append({.., "k": x})`: an item
    for which the branch is not taken is reported with the previous item's value."""
    from ..cfg import defs_of_stmt

    n_rec = 0
    for rel in R28E_SCOPE:
        m = repo.mod(rel)
        for q, f in m.functions():
            loops = [l for l in walk_local(f) if isinstance(l, ast.For)]
            if not loops:
                continue
            cfg = cfg_of(f)
            rd = cfg.reaching()
            for l in loops:
                inside = {id(x) for b in l.body for x in ast.walk(b)}
                for d in [x for b in l.body for x in ast.walk(b) if isinstance(x, ast.Dict)]:
                    st = cfg.stmt_of(d)
                    if st is None:
                        continue
                    n_rec += 1
                    for v in [x for x in d.values if isinstance(x, ast.Name)]:
                        defs = rd.defs_at(st, v.id)
                        inner = [x for x in defs if x.stmt is not None and id(x.stmt) in inside and x.kind == "assign"]
                        if not inner or all(id(x.stmt) in inside for x in defs if x.stmt is not None) and not any(x.stmt is None for x in defs):
                            # only in-loop definitions reach: decide below whether one of them arrives around the back edge
                            pass
                        for x in inner:
                            # self-referential / accumulating definitions are intended to carry over
                            if any(isinstance(y, ast.Name) and y.id == v.id for y in ast.walk(x.value)) if x.value is not None else True:
                                continue
                            others = [y for y in cfg.nodes if y is not x.stmt and any(dd.name == v.id for dd in defs_of_stmt(y))]
                            oid = {id(y) for y in others}
                            around = cfg.paths_avoiding(x.stmt, l, lambda nn: id(nn) in oid) and cfg.paths_avoiding(l, st, lambda nn: id(nn) in oid or nn is x.stmt)
                            if around:
                                chk.fail(
                                    "R28e", v,
                                    f"{q}: the record built here takes `{v.id}` from `{short(x.stmt, 50)}`, which can reach it from an EARLIER iteration of the loop (the assignment is not made on every "
                                    f"path of the current one): an item that skips it is reported with the previous item's value (a file that failed to parse gets the previous file's tree)",
                                    detail=f"{q}: record value {v.id} is set in the iteration that uses it",
                                )
                                break
    chk.count("R28e.records_built_in_loops", n_rec)
    chk.floor("R28e.records_built_in_loops", 3)


def _r28d(chk, repo) -> None:
    m = repo.mod(FMT)
    n = 0
    for q, f in m.functions():
        cfg = None
        for loop in walk_local(f):
            if not (isinstance(loop, ast.For) and isinstance(loop.iter, (ast.Attribute, ast.Call)) and "parsed_variants" in norm(loop.iter)):
                continue
            names = {x.id for x in ast.walk(loop.target) if isinstance(x, ast.Name)}
            for c in [x for st in loop.body for x in ast.walk(st) if isinstance(x, ast.Call)]:
                if not (last_attr(c) == "stringify" and isinstance(c.func, ast.Attribute)):
                    continue
                n += 1
                cfg = cfg or cfg_of(f)
                recv = c.func.value
                root = recv
                while isinstance(root, (ast.Attribute, ast.Subscript)):
                    root = root.value
                ok = isinstance(root, ast.Name) and root.id in names
                if not ok and isinstance(root, ast.Name):
                    # a local bound inside the loop to (a member of) the loop element
                    os_ = origins(cfg, root, cfg.stmt_of(c))
                    ok = bool(os_) and all(
                        o.kind == "expr" and any(isinstance(x, ast.Name) and x.id in names for x in ast.walk(o.expr)) for o in os_
                    )
                chk.require(
                    ok, "R28d", c,
                    f"{q}: inside the loop over the parsed variants `{short(c, 70)}` prints a tree that does not belong to the variant of this iteration: every "
                    "'Variant N:' section then lists the same tokens, and the output no longer lists the tokens of the rendering it is labelled with",
                    detail=f"{q}: per-variant output prints the loop variant's tree",
                )
    chk.count("R28d.per_variant_stringify_sites", n)
    chk.floor("R28d.per_variant_stringify_sites", 1)


def _is_false_or_param(cfg, fn, e, at) -> Tuple[bool, str]:
    if e is None:
        return True, "default"
    bad = []
    for x, path, kind in leaves(cfg, e, at):
        if kind == "param" and not path:
            continue
        if kind == "expr" and isinstance(x, ast.Constant) and x.value in (False, None):
            continue
        bad.append(short(x, 40) if isinstance(x, ast.AST) else str(x))
    return (not bad), ", ".join(bad)


def _method_sites(repo, names) -> List[ast.Call]:
    out = []
    for m in repo.iter_modules():
        if not any(n in m.text for n in names):
            continue
        for c in ast.walk(m.tree):
            if isinstance(c, ast.Call) and isinstance(c.func, ast.Attribute) and c.func.attr in names:
                out.append(c)
    return out


def _r28a(chk, repo) -> None:
    base_tt = repo.fn(SEGBASE, "BaseSegment.to_tuple")
    as_rec = repo.fn(SEGBASE, "BaseSegment.as_record")
    tt_params = [a.arg for a in base_tt.args.args][1:]
    for o in OPTS:
        if o not in tt_params:
            raise AnalysisError(f"BaseSegment.to_tuple no longer has option '{o}'")
    dflt = dict(zip(tt_params[-len(base_tt.args.defaults):], base_tt.args.defaults)) if base_tt.args.defaults else {}
    for o in ("code_only", "show_raw", "include_meta"):
        d = dflt.get(o)
        if not (isinstance(d, ast.Constant) and d.value is False):
            raise AnalysisError(f"BaseSegment.to_tuple: default of '{o}' is no longer False; re-read the rule")
    # (1) as_record forwards unchanged
    acfg = cfg_of(as_rec)
    kw = as_rec.args.kwarg.arg if as_rec.args.kwarg else None
    rets = [r for r in walk_local(as_rec) if isinstance(r, ast.Return) and r.value is not None]
    chk.count("R28a.as_record_returns", len(rets))
    chk.floor("R28a.as_record_returns", 1)
    for r in rets:
        good, why = False, "does not return structural_simplify(self.to_tuple(**kwargs))"
        for e, path, kind in leaves(acfg, r.value, r):
            if kind == "expr" and isinstance(e, ast.Call) and isinstance(e.func, ast.Attribute) and e.func.attr == "structural_simplify" and len(e.args) == 1 and not e.keywords:
                inner = [x for x, p, k in leaves(acfg, e.args[0], acfg.stmt_of(e))]
                if len(inner) == 1 and isinstance(inner[0], ast.Call) and isinstance(inner[0].func, ast.Attribute) and inner[0].func.attr == "to_tuple":
                    tc = inner[0]
                    recv = attr_path(acfg, tc.func.value, acfg.stmt_of(tc))
                    fwd = [k for k in tc.keywords if k.arg is None]
                    pinned = [k.arg for k in tc.keywords if k.arg is not None]
                    if recv == [("self",)] and kw and len(fwd) == 1 and param_origin(acfg, fwd[0].value, acfg.stmt_of(tc)) == kw and not pinned and not tc.args:
                        good = True
                    else:
                        why = f"to_tuple is called as {short(tc, 70)}: the caller's options are not forwarded unchanged"
        chk.require(good, "R28a", r, f"as_record {why}", detail="as_record = structural_simplify(self.to_tuple(**kwargs))")
    if kw:
        for k, n in mutations_of(as_rec, kw):
            chk.fail("R28a", n, f"as_record changes its options ('{k}') before forwarding them", detail=f"as_record options {k}")
        for st in walk_local(as_rec):
            if isinstance(st, ast.Assign) and any(isinstance(t, ast.Name) and t.id == kw for t in st.targets):
                chk.fail("R28a", st, "as_record rebinds its options before forwarding them", detail="as_record options rebound")

    # (2) request sites
    internal = {id(base_tt), id(as_rec), id(repo.fn(SEGBASE, "BaseSegment.structural_simplify"))}
    sites = []
    for c in _method_sites(repo, ("as_record", "to_tuple")):
        fn = enclosing_function(c)
        cls = enclosing_class(fn) if fn is not None else None
        if fn is not None and (id(fn) in internal or (fn.name in SERIALISERS and cls is not None)):
            continue  # the recursion itself (R28c)
        sites.append(c)
    chk.count("R28a.request_sites", len(sites))
    chk.floor("R28a.request_sites", 2)
    for c in sites:
        fn = enclosing_function(c)
        if fn is None:
            chk.fail("R28a", c, "serialisation requested at module level", detail="request outside a function")
            continue
        cfg = cfg_of(fn)
        st = cfg.stmt_of(c)
        where = f"{c._module.relpath}::{getattr(fn, '_qualname', fn.name)}"
        if any(k.arg is None for k in c.keywords) or any(isinstance(a, ast.Starred) for a in c.args):
            chk.fail("R28a", c, "serialisation options passed by unpacking: they cannot be traced", detail=f"{c.func.attr}(**options)")
            continue
        opts = {}
        for i, o in enumerate(tt_params):
            opts[o] = kwarg(c, o) if c.func.attr == "as_record" else arg_of(c, i, o)
        if c.func.attr == "as_record" and c.args:
            chk.fail("R28a", c, "as_record takes keyword options only", detail="as_record positional argument")
            continue
        sr = opts.get("show_raw")
        sr_ok = sr is not None and all(kind == "expr" and isinstance(x, ast.Constant) and x.value is True for x, p, kind in leaves(cfg, sr, st))
        chk.require(
            sr_ok, "R28a", c,
            f"{where} serialises the tree with show_raw={short(sr, 30) if sr is not None else 'default False'}: leaf tokens are emitted without their text",
            detail=f"{fn.name}: show_raw=True",
        )
        for o in ("code_only", "include_meta"):
            ok, bad = _is_false_or_param(cfg, fn, opts.get(o), st)
            chk.require(
                ok, "R28a", c,
                f"{where} forces {o}={bad}: " + ("whitespace and comment tokens are dropped from the output" if o == "code_only" else "placeholder segments put source text between the rendered tokens"),
                detail=f"{fn.name}: {o} is default/False/the caller's switch",
            )
        chk.sample({"rule": "R28a", "site": f"{c._module.relpath}:{c.lineno}", "call": short(c, 110)})

    # (3) entry points hand out that record
    api = repo.fn(API, "parse")
    cfg = cfg_of(api)
    rets = [r for r in walk_local(api) if isinstance(r, ast.Return) and r.value is not None]
    ok = bool(rets)
    for r in rets:
        for e, path, kind in leaves(cfg, r.value, r):
            if not (kind == "expr" and not path and isinstance(e, ast.Call) and isinstance(e.func, ast.Attribute) and e.func.attr == "as_record" and any(e is s for s in sites)):
                ok = False
    chk.require(ok, "R28a", api, "api.simple.parse does not return the record produced by <tree>.as_record(..)", detail="api.simple.parse returns tree.as_record(..)")
    cmd = repo.fn(CMDS, "parse")
    ccfg = cfg_of(cmd)
    n_seg = 0
    for d in [n for n in walk_local(cmd) if isinstance(n, ast.Dict)]:
        for k, v in zip(d.keys, d.values):
            if isinstance(k, ast.Constant) and k.value == "segments":
                n_seg += 1
                lv = leaves(ccfg, v, ccfg.stmt_of(d))
                recs = [e for e, p, kind in lv if kind == "expr" and isinstance(e, ast.Call) and any(e is s for s in sites)]
                others = [e for e, p, kind in lv if not (kind == "expr" and ((isinstance(e, ast.Call) and any(e is s for s in sites)) or (isinstance(e, ast.Constant) and e.value is None)))]
                chk.require(
                    bool(recs) and not others, "R28a", d,
                    f"the 'segments' entry of the parse output is {', '.join(short(e, 40) for e in others) or 'never a record'}, not the tree's as_record(..)",
                    detail="parse output 'segments' = tree.as_record(..) or None",
                )
    chk.count("R28a.cli_segments_entries", n_seg)
    chk.floor("R28a.cli_segments_entries", 1)

    # (4) human format
    pov = repo.fn(FMT, "OutputStreamFormatter.print_out_violations_and_timing")
    pcfg = cfg_of(pov)
    pparams = [a.arg for a in pov.args.args]
    if "code_only" not in pparams:
        raise AnalysisError("print_out_violations_and_timing no longer takes code_only")
    n_str = 0
    for c in calls_in(pov):
        if isinstance(c.func, ast.Attribute) and c.func.attr == "stringify":
            n_str += 1
            a = arg_of(c, 2, "code_only")
            good = a is not None and isinstance(a, ast.Name) and param_origin(pcfg, a, pcfg.stmt_of(c)) == "code_only"
            chk.require(
                good or a is None, "R28a", c,
                f"the human parse output renders the tree with code_only={short(a, 30) if a is not None else 'default'} instead of the command's switch",
                detail="formatter: stringify(code_only=<command switch>)",
            )
    chk.count("R28a.formatter_stringify_calls", n_str)
    chk.floor("R28a.formatter_stringify_calls", 1)
    n_pov = 0
    for c in calls_in(cmd):
        if isinstance(c.func, ast.Attribute) and c.func.attr == pov.name:
            n_pov += 1
            a = arg_of(c, pparams.index("code_only") - 1, "code_only")
            chk.require(
                a is not None and isinstance(a, ast.Name) and param_origin(ccfg, a, ccfg.stmt_of(c)) == "code_only", "R28a", c,
                f"the parse command passes {short(a, 30) if a is not None else 'nothing'} as the formatter's code_only", detail="parse -> formatter code_only = the command's switch",
            )
    chk.count("R28a.cli_human_calls", n_pov)
    chk.floor("R28a.cli_human_calls", 1)
    # the command's switches are plain flags (default off)
    for flag in ("--code-only", "--include-meta"):
        found = False
        for d in cmd.decorator_list:
            if isinstance(d, ast.Call) and call_name(d).endswith("option") and any(isinstance(a, ast.Constant) and a.value == flag for a in d.args):
                found = True
                is_flag = kwarg(d, "is_flag")
                dv = kwarg(d, "default")
                chk.require(
                    isinstance(is_flag, ast.Constant) and is_flag.value is True and (dv is None or (isinstance(dv, ast.Constant) and not dv.value)), "R28a", d,
                    f"the {flag} switch of the parse command is not a plain off-by-default flag", detail=f"parse {flag} is an off-by-default flag",
                )
        if not found:
            raise AnalysisError(f"R28a: parse command has no {flag} option any more")


# ---------------------------------------------------------------------------
def _r28b(chk, repo) -> None:
    f = repo.fn(SEGBASE, "BaseSegment.structural_simplify")
    cfg = cfg_of(f)
    params = [a.arg for a in f.args.args]
    elem = params[1] if len(params) > 1 else None
    if elem is None:
        raise AnalysisError("structural_simplify has no element parameter")
    # the recursion over the children
    rec = []
    for n in walk_local(f):
        if isinstance(n, ast.ListComp) and isinstance(n.elt, ast.Call) and isinstance(n.elt.func, ast.Attribute) and n.elt.func.attr == f.name:
            rec.append(n)
    chk.count("R28b.child_recursions", len(rec))
    if not rec:
        raise AnalysisError("R28b: structural_simplify no longer simplifies its children with a list comprehension (re-read it)")
    contents_names: Set[str] = set()
    for lc in rec:
        g = lc.generators
        ok = len(g) == 1 and not g[0].ifs and isinstance(g[0].target, ast.Name) and len(lc.elt.args) == 1 and isinstance(lc.elt.args[0], ast.Name) and lc.elt.args[0].id == g[0].target.id
        chk.require(ok, "R28b", lc, "the children of a node are simplified through a filtered or reshaped comprehension: some child records are dropped", detail="children simplified by an unfiltered comprehension")
        p = getattr(lc, "_parent", None)
        if isinstance(p, ast.Assign) and len(p.targets) == 1 and isinstance(p.targets[0], ast.Name):
            contents_names.add(p.targets[0].id)
    if not contents_names:
        raise AnalysisError("R28b: the list of simplified children is not bound to a local")

    def is_contents(e, at) -> bool:
        return isinstance(e, ast.Name) and all(o.kind == "expr" and any(o.expr is lc for lc in rec) for o in origins(cfg, e, at)) and bool(origins(cfg, e, at))

    # stores into the result under the element's key
    merges, lists = [], []
    for st in walk_local(f):
        if not (isinstance(st, ast.Assign) and len(st.targets) == 1 and isinstance(st.targets[0], ast.Subscript)):
            continue
        v = st.value
        if is_contents(v, st):
            lists.append(st)
            continue
        if isinstance(v, ast.Name):
            os_ = origins(cfg, v, st)
            if os_ and all(o.kind == "expr" and ((isinstance(o.expr, ast.Dict) and not o.expr.keys) or (isinstance(o.expr, ast.Call) and call_name(o.expr) == "dict" and not o.expr.args)) for o in os_):
                # a fresh dict filled from the children's items?
                filled = False
                for s2 in walk_local(f):
                    if isinstance(s2, ast.Assign) and len(s2.targets) == 1 and isinstance(s2.targets[0], ast.Subscript) and isinstance(s2.targets[0].value, ast.Name) and s2.targets[0].value.id == v.id:
                        filled = True
                    if isinstance(s2, ast.Call) and isinstance(s2.func, ast.Attribute) and s2.func.attr == "update" and isinstance(s2.func.value, ast.Name) and s2.func.value.id == v.id:
                        filled = True
                if filled:
                    merges.append(st)
        elif isinstance(v, ast.DictComp):
            merges.append(st)
    chk.count("R28b.merge_stores", len(merges))
    chk.count("R28b.list_stores", len(lists))
    chk.require(bool(lists), "R28b", f, "structural_simplify never stores the ordered list of child records: duplicate keys can only be merged away", detail="list form exists for duplicate keys")
    for st in merges:
        uniq = False
        why = "no dominating key-uniqueness test"
        for e, pol in conditions_at(cfg, st):
            if not (isinstance(e, ast.Compare) and len(e.ops) == 1):
                continue
            op = e.ops[0]
            if not ((isinstance(op, ast.NotEq) and not pol) or (isinstance(op, ast.Eq) and pol)):
                continue
            sides = [e.left, e.comparators[0]]

            def len_of(x):
                return x.args[0] if isinstance(x, ast.Call) and call_name(x) == "len" and len(x.args) == 1 else None

            a, b = len_of(sides[0]), len_of(sides[1])
            if a is None or b is None:
                continue
            for s_, l_ in ((a, b), (b, a)):
                if isinstance(s_, ast.Call) and call_name(s_) in ("set", "frozenset") and len(s_.args) == 1 and isinstance(s_.args[0], ast.Name) and isinstance(l_, ast.Name) and s_.args[0].id == l_.id:
                    keys = l_.id
                    # the key list holds the keys of every child, unfiltered
                    os_ = [o for o in origins(cfg, l_, cfg.stmt_of(e)) if o.kind != "aug"]
                    fresh = bool(os_) and all(o.kind == "expr" and is_fresh_list(o.expr) for o in os_)
                    full = False
                    # ``keys = [k for d in contents for k in d.keys()]``: the same list in one expression
                    if len(os_) == 1 and os_[0].kind == "expr" and isinstance(os_[0].expr, ast.ListComp) and not mutations_of(f, keys):
                        lc_ = os_[0].expr
                        g_ = lc_.generators
                        if len(g_) == 2 and not g_[0].ifs and not g_[1].ifs and isinstance(g_[0].target, ast.Name) and isinstance(g_[1].target, ast.Name) \
                                and isinstance(lc_.elt, ast.Name) and lc_.elt.id == g_[1].target.id and is_contents(g_[0].iter, os_[0].stmt):
                            it2 = g_[1].iter
                            if (isinstance(it2, ast.Call) and isinstance(it2.func, ast.Attribute) and it2.func.attr == "keys" and not it2.args and isinstance(it2.func.value, ast.Name) and it2.func.value.id == g_[0].target.id) \
                                    or (isinstance(it2, ast.Name) and it2.id == g_[0].target.id):
                                fresh = full = True
                    for k, node in mutations_of(f, keys):
                        if k == "augassign" and isinstance(node, ast.AugAssign) and isinstance(node.op, ast.Add):
                            # ``keys += list(d.keys())`` is ``keys.extend(d.keys())``
                            arg = node.value
                            while isinstance(arg, ast.Call) and call_name(arg) in ("list", "tuple") and len(arg.args) == 1:
                                arg = arg.args[0]
                            fo = for_origin(cfg, arg.func.value, node) if isinstance(arg, ast.Call) and isinstance(arg.func, ast.Attribute) and arg.func.attr == "keys" else None
                            loop = fo[0] if fo else None
                            if loop is not None and not fo[1] and is_contents(loop.iter, loop) and getattr(node, "_parent", None) is loop:
                                full = True
                            else:
                                full = False
                                break
                            continue
                        if k in ("extend", "append") and node.args:
                            fo = None
                            arg = node.args[0]
                            if isinstance(arg, ast.Call) and isinstance(arg.func, ast.Attribute) and arg.func.attr == "keys":
                                fo = for_origin(cfg, arg.func.value, cfg.stmt_of(node))
                            loop = fo[0] if fo else None
                            if k == "extend" and loop is not None and not fo[1] and is_contents(loop.iter, loop) and getattr(cfg.stmt_of(node), "_parent", None) is loop:
                                full = True
                        elif k not in ("extend", "append"):
                            full = False
                            break
                    if isinstance(os_[0].expr if os_ else None, ast.ListComp):
                        pass
                    if fresh and full:
                        uniq = True
                    else:
                        why = "the list whose uniqueness is tested does not hold the keys of every child record"
        chk.require(
            uniq, "R28b", st,
            f"child records are merged into one dict although {why}: children with equal keys (two columns, two comments ..) overwrite each other and tokens disappear from the output",
            detail="merge only under the key-uniqueness test",
        )
    if not merges:
        chk.note("R28b: structural_simplify has no merging branch (list form only).")


# ---------------------------------------------------------------------------
def _class_attr_true(repo, m, c, name: str) -> bool:
    for mm, cc in repo.mro(m, c):
        for item in cc.body:
            if isinstance(item, ast.Assign) and any(isinstance(t, ast.Name) and t.id == name for t in item.targets):
                return isinstance(item.value, ast.Constant) and item.value.value is True
            if isinstance(item, ast.AnnAssign) and isinstance(item.target, ast.Name) and item.target.id == name and item.value is not None:
                return isinstance(item.value, ast.Constant) and item.value.value is True
    return False


class Visit:
    """One place where a serialiser recurses into its children: a ``for`` statement or a
    comprehension whose body calls ``<loop variable>.<recursive>(..)``."""

    def __init__(self, node, it, call, stmt, filters, is_comp, var):
        self.node, self.iter, self.call, self.stmt, self.filters, self.is_comp, self.var = node, it, call, stmt, filters, is_comp, var


def _child_visits(f, cfg, recursive: str) -> List[Visit]:
    from ..cfg import atoms

    out: List[Visit] = []
    for n in walk_local(f):
        if isinstance(n, ast.For):
            for c in calls_in(n):
                if isinstance(c.func, ast.Attribute) and c.func.attr == recursive:
                    fo = for_origin(cfg, c.func.value, cfg.stmt_of(c))
                    if fo is not None and fo[0] is n and not fo[1]:
                        st = cfg.stmt_of(c)
                        outer = cfg.conditions(n)
                        inner = [(e, pol) for e, pol in cfg.conditions(st) if not any(e is e2 for e2, _ in outer)]
                        out.append(Visit(n, n.iter, c, st, inner, False, c.func.value.id))
        elif isinstance(n, (ast.ListComp, ast.GeneratorExp)) and len(n.generators) == 1 and isinstance(n.generators[0].target, ast.Name):
            g = n.generators[0]
            for c in [x for x in ast.walk(n.elt) if isinstance(x, ast.Call)]:
                if isinstance(c.func, ast.Attribute) and c.func.attr == recursive and isinstance(c.func.value, ast.Name) and c.func.value.id == g.target.id:
                    fl = [a for t in g.ifs for a in atoms(t, True)]
                    out.append(Visit(n, g.iter, c, cfg.stmt_of(n), fl, True, g.target.id))
    return out


def _inside_node(node, anc) -> bool:
    p = node
    while p is not None:
        if p is anc:
            return True
        p = getattr(p, "_parent", None)
    return False


def _is_loop_var(cfg, v: Visit, e, at) -> bool:
    if not isinstance(e, ast.Name):
        return False
    if v.is_comp:
        return e.id == v.var
    fo = for_origin(cfg, e, at)
    return fo is not None and fo[0] is v.node and not fo[1]


def _r28c(chk, repo) -> None:
    bm = repo.mod(SEGBASE)
    base = repo.cls(SEGBASE, "BaseSegment")
    f = repo.fn(SEGBASE, "BaseSegment.to_tuple")
    cfg = cfg_of(f)
    params = [a.arg for a in f.args.args]
    me = params[0]
    visits = _child_visits(f, cfg, "to_tuple")
    chk.count("R28c.to_tuple_child_loops", len(visits))
    chk.floor("R28c.to_tuple_child_loops", 1)
    collected: Set[str] = set()
    comp_nodes = []
    saw_unfiltered_arm = False
    for v in visits:
        loop, call = v.node, v.call
        it = attr_path(cfg, v.iter, v.stmt if v.is_comp else loop)
        chk.require(
            it == [(me, "segments")], "R28c", loop,
            f"to_tuple visits its children through {short(v.iter, 50)} instead of self.segments: children are dropped or reordered",
            detail="to_tuple child loop iterates self.segments",
        )
        # options passed through unchanged
        for i, o in enumerate(OPTS):
            a = arg_of(call, params.index(o) - 1, o)
            chk.require(
                a is not None and isinstance(a, ast.Name) and param_origin(cfg, a, cfg.stmt_of(call)) == o, "R28c", call,
                f"the recursion passes {o}={short(a, 30) if a is not None else 'its default'} to the children instead of the caller's '{o}'",
                detail=f"recursion passes {o} through",
            )
        if v.is_comp:
            chk.require(loop.elt is call, "R28c", loop, "a child's tuple is post-processed inside the comprehension", detail="comprehension element is the child's tuple")
            comp_nodes.append(loop)
            p = getattr(loop, "_parent", None)
            if isinstance(p, ast.Assign) and len(p.targets) == 1 and isinstance(p.targets[0], ast.Name):
                collected.add(p.targets[0].id)
                for k, node in mutations_of(f, p.targets[0].id):
                    chk.fail("R28c", node, f"the list of child tuples is changed by '{k}': order or completeness of the children is lost", detail=f"child tuple list {k}")
        else:
            # collected in order into a fresh list
            p = getattr(call, "_parent", None)
            app = p if isinstance(p, ast.Call) and isinstance(p.func, ast.Attribute) and p.func.attr == "append" and isinstance(p.func.value, ast.Name) else None
            if app is None and isinstance(p, (ast.Assign, ast.AnnAssign)) and p.value is call:
                # ``child = seg.to_tuple(..)`` then ``children.append(child)`` in the same iteration
                for c2 in calls_in(loop):
                    if isinstance(c2.func, ast.Attribute) and c2.func.attr == "append" and isinstance(c2.func.value, ast.Name) and len(c2.args) == 1 and isinstance(c2.args[0], ast.Name):
                        os2 = origins(cfg, c2.args[0], cfg.stmt_of(c2))
                        if len(os2) == 1 and os2[0].kind == "expr" and os2[0].expr is call and not os2[0].path and cfg.dominates(p, cfg.stmt_of(c2)) and not cfg.conditions(cfg.stmt_of(c2))[len(cfg.conditions(p)):]:
                            app = c2
            chk.require(app is not None, "R28c", call, "a child's tuple is not appended to the list of child tuples", detail="child tuple appended")
            if app is None:
                continue
            lst = app.func.value
            os_ = origins(cfg, lst, cfg.stmt_of(app))
            chk.require(bool(os_) and all(o.kind == "expr" and is_fresh_list(o.expr) for o in os_), "R28c", app, "child tuples are appended to a list that is not created in this call", detail="child tuple list is fresh")
            collected.add(lst.id)
            for k, node in mutations_of(f, lst.id):
                if k != "append":
                    chk.fail("R28c", node, f"the list of child tuples is changed by '{k}': order or completeness of the children is lost", detail=f"child tuple list {k}")
        # the filter on this arm
        st = v.stmt
        outer = cfg.conditions(st if v.is_comp else loop)
        code_only_arm = any(pol and isinstance(e, ast.Name) and param_origin(cfg, e, st) == "code_only" for e, pol in outer)
        inner = v.filters
        if code_only_arm:
            chk.ok("R28c", f"{SEGBASE}::BaseSegment.to_tuple", "code_only arm: filter is the caller's request")
            continue
        saw_unfiltered_arm = True
        # a skip written as an early ``continue`` leaves the false edge of a conjunction (``if child.is_meta and not
        # include_meta: continue``): by De Morgan that is the disjunction of the negated operands
        inner = [
            (ast.BoolOp(op=ast.Or(), values=[ast.UnaryOp(op=ast.Not(), operand=x) for x in e.values]), True)
            if isinstance(e, ast.BoolOp) and isinstance(e.op, ast.And) and not pol else (e, pol)
            for e, pol in inner
        ]
        # allowed: nothing, or the single test `include_meta or not child.is_meta`
        ok = True
        for e, pol in inner:
            names_ok = True
            parts = e.values if isinstance(e, ast.BoolOp) and isinstance(e.op, ast.Or) else [e]
            for part in parts:
                neg = False
                while isinstance(part, ast.UnaryOp) and isinstance(part.op, ast.Not):
                    part, neg = part.operand, not neg
                if isinstance(part, ast.Name) and param_origin(cfg, part, st) == "include_meta" and not neg:
                    continue
                if isinstance(part, ast.Attribute) and part.attr == "is_meta" and neg and _is_loop_var(cfg, v, part.value, st):
                    continue
                names_ok = False
            if not (pol and names_ok and any(isinstance(x, ast.Attribute) and x.attr == "is_meta" for x in ast.walk(e))):
                ok = False
        chk.require(
            ok, "R28c", call,
            "without code_only a child is skipped by a test other than `include_meta or not child.is_meta`: tokens of the file are missing from the output ("
            + "; ".join(f"{short(e, 50)} is {pol}" for e, pol in inner) + ")",
            detail="only meta segments are filtered without code_only",
        )
    chk.require(saw_unfiltered_arm, "R28c", f, "to_tuple has no arm that serialises all children when code_only is false", detail="arm for code_only=False exists")
    # returns
    rets = [r for r in walk_local(f) if isinstance(r, ast.Return) and r.value is not None]
    chk.count("R28c.to_tuple_returns", len(rets))
    leaf_seen = False
    for st in walk_local(f):
        if not isinstance(st, ast.Assign):
            continue
        v = st.value
        if not (isinstance(v, ast.Tuple) and len(v.elts) == 2):
            continue
        second = v.elts[1]
        conds = conditions_at(cfg, st)
        is_leaf_arm = any(pol and isinstance(e, ast.Name) and param_origin(cfg, e, st) == "show_raw" for e, pol in conds)
        if is_leaf_arm:
            leaf_seen = True
            chk.require(
                attr_path(cfg, second, st) == [(me, "raw")], "R28c", st,
                f"the leaf tuple carries {short(second, 50)} instead of the unmodified self.raw", detail="leaf tuple = (type, self.raw)",
            )
            def says_no_children(e, pol) -> bool:
                # ``not self.segments`` / ``len(self.segments) == 0`` (and the negated spellings on the other edge)
                if isinstance(e, (ast.Attribute, ast.Name)):
                    return (not pol) and attr_path(cfg, e, cfg.stmt_of(e) or st) == [(me, "segments")]
                if isinstance(e, ast.Compare) and len(e.ops) == 1 and isinstance(e.left, ast.Call) and call_name(e.left) == "len" and len(e.left.args) == 1 \
                        and isinstance(e.comparators[0], ast.Constant) and isinstance(e.comparators[0].value, int) and not isinstance(e.comparators[0].value, bool) \
                        and attr_path(cfg, e.left.args[0], cfg.stmt_of(e) or st) == [(me, "segments")]:
                    c_, op_ = e.comparators[0].value, e.ops[0]
                    empty_when_true = (isinstance(op_, ast.Eq) and c_ == 0) or (isinstance(op_, ast.Lt) and c_ == 1) or (isinstance(op_, ast.LtE) and c_ == 0)
                    empty_when_false = (isinstance(op_, ast.Gt) and c_ == 0) or (isinstance(op_, ast.GtE) and c_ == 1) or (isinstance(op_, ast.NotEq) and c_ == 0)
                    return (pol and empty_when_true) or ((not pol) and empty_when_false)
                return False

            no_kids = any(says_no_children(e, pol) for e, pol in conds)
            chk.require(no_kids, "R28c", st, "the leaf arm is taken for segments that have children: their children are not listed", detail="leaf arm only without children")
        else:
            good = isinstance(second, ast.Call) and call_name(second) == "tuple" and len(second.args) == 1 and (
                (isinstance(second.args[0], ast.Name) and second.args[0].id in collected) or any(second.args[0] is c for c in comp_nodes)
            )
            chk.require(good, "R28c", st, f"a non-leaf tuple carries {short(second, 50)} instead of tuple(<child tuples in order>)", detail="node tuple = (type, tuple(child tuples))")
        t0 = v.elts[0]
        if isinstance(t0, ast.Name):
            os_ = origins(cfg, t0, st)
            if len(os_) == 1 and os_[0].kind == "expr" and not os_[0].path:
                t0 = os_[0].expr  # ``seg_type = self.get_type()`` kept in a local
        chk.require(
            isinstance(t0, ast.Call) and isinstance(t0.func, ast.Attribute) and t0.func.attr == "get_type" and attr_path(cfg, t0.func.value, st) == [(me,)], "R28c", st,
            f"the tuple's type entry is {short(t0, 40)}, not self.get_type()", detail="tuple type = self.get_type()",
        )
    chk.require(leaf_seen, "R28c", f, "to_tuple has no leaf arm under show_raw: token texts are never emitted", detail="leaf arm exists")

    # overrides of the serialisers
    n_over = 0
    for m, c in repo.subclasses_of("BaseSegment"):
        if c is base:
            continue
        for item in c.body:
            if isinstance(item, FuncNode) and item.name in SERIALISERS:
                n_over += 1
                chk.require(
                    _class_attr_true(repo, m, c, "is_meta"), "R28c", item,
                    f"{c.name} overrides {item.name} but is not a meta segment class: its tokens are serialised by a second, unchecked serialiser",
                    detail=f"{c.name}.{item.name} override only on a meta class",
                )
    chk.count("R28c.serialiser_overrides", n_over)

    # ---- human format -----------------------------------------------------------------------------
    sf = repo.fn(SEGBASE, "BaseSegment.stringify")
    scfg = cfg_of(sf)
    sme = sf.args.args[0].arg
    svisits = _child_visits(sf, scfg, "stringify")
    chk.count("R28c.stringify_child_loops", len(svisits))
    chk.floor("R28c.stringify_child_loops", 1)
    partitioned = []
    for v in svisits:
        loop, call = v.node, v.call
        at = v.stmt if v.is_comp else loop
        it = attr_path(scfg, v.iter, at)
        if it == [(sme, "segments")]:
            chk.ok("R28c", f"{SEGBASE}::BaseSegment.stringify", "child loop iterates self.segments")
            a = arg_of(call, 2, "code_only")
            chk.require(
                a is not None and isinstance(a, ast.Name) and param_origin(scfg, a, scfg.stmt_of(call)) == "code_only", "R28c", call,
                "stringify does not pass the caller's code_only to its children", detail="stringify recursion passes code_only through",
            )
            for e, pol in v.filters:
                mentions = any(isinstance(x, ast.Name) and param_origin(scfg, x, scfg.stmt_of(call)) == "code_only" for x in ast.walk(e))
                chk.require(mentions, "R28c", call, f"stringify skips children by {short(e, 50)} regardless of code_only", detail="stringify filters only under code_only")
        else:
            partitioned.append((at, it))
    if partitioned:
        # which switch enables the partitioned walk, and does any class turn it on?
        switches = set()
        for loop, it in partitioned:
            for e, pol in scfg.conditions(loop):
                ap = attr_path(scfg, e, loop) if isinstance(e, (ast.Attribute,)) else None
                if pol and ap and len(ap) == 1 and len(ap[0]) == 2 and ap[0][0] == sme:
                    switches.add(ap[0][1])
        on = []
        for m, c in repo.subclasses_of("BaseSegment"):
            for sw in switches:
                for item in c.body:
                    if isinstance(item, ast.Assign) and any(isinstance(t, ast.Name) and t.id == sw for t in item.targets) and isinstance(item.value, ast.Constant) and item.value.value is True:
                        on.append(f"{c.name}.{sw}")
        views = sorted({".".join(p) for _, it in partitioned for p in (it or [("?",)])})
        if on or not switches:
            chk.fail(
                "R28c", partitioned[0][0],
                f"the human parse output visits the children of a segment through the partitioned views {views} (enabled by {sorted(on) or 'every segment'}): "
                "comments are listed before all other tokens, so the tokens are not in file order and their texts do not concatenate to the SQL",
                detail="stringify lists children through partitioned views (comments first)",
            )
        else:
            chk.ok("R28c", f"{SEGBASE}::BaseSegment.stringify", f"partitioned walk {views} is never enabled")
    # a raw segment's line carries its text
    rs = repo.fn(SEGRAW, "RawSegment.stringify")
    rcfg = cfg_of(rs)
    ok = False
    for r in [r for r in walk_local(rs) if isinstance(r, ast.Return) and r.value is not None]:
        for e, p, kind in leaves(rcfg, r.value, r):
            for x in ast.walk(e) if isinstance(e, ast.AST) else []:
                if isinstance(x, ast.Name):
                    for o in origins(rcfg, x, r):
                        if o.kind == "expr" and isinstance(o.expr, ast.Call) and isinstance(o.expr.func, ast.Attribute) and o.expr.func.attr == "_preface":
                            ok = True
                if isinstance(x, ast.Call) and isinstance(x.func, ast.Attribute) and x.func.attr == "_preface":
                    ok = True
    chk.require(ok, "R28c", rs, "RawSegment.stringify does not render the segment's _preface (type and text line)", detail="RawSegment.stringify renders _preface")
    pf = repo.fn(SEGBASE, "BaseSegment._preface")
    chk.require(
        any(isinstance(c.func, ast.Attribute) and c.func.attr == "_suffix" and attr_chain(c.func.value) == (pf.args.args[0].arg,) for c in calls_in(pf)), "R28c", pf,
        "_preface no longer embeds self._suffix(): token texts are missing from the human output", detail="_preface embeds _suffix()",
    )
    rsuf = repo.fn(SEGRAW, "RawSegment._suffix")
    me_r = rsuf.args.args[0].arg
    chk.require(
        any(isinstance(n, ast.Attribute) and attr_chain(n) == (me_r, "raw") for n in ast.walk(rsuf)), "R28c", rsuf,
        "RawSegment._suffix no longer contains self.raw: token texts are missing from the human output", detail="RawSegment._suffix shows self.raw",
    )
    raw_cls = repo.cls(SEGRAW, "RawSegment")
    n_suf = 0
    for m, c in repo.subclasses_of("RawSegment"):
        if c is raw_cls:
            continue
        for item in c.body:
            if isinstance(item, FuncNode) and item.name in ("_suffix", "_preface", "stringify"):
                n_suf += 1
                shows = any(isinstance(n, ast.Attribute) and n.attr == "raw" and attr_chain(n) == (item.args.args[0].arg, "raw") for n in ast.walk(item))
                chk.require(
                    _class_attr_true(repo, m, c, "is_meta") or shows, "R28c", item,
                    f"{c.name} overrides {item.name} without showing self.raw and is not a meta class: its token text is missing from the human output",
                    detail=f"{c.name}.{item.name} keeps the token text",
                )
    chk.count("R28c.raw_suffix_overrides", n_suf)


from ..selftest import Variant  # noqa: E402

VARIANTS = [
    Variant(
        "quiet-null-for-the-empty-tuple-tested-by-type", SEGBASE,
        "        assert isinstance(value, tuple)\n        # If it's an empty tuple return a dict with None.\n        if not value:\n",
        "        # If it's an empty tuple return a dict with None.\n        if isinstance(value, tuple) and not value:\n",
        "QUIET", None, "type test and emptiness in one condition",
    ),
    Variant(
        "quiet-null-store-in-the-else-arm-of-the-leaf-test", SEGBASE,
        "        if isinstance(value, str):\n            result[key] = value\n            return result\n        assert isinstance(value, tuple)\n        # If it's an empty tuple return a dict with None.\n        if not value:\n            result[key] = None\n            return result\n",
        "        if isinstance(value, str):\n            result[key] = value\n            return result\n        else:\n            if len(value) == 0:\n                result[key] = None\n                return result\n",
        "QUIET", None, "else arm, emptiness by len()",
    ),
    Variant(
        "quiet-parse-json-with-explicit-unsorted-keys", CMDS,
        "            file_output = json.dumps(parsed_strings_dict)\n",
        "            file_output = json.dumps(parsed_strings_dict, sort_keys=False)\n",
        "QUIET", None, "the default spelled out",
    ),
    Variant(
        "parse-json-written-with-sorted-keys", CMDS,
        "            file_output = json.dumps(parsed_strings_dict)\n",
        "            file_output = json.dumps(parsed_strings_dict, sort_keys=write_output is not None)\n",
        "R28h", "parse", "seeded C28-9",
    ),
    Variant(
        "empty-leaf-text-serialised-as-null", SEGBASE,
        "        if isinstance(value, str):\n            result[key] = value\n            return result\n        assert isinstance(value, tuple)\n        # If it's an empty tuple return a dict with None.\n        if not value:\n            result[key] = None\n            return result\n",
        "        if not value:\n            result[key] = None\n            return result\n        if isinstance(value, str):\n            result[key] = value\n            return result\n        assert isinstance(value, tuple)\n",
        "R28i", "BaseSegment.structural_simplify", "seeded C28-10",
    ),
    Variant(
        "type-column-clipped-at-its-width", "src/sqlfluff/core/parser/segments/base.py",
        "{padded_type:60}",
        "{padded_type:60.60}",
        "R28g", "_preface", "seeded C28-5: ten levels down the node types are cut short",
    ),
    Variant(
        "non-comments-are-code-only", "src/sqlfluff/core/parser/segments/base.py",
        '        return [seg for seg in self.segments if not seg.is_type("comment")]\n',
        "        return [seg for seg in self.segments if seg.is_code]\n",
        "R28f", "_non_comments", "seeded C28-3: whitespace of an unparsable section that holds a comment is not printed",
    ),
    Variant(
        "quiet-non-comments-through-a-local", "src/sqlfluff/core/parser/segments/base.py",
        '        return [seg for seg in self.segments if not seg.is_type("comment")]\n',
        '        rest = [child for child in self.segments if not child.is_type("comment")]\n        return rest\n',
        "QUIET", None, "R28f: loop variable renamed, result through a local",
    ),
    Variant(
        "parse-records-keep-the-previous-tree", "src/sqlfluff/cli/commands.py",
        "            else:\n                # Parsing failed - return null for segments.\n                segments = None\n",
        "",
        "R28e", "parse", "seeded C28-4 (without the declaration before the loop the first file raises instead; with it the previous file's tree is emitted)",
    ),
    # behaviour-preserving refactors: must stay quiet
    Variant(
        "quiet-as-record-two-steps", SEGBASE,
        '        return self.structural_simplify(self.to_tuple(**kwargs))\n',
        '        as_tuple = self.to_tuple(**kwargs)\n        record = self.structural_simplify(as_tuple)\n        return record\n',
        "QUIET", None, 'tuple and record through locals',
    ),
    Variant(
        "quiet-api-return-direct", API,
        '    record = root_variant.tree.as_record(show_raw=True)\n    assert record\n    return record\n',
        '    tree = root_variant.tree\n    record = tree.as_record(show_raw=True)\n    assert record\n    return record\n',
        "QUIET", None, 'tree through a local',
    ),
    Variant(
        "quiet-cli-tree-local", CMDS,
        '                segments = root_variant.tree.as_record(\n                    code_only=code_only,\n                    show_raw=True,\n',
        '                tree = root_variant.tree\n                segments = tree.as_record(\n                    show_raw=True,\n                    code_only=code_only,\n',
        "QUIET", None, 'tree through a local, keyword order changed',
    ),
    Variant(
        "quiet-cli-ifexp", CMDS,
        '            if root_variant:\n                assert root_variant.tree\n                segments = root_variant.tree.as_record(\n                    code_only=code_only,\n                    show_raw=True,\n                    include_meta=include_meta,\n                    include_position=include_meta,\n                )\n            else:\n                # Parsing failed - return null for segments.\n                segments = None\n',
        '            segments = (\n                root_variant.tree.as_record(\n                    code_only=code_only,\n                    show_raw=True,\n                    include_meta=include_meta,\n                    include_position=include_meta,\n                )\n                if root_variant and root_variant.tree\n                else None\n            )\n',
        "QUIET", None, 'if/else as a conditional expression',
    ),
    Variant(
        "quiet-cli-record-dict-local", CMDS,
        '            parsed_strings_dict.append(\n                {"filepath": parsed_string.fname, "segments": segments}\n            )\n',
        '            file_record = {"filepath": parsed_string.fname, "segments": segments}\n            parsed_strings_dict.append(file_record)\n',
        "QUIET", None, 'per-file record through a local',
    ),
    Variant(
        "quiet-cli-show-raw-local", CMDS,
        '                segments = root_variant.tree.as_record(\n                    code_only=code_only,\n                    show_raw=True,\n',
        '                with_text = True\n                segments = root_variant.tree.as_record(\n                    code_only=code_only,\n                    show_raw=with_text,\n',
        "QUIET", None, 'the constant True through a local',
    ),
    Variant(
        "quiet-simplify-keys-comprehension", SEGBASE,
        '        subkeys: list[str] = []\n        for _d in contents:\n            subkeys.extend(_d.keys())\n',
        '        subkeys: list[str] = [k for _d in contents for k in _d.keys()]\n',
        "QUIET", None, 'key list as one nested comprehension',
    ),
    Variant(
        "quiet-simplify-eq-swapped", SEGBASE,
        "        if len(set(subkeys)) != len(subkeys):\n            # Yes: use a list of single dicts.\n            # Recurse directly.\n            result[key] = contents\n            return result\n\n        # Otherwise there aren't duplicates, un-nest the list into a dict:\n        content_dict = {}\n        for record in contents:\n            for k, v in record.items():\n                content_dict[k] = v\n        result[key] = content_dict\n        return result\n",
        '        if len(subkeys) == len(set(subkeys)):\n            content_dict = {}\n            for record in contents:\n                content_dict.update(record)\n            result[key] = content_dict\n        else:\n            result[key] = contents\n        return result\n',
        "QUIET", None, 'uniqueness test with == and swapped arms, update() for the item loop',
    ),
    Variant(
        "quiet-simplify-unique-local", SEGBASE,
        '        if len(set(subkeys)) != len(subkeys):\n',
        '        has_duplicates = len(set(subkeys)) != len(subkeys)\n        if has_duplicates:\n',
        "QUIET", None, 'uniqueness test through a boolean local',
    ),
    Variant(
        "quiet-simplify-for-extend-plus", SEGBASE,
        '            subkeys.extend(_d.keys())\n',
        '            subkeys += list(_d.keys())\n',
        "QUIET", None, 'extend spelled += list(..)',
    ),
    Variant(
        "quiet-simplify-dictcomp", SEGBASE,
        '        content_dict = {}\n        for record in contents:\n            for k, v in record.items():\n                content_dict[k] = v\n        result[key] = content_dict\n',
        '        result[key] = {k: v for record in contents for k, v in record.items()}\n',
        "QUIET", None, 'merge as a dict comprehension',
    ),
    Variant(
        "quiet-tuple-arm-comprehension", SEGBASE,
        '        else:\n            child_tuples = []\n            for seg in self.segments:\n                if include_meta or not seg.is_meta:\n                    child_tuples.append(\n                        seg.to_tuple(\n                            code_only=code_only,\n                            show_raw=show_raw,\n                            include_meta=include_meta,\n                            include_position=include_position,\n                        )\n                    )\n            base_tuple = (self.get_type(), tuple(child_tuples))\n',
        '        else:\n            base_tuple = (\n                self.get_type(),\n                tuple(\n                    seg.to_tuple(\n                        code_only=code_only,\n                        show_raw=show_raw,\n                        include_meta=include_meta,\n                        include_position=include_position,\n                    )\n                    for seg in self.segments\n                    if include_meta or not seg.is_meta\n                ),\n            )\n',
        "QUIET", None, 'child loop as a generator expression',
    ),
    Variant(
        "quiet-tuple-arm-continue", SEGBASE,
        '        else:\n            child_tuples = []\n            for seg in self.segments:\n                if include_meta or not seg.is_meta:\n                    child_tuples.append(\n                        seg.to_tuple(\n                            code_only=code_only,\n                            show_raw=show_raw,\n                            include_meta=include_meta,\n                            include_position=include_position,\n                        )\n                    )\n            base_tuple = (self.get_type(), tuple(child_tuples))\n',
        '        else:\n            child_tuples = []\n            for seg in self.segments:\n                if seg.is_meta and not include_meta:\n                    continue\n                child = seg.to_tuple(\n                    code_only=code_only,\n                    show_raw=show_raw,\n                    include_meta=include_meta,\n                    include_position=include_position,\n                )\n                child_tuples.append(child)\n            base_tuple = (self.get_type(), tuple(child_tuples))\n',
        "QUIET", None, 'filter as an early continue, child tuple through a local',
    ),
    Variant(
        "quiet-tuple-arm-positional", SEGBASE,
        '        else:\n            child_tuples = []\n            for seg in self.segments:\n                if include_meta or not seg.is_meta:\n                    child_tuples.append(\n                        seg.to_tuple(\n                            code_only=code_only,\n                            show_raw=show_raw,\n                            include_meta=include_meta,\n                            include_position=include_position,\n                        )\n                    )\n            base_tuple = (self.get_type(), tuple(child_tuples))\n',
        '        else:\n            child_tuples = []\n            for seg in self.segments:\n                if include_meta or not seg.is_meta:\n                    child_tuples.append(seg.to_tuple(code_only, show_raw, include_meta, include_position))\n            base_tuple = (self.get_type(), tuple(child_tuples))\n',
        "QUIET", None, 'options passed positionally',
    ),
    Variant(
        "quiet-tuple-segments-local", SEGBASE,
        '        else:\n            child_tuples = []\n            for seg in self.segments:\n                if include_meta or not seg.is_meta:\n                    child_tuples.append(\n                        seg.to_tuple(\n                            code_only=code_only,\n                            show_raw=show_raw,\n                            include_meta=include_meta,\n                            include_position=include_position,\n                        )\n                    )\n            base_tuple = (self.get_type(), tuple(child_tuples))\n',
        '        else:\n            child_tuples = []\n            children = self.segments\n            for seg in children:\n                if include_meta or not seg.is_meta:\n                    child_tuples.append(\n                        seg.to_tuple(\n                            code_only=code_only,\n                            show_raw=show_raw,\n                            include_meta=include_meta,\n                            include_position=include_position,\n                        )\n                    )\n            base_tuple = (self.get_type(), tuple(child_tuples))\n',
        "QUIET", None, 'self.segments through a local',
    ),
    Variant(
        "quiet-tuple-leaf-locals", SEGBASE,
        '        if show_raw and not self.segments:\n            base_tuple = (self.get_type(), self.raw)\n',
        '        if show_raw and not self.segments:\n            seg_type = self.get_type()\n            text = self.raw\n            base_tuple = (seg_type, text)\n',
        "QUIET", None, 'type and text through locals',
    ),
    Variant(
        "quiet-tuple-leaf-nested", SEGBASE,
        '        if show_raw and not self.segments:\n            base_tuple = (self.get_type(), self.raw)\n        elif code_only:\n',
        '        is_leaf = not self.segments\n        if show_raw and is_leaf:\n            base_tuple = (self.get_type(), self.raw)\n        elif code_only:\n',
        "QUIET", None, 'no-children test through a boolean local',
    ),
    Variant(
        "quiet-tuple-leaf-len", SEGBASE,
        '        if show_raw and not self.segments:\n',
        '        if show_raw and len(self.segments) == 0:\n',
        "QUIET", None, 'no-children test by length',
    ),
    Variant(
        "quiet-fmt-tree-local", FMT,
        '                    if variant.tree:\n                        output_stream.write(variant.tree.stringify(code_only=code_only))\n',
        '                    tree = variant.tree\n                    if tree:\n                        output_stream.write(tree.stringify(code_only=code_only))\n',
        "QUIET", None, 'variant tree through a local',
    ),
    Variant(
        "quiet-fmt-positional", FMT,
        '                output_stream.write(root_variant.tree.stringify(code_only=code_only))\n',
        '                rendered_tree = root_variant.tree.stringify(code_only=code_only)\n                output_stream.write(rendered_tree)\n',
        "QUIET", None, 'rendered text through a local',
    ),
    # ---- breaking twins of the quiet spellings above ---------------------------------------------
    Variant(
        "continue-also-skips-whitespace", SEGBASE,
        '        else:\n            child_tuples = []\n            for seg in self.segments:\n                if include_meta or not seg.is_meta:\n                    child_tuples.append(\n                        seg.to_tuple(\n                            code_only=code_only,\n                            show_raw=show_raw,\n                            include_meta=include_meta,\n                            include_position=include_position,\n                        )\n                    )\n            base_tuple = (self.get_type(), tuple(child_tuples))\n',
        '        else:\n            child_tuples = []\n            for seg in self.segments:\n                if seg.is_meta and not include_meta:\n                    continue\n                if seg.is_whitespace and not include_meta:\n                    continue\n                child = seg.to_tuple(\n                    code_only=code_only,\n                    show_raw=show_raw,\n                    include_meta=include_meta,\n                    include_position=include_position,\n                )\n                child_tuples.append(child)\n            base_tuple = (self.get_type(), tuple(child_tuples))\n',
        "R28c", "to_tuple", "twin of quiet-tuple-arm-continue",
    ),
    Variant(
        "child-local-appended-conditionally", SEGBASE,
        '        else:\n            child_tuples = []\n            for seg in self.segments:\n                if include_meta or not seg.is_meta:\n                    child_tuples.append(\n                        seg.to_tuple(\n                            code_only=code_only,\n                            show_raw=show_raw,\n                            include_meta=include_meta,\n                            include_position=include_position,\n                        )\n                    )\n            base_tuple = (self.get_type(), tuple(child_tuples))\n',
        '        else:\n            child_tuples = []\n            for seg in self.segments:\n                if seg.is_meta and not include_meta:\n                    continue\n                child = seg.to_tuple(\n                    code_only=code_only,\n                    show_raw=show_raw,\n                    include_meta=include_meta,\n                    include_position=include_position,\n                )\n                if child[1]:\n                    child_tuples.append(child)\n            base_tuple = (self.get_type(), tuple(child_tuples))\n',
        "R28c", "to_tuple", "twin of quiet-tuple-arm-continue",
    ),
    Variant(
        "key-comprehension-over-the-first-child-only", SEGBASE,
        '        subkeys: list[str] = []\n        for _d in contents:\n            subkeys.extend(_d.keys())\n',
        '        subkeys: list[str] = [k for _d in contents[:1] for k in _d.keys()]\n',
        "R28b", "structural_simplify", 'twin of quiet-simplify-keys-comprehension',
    ),
    Variant(
        "uniqueness-local-compares-with-the-number-of-children", SEGBASE,
        '        if len(set(subkeys)) != len(subkeys):\n',
        '        has_duplicates = len(set(subkeys)) != len(contents)\n        if has_duplicates:\n',
        "R28b", "structural_simplify", 'twin of quiet-simplify-unique-local',
    ),
    Variant(
        "keys-plus-eq-first-key-only", SEGBASE,
        '            subkeys.extend(_d.keys())\n',
        '            subkeys += list(_d.keys())[:1]\n',
        "R28b", "structural_simplify", 'twin of quiet-simplify-for-extend-plus',
    ),
    Variant(
        "leaf-text-local-stripped", SEGBASE,
        '        if show_raw and not self.segments:\n            base_tuple = (self.get_type(), self.raw)\n',
        '        if show_raw and not self.segments:\n            seg_type = self.get_type()\n            text = self.raw.strip()\n            base_tuple = (seg_type, text)\n',
        "R28c", "to_tuple", 'twin of quiet-tuple-leaf-locals',
    ),
    Variant(
        "leaf-local-tests-raw-segments", SEGBASE,
        '        if show_raw and not self.segments:\n            base_tuple = (self.get_type(), self.raw)\n        elif code_only:\n',
        '        is_leaf = not self.raw_segments\n        if show_raw and is_leaf:\n            base_tuple = (self.get_type(), self.raw)\n        elif code_only:\n',
        "R28c", "to_tuple", 'twin of quiet-tuple-leaf-nested',
    ),
    Variant(
        "leaf-by-length-at-most-one", SEGBASE,
        '        if show_raw and not self.segments:\n',
        '        if show_raw and len(self.segments) <= 1:\n',
        "R28c", "to_tuple", 'twin of quiet-tuple-leaf-len',
    ),
    # ---- earlier variants ------------------------------------------------------------------------
    Variant(
        "variant-section-prints-root-tree", FMT,
        "                        output_stream.write(variant.tree.stringify(code_only=code_only))\n",
        "                        output_stream.write(root_variant.tree.stringify(code_only=code_only))\n",
        "R28d", "print_out_violations_and_timing", "seeded C28-2",
    ),
    Variant(
        "quiet-variant-tree-through-local", FMT,
        "                        output_stream.write(variant.tree.stringify(code_only=code_only))\n",
        "                        this_tree = variant.tree\n                        output_stream.write(this_tree.stringify(code_only=code_only))\n",
        "QUIET", None, "tree of the loop variant held in a local",
    ),
    # ---- behaviour-preserving edits ---------------------------------------------------------------
    Variant(
        "quiet-api-parse-options-through-locals", API,
        "    record = root_variant.tree.as_record(show_raw=True)\n    assert record\n    return record\n",
        "    tree = root_variant.tree\n    with_text = True\n    rec = tree.as_record(show_raw=with_text, code_only=False)\n    assert rec\n    record = rec\n    return record\n",
        "QUIET", None, "options and result through locals, explicit default",
    ),
    Variant(
        "quiet-simplify-uniqueness-test-inverted", SEGBASE,
        "        if len(set(subkeys)) != len(subkeys):\n            # Yes: use a list of single dicts.\n            # Recurse directly.\n            result[key] = contents\n            return result\n\n        # Otherwise there aren't duplicates, un-nest the list into a dict:\n        content_dict = {}\n        for record in contents:\n            for k, v in record.items():\n                content_dict[k] = v\n        result[key] = content_dict\n        return result\n",
        "        if len(subkeys) == len(set(subkeys)):\n            merged = {}\n            for record in contents:\n                for k, v in record.items():\n                    merged[k] = v\n            result[key] = merged\n        else:\n            result[key] = contents\n        return result\n",
        "QUIET", None, "test inverted, branches swapped, local renamed, single return",
    ),
    Variant(
        "quiet-to-tuple-locals-renamed", SEGBASE,
        "            child_tuples = []\n            for seg in self.segments:\n                if include_meta or not seg.is_meta:\n                    child_tuples.append(\n",
        "            child_tuples = []\n            kids = self.segments\n            for seg in kids:\n                if not seg.is_meta or include_meta:\n                    child_tuples.append(\n",
        "QUIET", None, "children through a local, filter operands swapped",
    ),
    Variant(
        "quiet-to-tuple-arm-as-comprehension", SEGBASE,
        "        else:\n            child_tuples = []\n            for seg in self.segments:\n                if include_meta or not seg.is_meta:\n                    child_tuples.append(\n                        seg.to_tuple(\n                            code_only=code_only,\n                            show_raw=show_raw,\n                            include_meta=include_meta,\n                            include_position=include_position,\n                        )\n                    )\n            base_tuple = (self.get_type(), tuple(child_tuples))\n",
        "        else:\n            base_tuple = (\n                self.get_type(),\n                tuple(\n                    seg.to_tuple(\n                        code_only=code_only,\n                        show_raw=show_raw,\n                        include_meta=include_meta,\n                        include_position=include_position,\n                    )\n                    for seg in self.segments\n                    if include_meta or not seg.is_meta\n                ),\n            )\n",
        "QUIET", None, "plain loop written as the equivalent generator expression",
    ),
    # ---- breaking edits -----------------------------------------------------------------------------
    Variant(
        "api-parse-without-leaf-text", API,
        "    record = root_variant.tree.as_record(show_raw=True)\n",
        "    record = root_variant.tree.as_record()\n",
        "R28a", "parse",
    ),
    Variant(
        "api-parse-code-only", API,
        "    record = root_variant.tree.as_record(show_raw=True)\n",
        "    record = root_variant.tree.as_record(show_raw=True, code_only=True)\n",
        "R28a", "parse", "whitespace and comments vanish from the API record",
    ),
    Variant(
        "cli-parse-forces-metas", CMDS,
        "                    show_raw=True,\n                    include_meta=include_meta,\n",
        "                    show_raw=True,\n                    include_meta=True,\n",
        "R28a", "parse", "placeholder source text between rendered tokens",
    ),
    Variant(
        "cli-parse-show-raw-follows-code-only", CMDS,
        "                    code_only=code_only,\n                    show_raw=True,\n",
        "                    code_only=code_only,\n                    show_raw=not code_only,\n",
        "R28a", "parse",
    ),
    Variant(
        "as-record-pins-code-only", SEGBASE,
        "        return self.structural_simplify(self.to_tuple(**kwargs))\n",
        "        return self.structural_simplify(self.to_tuple(**{**kwargs, \"code_only\": True}))\n",
        "R28a", "as_record",
    ),
    Variant(
        "human-format-always-code-only", FMT,
        "                output_stream.write(root_variant.tree.stringify(code_only=code_only))\n",
        "                output_stream.write(root_variant.tree.stringify(code_only=True))\n",
        "R28a", "print_out_violations_and_timing",
    ),
    Variant(
        "simplify-merges-unconditionally", SEGBASE,
        "        if len(set(subkeys)) != len(subkeys):\n            # Yes: use a list of single dicts.\n",
        "        if False:\n            # Yes: use a list of single dicts.\n",
        "R28b", "structural_simplify", "two children with the same type collapse into one",
    ),
    Variant(
        "simplify-uniqueness-over-first-child-only", SEGBASE,
        "        for _d in contents:\n            subkeys.extend(_d.keys())\n",
        "        for _d in contents[:1]:\n            subkeys.extend(_d.keys())\n",
        "R28b", "structural_simplify",
    ),
    Variant(
        "simplify-skips-empty-children", SEGBASE,
        "        contents = [cls.structural_simplify(e) for e in value]\n",
        "        contents = [cls.structural_simplify(e) for e in value if e[1]]\n",
        "R28b", "structural_simplify", "tokens with empty text / empty nodes are dropped",
    ),
    Variant(
        "to-tuple-drops-comments", SEGBASE,
        "                if include_meta or not seg.is_meta:\n",
        "                if (include_meta or not seg.is_meta) and not seg.is_comment:\n",
        "R28c", "to_tuple",
    ),
    Variant(
        "to-tuple-recursion-loses-show-raw", SEGBASE,
        "                if include_meta or not seg.is_meta:\n                    child_tuples.append(\n                        seg.to_tuple(\n                            code_only=code_only,\n                            show_raw=show_raw,\n",
        "                if include_meta or not seg.is_meta:\n                    child_tuples.append(\n                        seg.to_tuple(\n                            code_only=code_only,\n                            show_raw=False,\n",
        "R28c", "to_tuple",
    ),
    Variant(
        "to-tuple-visits-non-comments-view", SEGBASE,
        "            child_tuples = []\n            for seg in self.segments:\n                if include_meta or not seg.is_meta:\n",
        "            child_tuples = []\n            for seg in self._non_comments:\n                if include_meta or not seg.is_meta:\n",
        "R28c", "to_tuple",
    ),
    Variant(
        "leaf-text-upper-cased", SEGBASE,
        "            base_tuple = (self.get_type(), self.raw)\n",
        "            base_tuple = (self.get_type(), self.raw_upper)\n",
        "R28c", "to_tuple",
    ),
    Variant(
        "child-tuples-sorted", SEGBASE,
        "                            include_position=include_position,\n                        )\n                    )\n            base_tuple = (self.get_type(), tuple(child_tuples))\n\n        # Add position",
        "                            include_position=include_position,\n                        )\n                    )\n            child_tuples.sort(key=lambda t: t[0])\n            base_tuple = (self.get_type(), tuple(child_tuples))\n\n        # Add position",
        "R28c", "to_tuple",
    ),
    Variant(
        "keyword-segment-overrides-to-tuple", "src/sqlfluff/core/parser/segments/keyword.py",
        "class KeywordSegment(WordSegment):\n",
        "class KeywordSegment(WordSegment):\n    def to_tuple(self, **kwargs):  # noqa: D102\n        return (self.get_type(), self.raw.upper())\n\n",
        "R28c", "KeywordSegment", count=1,
    ),
]
