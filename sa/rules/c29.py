"""C29 — dialect definitions are complete.

R29a  every Ref / keyword reference reachable from a dialect's root segment resolves
      in the expanded library of that dialect (graph walk over the resolved grammar:
      match_grammar, elements, terminators, exclude, delimiter, bracket overrides,
      Conditional metas, Ref targets, bracket start/end look-ups)
R29b  every entry of the dialect lookup imports, exposes the named Dialect object,
      loads, expands, its root segment resolves and it has lexer matchers; every
      Bracketed.bracket_type (and every bracket set used by Bracketed / Delimited)
      exists in the dialect's bracket sets and every start/end reference of those
      sets resolves

The grammar object graph comes from ``sa/grammar_frontend.py`` (imports the dialect
modules of the analysed tree and serialises the objects; never lexes or parses).
A finding of R29a is keyed ``(dialect, reference name, declaring class)``.
"""

from __future__ import annotations

import ast
import json
import os
from typing import Dict, List, Optional, Tuple

from ..grammar import LEGAL_BRACKET_SETS, DialectGraph, Grammar, keyword_of, load_grammar
from ..index import AnalysisError, Repo, call_name, norm

SELFTEST_NEEDS_FILES = True

DIALECTS_INIT = "src/sqlfluff/core/dialects/__init__.py"
DIALECTS_BASE = "src/sqlfluff/core/dialects/base.py"
DIALECT_DIR = "src/sqlfluff/dialects"


# -- static facts from the source ------------------------------------------------------


def static_lookup(repo: Repo) -> Tuple[Dict[str, Tuple[str, str]], ast.AST]:
    """The ``_dialect_lookup`` table as written in the source."""
    m = repo.mod(DIALECTS_INIT)
    # the loader must still be driven by this table
    loader = repo.fn(DIALECTS_INIT, "load_raw_dialect")
    uses = [n for n in ast.walk(loader) if isinstance(n, ast.Name) and n.id == "_dialect_lookup"]
    if not uses:
        raise AnalysisError("load_raw_dialect no longer reads _dialect_lookup; re-read core/dialects/__init__.py")
    for node in m.tree.body:
        tgt = val = None
        if isinstance(node, ast.Assign) and len(node.targets) == 1:
            tgt, val = node.targets[0], node.value
        elif isinstance(node, ast.AnnAssign):
            tgt, val = node.target, node.value
        if isinstance(tgt, ast.Name) and tgt.id == "_dialect_lookup" and isinstance(val, ast.Dict):
            out = {}
            for k, v in zip(val.keys, val.values):
                if not (isinstance(k, ast.Constant) and isinstance(k.value, str)):
                    raise AnalysisError("_dialect_lookup has a non-literal key")
                if isinstance(v, ast.Tuple) and len(v.elts) == 2 and all(isinstance(e, ast.Constant) and isinstance(e.value, str) for e in v.elts):
                    out[k.value] = (v.elts[0].value, v.elts[1].value)
                else:
                    raise AnalysisError(f"_dialect_lookup[{k.value!r}] is not a (module, object) pair of literals")
            return out, node
    raise AnalysisError("anchor not found: module-level dict _dialect_lookup in core/dialects/__init__.py")


def _class_defs(repo: Repo, name: str) -> List[Tuple[object, ast.ClassDef]]:
    return list(repo.class_index().get(name, ()))


def _matches_ref(node: ast.AST, ref_name: str) -> bool:
    """Is ``node`` the source spelling of a reference to library name ``ref_name``?"""
    if not (isinstance(node, ast.Constant) and isinstance(node.value, str)):
        return False
    kw = keyword_of(ref_name)
    if node.value == ref_name:
        return True
    if kw is not None and node.value.capitalize() + "KeywordSegment" == ref_name:
        return True
    return False


def _first_ref_line(tree: ast.AST, ref_name: str) -> Optional[int]:
    best = None
    for n in ast.walk(tree):
        if _matches_ref(n, ref_name):
            if best is None or n.lineno < best:
                best = n.lineno
    return best


class Locator:
    """Finds the source construct that spells a reference (static, via chk.repo)."""

    def __init__(self, repo: Repo, g: Grammar):
        self.repo = repo
        self.g = g
        self._entries: Optional[Dict[str, List[Tuple[str, ast.AST]]]] = None

    def module_chain(self, d: DialectGraph) -> List[str]:
        """Relative paths of the dialect's module and of the dialects it inherits from."""
        out = []
        seen = set()
        cur: Optional[DialectGraph] = d
        while cur is not None and cur.label not in seen:
            seen.add(cur.label)
            if cur.module:
                out.append(cur.module)
            parent = cur.inherits_from
            cur = None
            if parent:
                for cand in self.g.values():
                    if cand.name == parent or cand.label == parent:
                        cur = cand
                        break
        return out

    def library_entries(self) -> Dict[str, List[Tuple[str, ast.AST]]]:
        """library name -> [(module rel path, value expression)] from ``X.add(..)/X.replace(..)``."""
        if self._entries is None:
            ent: Dict[str, List[Tuple[str, ast.AST]]] = {}
            for m in self.repo.iter_modules(DIALECT_DIR + "/"):
                for n in ast.walk(m.tree):
                    if isinstance(n, ast.Call) and isinstance(n.func, ast.Attribute) and n.func.attr in ("add", "replace"):
                        for k in n.keywords:
                            if k.arg:
                                ent.setdefault(k.arg, []).append((m.relpath, k.value))
            self._entries = ent
        return self._entries

    def locate(self, d: DialectGraph, owner: int, ref_name: str) -> Tuple[str, int, str]:
        """(module rel path, line, how) of the reference ``ref_name`` inside ``owner``."""
        n = d.nodes[owner]
        if n.get("family") == "segment":
            mod = n.get("module") or "?"
            # the class itself, then the classes it was derived from (grammar copied via .copy())
            names = [n["name"]] + [b for b in n.get("bases", [])[1:]]
            tried = set()
            for depth, cname in enumerate(names):
                cands = _class_defs(self.repo, cname)
                # prefer the definition in the owner's module, then modules of the dialect chain
                chain = [mod] + self.module_chain(d)
                cands.sort(key=lambda mc: (chain.index(mc[0].relpath) if mc[0].relpath in chain else 99, mc[0].relpath))
                for m, c in cands:
                    if depth == 0 and m.relpath != mod:
                        continue
                    if (m.relpath, c.lineno) in tried:
                        continue
                    tried.add((m.relpath, c.lineno))
                    ln = _first_ref_line(c, ref_name)
                    if ln is not None:
                        how = "in class body" if depth == 0 else f"inherited from {cname} (grammar copied)"
                        return m.relpath, ln, how
            return mod, int(n.get("line") or 0), "class (reference built indirectly)"
        name = d.display(owner)
        ents = self.library_entries().get(name, [])
        chain = self.module_chain(d)
        ents = sorted(ents, key=lambda e: (chain.index(e[0]) if e[0] in chain else 99, e[0]))
        for rel, val in ents:
            if rel not in chain:
                continue
            ln = _first_ref_line(val, ref_name)
            if ln is not None:
                return rel, ln, "in library entry"
        for rel, val in ents:
            if rel in chain:
                return rel, getattr(val, "lineno", 0), "library entry (reference built indirectly)"
        return d.module or "?", 0, "library entry (definition site not found)"


# -- the rules -------------------------------------------------------------------------


def ref_display(ref_name: str) -> str:
    kw = keyword_of(ref_name)
    return kw if kw is not None else ref_name


def collect_unresolved(g: Grammar, loc: Locator, counts: Dict[str, int]):
    """All (dialect, reference, declaring construct) triples that do not resolve."""
    out = []
    for label in sorted(g):
        d = g[label]
        if d.root is None:
            continue
        reach = d.reach()
        counts["reachable_nodes"] = counts.get("reachable_nodes", 0) + len(reach)
        seen = set()
        for i in sorted(reach):
            n = d.nodes[i]
            if "ref" not in n:
                continue
            counts["references"] = counts.get("references", 0) + 1
            r = n["ref"]
            tgt = d.library.get(r)
            if tgt is not None:
                tk = d.nodes[tgt]
                if tk.get("family") in ("segment", "grammar", "parser", "matcher"):
                    counts["resolved"] = counts.get("resolved", 0) + 1
                    continue
                problem = f"resolves to a {tk['kind']} object, which is not matchable"
            else:
                problem = "is not defined"
            owners = [o for o in d.owners(i) if o in reach] or [i]
            for o in owners:
                key = (label, r, d.display(o))
                if key in seen:
                    continue
                seen.add(key)
                mod, line, how = loc.locate(d, o, r)
                out.append({
                    "dialect": label, "ref_name": r, "ref": ref_display(r), "is_keyword": keyword_of(r) is not None,
                    "declaring_class": d.display(o), "owner_is_class": d.nodes[o].get("family") == "segment",
                    "owner_module": d.nodes[o].get("module") or mod, "module": mod, "line": line, "how": how,
                    "chain": d.chain(i), "problem": problem, "node": i,
                })
    return out


def run(chk) -> None:
    repo = chk.repo
    chk.rule("R29a", "every Ref/keyword reference reachable from each dialect's root segment resolves to a matchable in the dialect's expanded library")
    chk.rule("R29b", "every dialect of the lookup imports, exposes its Dialect object, expands, has a resolving root segment and lexer matchers; every bracket type/set used exists and its start/end references resolve")
    table, table_node = static_lookup(repo)
    in_selftest = getattr(chk, "in_selftest", False)
    g = load_grammar(repo, cache=not in_selftest, rebuild=(chk.tier == "thorough" and not in_selftest))
    fl = {k: tuple(v) for k, v in g.lookup.items()}
    if fl != table:
        raise AnalysisError(
            "the grammar front-end saw a different dialect lookup than the source text "
            f"(source only: {sorted(set(table) - set(fl))}, front-end only: {sorted(set(fl) - set(table))})"
        )
    chk.count("R29b.lookup_entries", len(table))
    chk.floor("R29b.lookup_entries", 20)
    chk.note(f"grammar front-end: {len(g)} dialects, {g.n_nodes} nodes ({'cache' if g.from_cache else 'rebuilt'}).")
    lookup_construct = f"{DIALECTS_INIT}::_dialect_lookup"
    lookup_loc = f"{DIALECTS_INIT}:{table_node.lineno}"

    # ---- R29b: loading ----------------------------------------------------------
    for label in sorted(table):
        module_name, obj_name = table[label]
        d = g.get(label)
        rel = f"{DIALECT_DIR}/{module_name}.py"
        chk.require(
            rel in repo.modules, "R29b", None,
            f"dialect {label!r}: module sqlfluff.dialects.{module_name} named by the lookup does not exist",
            detail=f"dialect={label} module exists", construct=lookup_construct, loc=lookup_loc,
        )
        if d is None:
            raise AnalysisError(f"front-end produced no record for dialect {label}")
        err = d.error
        if err and err.get("stage") != "root":
            fr = err.get("frame") or {}
            where = f"{fr.get('file')}:{fr.get('line')}" if fr else rel
            chk.fail(
                "R29b", None,
                f"dialect {label!r} does not load: stage '{err['stage']}' raised {err['type']}: {err['message'][:200]} "
                f"(innermost repository frame {where} in {fr.get('func')}: {fr.get('text')})",
                detail=f"dialect={label} loads", construct=lookup_construct, loc=where,
                extra={"stage": err["stage"], "frame": fr},
            )
            continue
        chk.ok("R29b", lookup_construct, f"dialect={label} loads")
        chk.require(
            d.root is not None, "R29b", None,
            f"dialect {label!r}: root segment {d.root_segment_name!r} is not defined in the expanded library",
            detail=f"dialect={label} root resolves", construct=f"{rel}::{obj_name}", loc=f"{rel}:0",
        )
        chk.require(
            len(d.lexer) > 0, "R29b", None,
            f"dialect {label!r} has no lexer matchers (get_lexer_matchers raises)",
            detail=f"dialect={label} lexer matchers", construct=f"{rel}::{obj_name}", loc=f"{rel}:0",
        )
        if d.root is None:
            continue
        # ---- R29b: bracket sets -------------------------------------------------
        reach = d.reach()
        dconstruct = f"{rel}::{obj_name}"
        chk.require(
            bool(d.bracket_sets.get("bracket_pairs")), "R29b", None,
            f"dialect {label!r}: the 'bracket_pairs' set is empty; bracket-aware matching unpacks it unconditionally",
            detail=f"dialect={label} bracket_pairs non-empty", construct=dconstruct, loc=f"{rel}:0",
        )
        for set_label, entries in sorted(d.bracket_sets.items()):
            for ent in entries:
                for role, r in (("start", ent[1]), ("end", ent[2])):
                    chk.count("R29b.bracket_set_refs")
                    chk.require(
                        r in d.library, "R29b", None,
                        f"dialect {label!r}: {set_label} entry {ent[0]!r} names {role} bracket {r!r} which is not in the library",
                        detail=f"dialect={label} {set_label}.{ent[0]}.{role}={r}", construct=dconstruct, loc=f"{rel}:0",
                    )
        used_sets = {}
        for i in reach:
            n = d.nodes[i]
            if "bracket_type" in n:
                chk.count("R29b.bracketed_nodes")
                bset = n.get("bracket_pairs_set", "bracket_pairs")
                ent = d.bracket_entry(i)
                ok = bset in LEGAL_BRACKET_SETS and ent is not None and ent[1] in d.library and ent[2] in d.library
                if ok:
                    chk.obligations += 1
                    chk.discharged += 1
                    continue
                for o in [x for x in d.owners(i) if x in reach] or [i]:
                    on = d.nodes[o]
                    mod = on.get("module") or rel
                    if bset not in LEGAL_BRACKET_SETS:
                        why = f"bracket_pairs_set {bset!r} is not one of {LEGAL_BRACKET_SETS} (Dialect.bracket_sets asserts)"
                    elif ent is None:
                        why = f"bracket_type {n['bracket_type']!r} is not in the dialect's {bset} set (get_bracket_from_dialect raises ValueError)"
                    else:
                        why = f"bracket {n['bracket_type']!r} refers to {ent[1]!r}/{ent[2]!r}, not both in the library"
                    chk.fail(
                        "R29b", None,
                        f"dialect {label!r}: Bracketed in {d.display(o)}: {why}; chain {' > '.join(d.chain(i))}",
                        detail=f"dialect={label} bracket={bset}.{n['bracket_type']} in={d.display(o)}",
                        construct=f"{mod}::{d.display(o)}", loc=f"{mod}:{on.get('line', 0)}",
                    )
            elif "bracket_pairs_set" in n:  # Delimited
                chk.count("R29b.delimited_nodes")
                used_sets.setdefault(n["bracket_pairs_set"], i)
        for bset, i in sorted(used_sets.items()):
            ok = bset in LEGAL_BRACKET_SETS and bool(d.bracket_sets.get(bset))
            owner = ([x for x in d.owners(i) if x in reach] or [i])[0]
            chk.require(
                ok, "R29b", None,
                f"dialect {label!r}: Delimited in {d.display(owner)} uses bracket set {bset!r} which is "
                f"{'not a legal set name' if bset not in LEGAL_BRACKET_SETS else 'empty in this dialect'}",
                detail=f"dialect={label} delimited bracket set={bset}", construct=dconstruct, loc=f"{rel}:0",
            )
    # Floors are anchors for "the walk saw the grammar"; a dialect that does not load or has
    # no root is already reported above as a violation and must not turn into exit 2.
    n_walked = sum(1 for lab in table if g[lab].root is not None)
    chk.count("R29b.dialects_walked", n_walked)
    all_walked = n_walked == len(table)
    if all_walked:
        chk.floor("R29b.bracketed_nodes", 1000)
        chk.floor("R29b.bracket_set_refs", 100)

    # ---- R29c: a referenced segment class must be matchable ----------------------------
    _r29c(chk, repo, g, table)
    # ---- R29d: a dialect module changes only its own dialect object -------------------
    _r29d(chk, repo)

    # ---- R29a -----------------------------------------------------------------------
    counts: Dict[str, int] = {}
    loc = Locator(repo, g)
    unresolved = collect_unresolved(g, loc, counts)
    for k, v in counts.items():
        chk.count(f"R29a.{k}", v)
    chk.obligations += counts.get("resolved", 0)
    chk.discharged += counts.get("resolved", 0)
    for u in unresolved:
        what = (
            f"keyword {u['ref']!r} (library name {u['ref_name']!r})" if u["is_keyword"] else f"Ref({u['ref_name']!r})"
        )
        chk.fail(
            "R29a", None,
            f"dialect {u['dialect']!r}: {what} used by {u['declaring_class']} {u['problem']} in the expanded "
            f"{u['dialect']} library; declared at {u['module']}:{u['line']} ({u['how']}); "
            f"reached via {' > '.join(u['chain'])}; any statement whose parse tries this branch raises RuntimeError",
            detail=f"dialect={u['dialect']} ref={u['ref']} in={u['declaring_class']}",
            construct=f"{u['owner_module']}::{u['declaring_class']}",
            loc=f"{u['module']}:{u['line']}",
            extra={"chain": u["chain"], "ref_name": u["ref_name"]},
        )
    # samples of discharged obligations
    for label in ("ansi", "postgres", "tsql"):
        d = g.get(label)
        if d is None or d.root is None:
            continue
        k = 0
        for i in sorted(d.reach()):
            n = d.nodes[i]
            if "ref" in n and n["ref"] in d.library and k < 2:
                t = d.nodes[d.library[n["ref"]]]
                chk.sample({"rule": "R29a", "dialect": label, "ref": n["ref"], "resolves_to": t["kind"], "chain": d.chain(i)[-4:]})
                k += 1
    if all_walked:
        chk.floor("R29a.references", 20000)
        chk.floor("R29a.reachable_nodes", 50000)
    elif n_walked:
        chk.floor("R29a.references", 500 * n_walked)
    chk.exhaustive = True
    chk.extra["unresolved_references"] = len(unresolved)
    chk._c29_unresolved = unresolved  # for the findings dump


_SET_MUTATORS = {"add", "update", "discard", "remove", "clear", "difference_update", "intersection_update", "symmetric_difference_update", "pop", "extend", "append", "insert"}
_DIALECT_MUTATORS = {"replace", "add", "patch_lexer_matchers", "insert_lexer_matchers", "set_lexer_matchers", "update_keywords_set_from_multiline_string", "update_bracket_sets", "add_update_segments"}


def _r29d(chk, repo) -> None:
    """Raw dialect objects are process-wide singletons (load_raw_dialect caches the module).  A dialect
    module that edits the object of ANOTHER dialect (its parent, say) changes that dialect for every later
    user in the process: which keywords ansi has then depends on whether teradata was imported before --
    a reference that resolves in a fresh process dangles after another dialect has been loaded."""
    chk.rule("R29d", "a dialect module mutates only the dialect object it creates itself (copy_as / Dialect(...)); dialect objects obtained with load_raw_dialect are read, never changed")
    n_mod = n_calls = 0
    for m in repo.iter_modules(DIALECT_DIR + "/"):
        base = m.relpath.split("/")[-1]
        if not base.startswith("dialect_") or base.endswith("_keywords.py"):
            continue
        own, foreign = set(), set()
        for st in m.tree.body:
            tgt = None  # `x = f(..)` and the annotated spelling `x: T = f(..)`
            if isinstance(st, ast.Assign) and len(st.targets) == 1 and isinstance(st.targets[0], ast.Name) and isinstance(st.value, ast.Call):
                tgt = st.targets[0].id
            elif isinstance(st, ast.AnnAssign) and isinstance(st.target, ast.Name) and isinstance(st.value, ast.Call):
                tgt = st.target.id
            if tgt is not None:
                fn = call_name(st.value)
                if fn.endswith(".copy_as") or fn.split(".")[-1] == "Dialect":
                    own.add(tgt)
                elif fn.split(".")[-1] == "load_raw_dialect":
                    foreign.add(tgt)
        if not own:
            continue
        n_mod += 1
        for c in ast.walk(m.tree):
            if not (isinstance(c, ast.Call) and isinstance(c.func, ast.Attribute)):
                continue
            root, chain = c.func.value, [c.func.attr]
            while isinstance(root, (ast.Attribute, ast.Call, ast.Subscript)):
                if isinstance(root, ast.Attribute):
                    chain.append(root.attr)
                root = root.func if isinstance(root, ast.Call) else root.value
            if not (isinstance(root, ast.Name) and root.id in foreign - own):
                continue
            n_calls += 1
            mutates = (chain[0] in _SET_MUTATORS and ("sets" in chain or "bracket_sets" in chain)) or (len(chain) == 1 and chain[0] in _DIALECT_MUTATORS)
            chk.require(
                not mutates, "R29d", c,
                f"{base} changes the dialect object `{root.id}` that it only loaded (`{norm(c)[:80]}`): raw dialects are shared by the whole process, so every dialect "
                "that inherits from it later -- and that dialect itself -- loses or gains the entry depending on import order; references that resolve in a fresh "
                "process then dangle (RuntimeError at parse time)",
                detail=f"{base}: only its own dialect object is mutated ({root.id}.{'.'.join(reversed(chain))})",
            )
    chk.count("R29d.dialect_modules", n_mod)
    chk.count("R29d.calls_on_loaded_dialects", n_calls)
    chk.floor("R29d.dialect_modules", 20)


def _class_index(repo) -> Dict[str, List[Tuple[object, ast.ClassDef]]]:
    idx: Dict[str, List[Tuple[object, ast.ClassDef]]] = {}
    for prefix in ("src/sqlfluff/core/parser/", "src/sqlfluff/dialects/"):
        for m in repo.iter_modules(prefix):
            for q, c in m.classes():
                idx.setdefault(c.name, []).append((m, c))
    return idx


def _class_attr(repo, m, c, name: str):
    """Constant value of class attribute ``name`` along the source MRO (None when not a constant)."""
    for mm, cc in repo.mro(m, c):
        for st in cc.body:
            if isinstance(st, ast.Assign) and any(isinstance(t, ast.Name) and t.id == name for t in st.targets):
                return st.value.value if isinstance(st.value, ast.Constant) else None
            if isinstance(st, ast.AnnAssign) and isinstance(st.target, ast.Name) and st.target.id == name and st.value is not None:
                return st.value.value if isinstance(st.value, ast.Constant) else None
    return None


def _r29c(chk, repo, g, table) -> None:
    """BaseSegment.match consumes a token that already is an instance of the class and otherwise
    asserts on / dereferences ``cls.match_grammar`` (so does ``simple()``, which option pruning
    calls).  A Ref to a segment class that has neither a match_grammar nor its own match
    therefore raises AssertionError/AttributeError as soon as it meets a token that is not an
    instance -- unless every code token the dialect's lexer can produce is an instance."""
    chk.rule(
        "R29c",
        "every reachable Ref to a segment class resolves to a class that can be matched: it has a match_grammar or its own "
        "match(), or every code-token class of the dialect's lexer is a subclass of it (so the instance test always succeeds)",
    )
    cidx = _class_index(repo)

    def lexer_classes(d) -> List[str]:
        out = []

        def go(rec):
            if rec is None:
                return
            out.append(rec.get("segment_class"))
            go(rec.get("subdivider"))
            go(rec.get("trim_post_subdivide"))

        for rec in d.lexer:
            go(rec)
        return sorted({c for c in out if c})

    def always_instance(d, target: str) -> Tuple[bool, List[str]]:
        bad = []
        for cname in lexer_classes(d):
            defs = cidx.get(cname)
            if not defs:
                bad.append(cname + " (class not found in source)")
                continue
            for m, c in defs:
                if _class_attr(repo, m, c, "_is_code") is False or _class_attr(repo, m, c, "is_meta") is True:
                    continue  # non-code tokens are skipped by the grammars before a Ref is tried
                if not any(cc.name == target for _, cc in repo.mro(m, c)):
                    bad.append(cname)
        return (not bad), sorted(set(bad))

    for label in sorted(table):
        d = g.get(label)
        if d is None or d.root is None:
            continue
        reach = d.reach()
        seen = set()
        for i in sorted(reach):
            n = d.nodes[i]
            ref = n.get("ref")
            if not ref or ref not in d.library:
                continue
            t = d.nodes[d.library[ref]]
            if t.get("family") != "segment" or t.get("kind") != "segment":
                continue
            chk.count("R29c.refs_to_segment_classes")
            if t.get("match_grammar") is not None or t.get("own_match"):
                chk.obligations += 1
                chk.discharged += 1
                continue
            ok, bad = always_instance(d, t["name"])
            for o in [x for x in d.owners(i) if x in reach] or [i]:
                on = d.nodes[o]
                mod = on.get("module") or f"{DIALECT_DIR}/{table[label][0]}.py"
                key = (d.display(o), ref)
                if key in seen:
                    continue
                seen.add(key)
                chk.require(
                    ok, "R29c", None,
                    f"dialect {label!r}: Ref({ref!r}) in {d.display(o)} resolves to segment class {t['name']} "
                    f"({t.get('module')}:{t.get('line')}) which has no match_grammar and no match() of its own: BaseSegment.match / "
                    f"simple() fail (AssertionError / AttributeError) for any token that is not already an instance, e.g. tokens lexed as "
                    f"{bad[:4]}; chain {' > '.join(d.chain(i))}",
                    detail=f"dialect={label} ref={ref} in={d.display(o)} (class without match_grammar)",
                    construct=f"{mod}::{d.display(o)}", loc=f"{mod}:{on.get('line', 0)}",
                )
    if all(g.get(lab) is not None and g[lab].root is not None for lab in table):
        chk.floor("R29c.refs_to_segment_classes", 5000)


# -- machine-readable list of today's findings ------------------------------------------


def _classify(u, g: Grammar) -> Tuple[str, str]:
    """(root cause group, proposed minimal fix) for one unresolved reference."""
    ref, rn, dl = u["ref"], u["ref_name"], u["dialect"]
    mod = u["module"]
    defining = os.path.basename(mod)[len("dialect_"):-3] if os.path.basename(mod).startswith("dialect_") else None
    if u["is_keyword"] and not (ref.replace("_", "").isalnum() and not ref[0].isdigit()):
        sym = {",": 'Ref("CommaSegment")', "=": 'Ref("EqualsSegment")'}.get(ref)
        if sym is None and ref.isdigit():
            sym = f'StringParser("{ref}", LiteralSegment, type="numeric_literal") (or Ref("NumericLiteralSegment"))'
        return (
            "bare-symbol-string",
            f"{mod}:{u['line']}: the bare string {ref!r} is turned into Ref.keyword({ref!r}) by BaseGrammar._resolve_ref; "
            f"replace it with {sym or 'the matching symbol segment Ref'}",
        )
    if not u["is_keyword"]:
        cands = []
        d = g[dl]
        if rn.capitalize() + "KeywordSegment" in d.library or rn.isupper():
            cands.append(f'Ref.keyword("{rn}"' + (", optional=True)" if rn == "COLUMN" else ")"))
        if rn + "Segment" in d.library:
            cands.append(f'Ref("{rn}Segment")')
        if not cands:
            return (
                "ref-to-undefined-name",
                f"{mod}:{u['line']}: Ref({rn!r}) names no library entry; define {rn} in {mod} "
                f"(e.g. as an ObjectReferenceSegment subclass) or reference an existing segment",
            )
        return ("ref-to-undefined-name", f"{mod}:{u['line']}: Ref({rn!r}) names no library entry; write {' or '.join(cands)}")
    kw_file = f"src/sqlfluff/dialects/dialect_{dl}_keywords.py"
    if defining and defining != dl:
        dd = g.get(defining)
        if dd is not None and rn not in dd.library:
            return (
                f"keyword-missing-in-defining-dialect:{defining}",
                f"add {ref} to the unreserved keywords of '{defining}' (where {u['declaring_class']} is written) and make sure "
                f"'{dl}' receives it (its keyword sets are built separately): add {ref} to {dl}'s unreserved_keywords",
            )
        return (
            f"inherited-grammar-keyword-not-in-dialect:{defining}->{dl}",
            f"'{dl}' inherits {u['declaring_class']} from '{defining}' but builds its own keyword sets without {ref}: "
            f"add {ref} to {dl}'s unreserved_keywords ({kw_file} if present) or override the segment in dialect_{dl}.py without that branch",
        )
    return (
        "keyword-missing-in-own-dialect",
        f"{mod}:{u['line']} uses keyword {ref} which is in none of {dl}'s keyword sets: add {ref} to {dl}'s unreserved_keywords ({kw_file} if present)",
    )


def dump_findings(root: str, path: str) -> int:
    from ..report import Check

    repo = Repo(root)
    chk = Check("C29", repo, "quick")
    chk.in_selftest = False
    run(chk)
    g = load_grammar(repo)
    by_key = {f.detail: f for f in chk.findings if f.rule == "R29a"}
    out = []
    for u in chk._c29_unresolved:
        detail = f"dialect={u['dialect']} ref={u['ref']} in={u['declaring_class']}"
        f = by_key[detail]
        group, fix = _classify(u, g)
        out.append({
            "key": f.key, "dialect": u["dialect"], "ref": u["ref"], "ref_name": u["ref_name"],
            "declaring_class": u["declaring_class"], "module": u["module"], "line": u["line"], "how": u["how"],
            "chain": u["chain"], "root_cause": group, "proposed_fix": fix,
        })
    with open(path, "w") as fh:
        json.dump(out, fh, indent=1)
    return len(out)


# -- self-test variants -------------------------------------------------------------------

from ..selftest import Variant  # noqa: E402

ANSI = "src/sqlfluff/dialects/dialect_ansi.py"
ANSI_KW = "src/sqlfluff/dialects/dialect_ansi_keywords.py"
PG = "src/sqlfluff/dialects/dialect_postgres.py"
TSQL = "src/sqlfluff/dialects/dialect_tsql.py"
BQ = "src/sqlfluff/dialects/dialect_bigquery.py"

VARIANTS = [
    Variant(
        "teradata-edits-the-shared-ansi-dialect", "src/sqlfluff/dialects/dialect_teradata.py",
        "teradata_dialect.sets(\"unreserved_keywords\").difference_update(\n",
        "ansi_dialect.sets(\"unreserved_keywords\").discard(\"SETS\")\nteradata_dialect.sets(\"unreserved_keywords\").difference_update(\n",
        "R29d", "dialect_teradata.py", "seeded C29-1: importing teradata strips SETS from ansi for the rest of the process",
    ),
    Variant(
        "tsql-ref-to-raw-class-without-grammar", "src/sqlfluff/dialects/dialect_tsql.py",
        "            \"REMOVE\",\n            \"FILE\",\n            Ref(\"NakedOrQuotedIdentifierGrammar\"),\n",
        "            \"REMOVE\",\n            \"FILE\",\n            Ref(\"LiteralSegment\"),\n",
        "R29c", "ref=LiteralSegment", "the defect repaired by 428a36a: AttributeError for `ALTER DATABASE d REMOVE FILE f1;`",
    ),
    Variant(
        "quiet-tsql-ref-to-code-segment-kept", "src/sqlfluff/dialects/dialect_tsql.py",
        "            \"REMOVE\",\n            \"FILE\",\n            Ref(\"NakedOrQuotedIdentifierGrammar\"),\n",
        "            \"REMOVE\",\n            \"FILE\",\n            OneOf(Ref(\"NakedOrQuotedIdentifierGrammar\"), Ref(\"QuotedLiteralSegment\")),\n",
        "QUIET", None, "a grammar change that keeps every reference resolvable and matchable",
    ),
    # behaviour-preserving refactors: must stay quiet
    Variant(
        "quiet-ansi-element-wrapped-in-one-element-sequence", ANSI,
        '        "TRUNCATE",\n        Ref.keyword("TABLE", optional=True),\n        Ref("TableReferenceSegment"),\n',
        '        "TRUNCATE",\n        Ref.keyword("TABLE", optional=True),\n        Sequence(Ref("TableReferenceSegment")),\n',
        "QUIET", None, "an element wrapped in a one-element Sequence",
    ),
    Variant(
        "quiet-ansi-element-wrapped-in-one-element-oneof", ANSI,
        '        Delimited(Ref("TableReferenceSegment")),\n        Ref("DropBehaviorGrammar", optional=True),\n    )\n\n\nclass DropViewStatementSegment',
        '        Delimited(OneOf(Ref("TableReferenceSegment"))),\n        Ref("DropBehaviorGrammar", optional=True),\n    )\n\n\nclass DropViewStatementSegment',
        "QUIET", None, "an element wrapped in a one-element OneOf",
    ),
    Variant(
        "quiet-ansi-keyword-list-entries-swapped", ANSI_KW,
        "\nWAREHOUSE\nWAREHOUSES\n",
        "\nWAREHOUSES\nWAREHOUSE\n",
        "QUIET", None, "two entries of a keyword list swapped",
    ),
    Variant(
        "quiet-ansi-unreferenced-segment-added", ANSI,
        "class DropIndexStatementSegment(BaseSegment):\n",
        "class SpareDemoStatementSegment(BaseSegment):\n    \"\"\"A segment nothing refers to.\"\"\"\n\n    type = \"spare_demo_statement\"\n    match_grammar: Matchable = Sequence(\"DROP\", Ref(\"SingleIdentifierGrammar\"))\n\n\nclass DropIndexStatementSegment(BaseSegment):\n",
        "QUIET", None, "a harmless segment class that nothing references",
    ),
    Variant(
        "quiet-ansi-keyword-string-as-ref-keyword", ANSI,
        '        "TRUNCATE",\n        Ref.keyword("TABLE", optional=True),\n        Ref("TableReferenceSegment"),\n',
        '        Ref.keyword("TRUNCATE"),\n        Ref.keyword("TABLE", optional=True),\n        Ref("TableReferenceSegment"),\n',
        "QUIET", None, "a bare keyword string spelled Ref.keyword(..)",
    ),
    Variant(
        "quiet-ansi-bracketed-explicit-default-type", ANSI,
        '    match_grammar = Sequence(\n        Bracketed(\n            Ref(\n                "FunctionContentsGrammar",\n                # The brackets might be empty for some functions...\n                optional=True,\n            ),\n        ),\n',
        '    match_grammar = Sequence(\n        Bracketed(\n            Ref(\n                "FunctionContentsGrammar",\n                # The brackets might be empty for some functions...\n                optional=True,\n            ),\n            bracket_type="round",\n        ),\n',
        "QUIET", None, "the default bracket type written out",
    ),
    Variant(
        "quiet-dialect-lookup-entries-reordered", DIALECTS_INIT,
        '    "ansi": ("dialect_ansi", "ansi_dialect"),\n    "athena": ("dialect_athena", "athena_dialect"),\n',
        '    "athena": ("dialect_athena", "athena_dialect"),\n    "ansi": ("dialect_ansi", "ansi_dialect"),\n',
        "QUIET", None, "two entries of the lookup table swapped",
    ),
    Variant(
        "quiet-teradata-dialect-objects-annotated", "src/sqlfluff/dialects/dialect_teradata.py",
        'ansi_dialect = load_raw_dialect("ansi")\nteradata_dialect = ansi_dialect.copy_as(\n',
        'ansi_dialect: "Dialect" = load_raw_dialect("ansi")\nteradata_dialect: "Dialect" = ansi_dialect.copy_as(\n',
        "QUIET", None, "module-level dialect objects given an annotation",
    ),
    Variant(
        "teradata-annotated-and-edits-the-shared-ansi-dialect", "src/sqlfluff/dialects/dialect_teradata.py",
        'ansi_dialect = load_raw_dialect("ansi")\nteradata_dialect = ansi_dialect.copy_as(\n',
        'ansi_dialect: "Dialect" = load_raw_dialect("ansi")\nansi_dialect.sets("unreserved_keywords").discard("SETS")\nteradata_dialect: "Dialect" = ansi_dialect.copy_as(\n',
        "R29d", "dialect_teradata.py", "breaking twin of the annotated spelling",
    ),
    Variant(
        "ansi-unreserved-keyword-deleted", ANSI_KW,
        "\nWAREHOUSE\n", "\n",
        "R29a", "ref=WAREHOUSE", "keyword used by AccessObjectSegment disappears from the set",
    ),
    Variant(
        "ansi-reserved-keyword-deleted", ANSI_KW,
        "\nNATURAL\n", "\n",
        "R29a", "ref=NATURAL",
    ),
    Variant(
        "ref-to-undefined-segment", ANSI,
        '        "TRUNCATE",\n        Ref.keyword("TABLE", optional=True),\n        Ref("TableReferenceSegment"),',
        '        "TRUNCATE",\n        Ref.keyword("TABLE", optional=True),\n        Ref("TableReferenceSegmnet"),',
        "R29a", "ref=TableReferenceSegmnet in=TruncateStatementSegment", "typo in a Ref target",
    ),
    Variant(
        "bare-string-symbol", ANSI,
        '        Ref("IfExistsGrammar", optional=True),\n        Delimited(Ref("TableReferenceSegment")),\n        Ref("DropBehaviorGrammar", optional=True),',
        '        Ref("IfExistsGrammar", optional=True),\n        Delimited(Ref("TableReferenceSegment"), delimiter=","),\n        Ref("DropBehaviorGrammar", optional=True),',
        "R29a", "in=DropTableStatementSegment", "punctuation given as a bare string is read as a keyword",
    ),
    Variant(
        "new-keyword-not-registered", PG,
        '    match_grammar = Sequence(\n        "DISCARD",',
        '    match_grammar = Sequence(\n        "DISCARD",\n        Ref.keyword("EVERYTHINGS", optional=True),',
        "R29a", "dialect=postgres ref=EVERYTHINGS",
    ),
    Variant(
        "terminator-keyword-undefined", ANSI,
        "            terminators=[Ref(\"LimitClauseSegment\"), Ref(\"FrameClauseUnitGrammar\")],",
        "            terminators=[Ref(\"LimitClauseSegment\"), Ref(\"FrameClauseUnitGrammar\"), \"FRAMING\"],",
        "R29a", "ref=FRAMING", "dangling reference in a terminators list",
    ),
    Variant(
        "exclude-ref-undefined", ANSI,
        '        terminators=[Ref("DotSegment")],',
        '        terminators=[Ref("DotSegment")],\n        exclude=Ref("NoSuchExclusionGrammar"),',
        "R29a", "ref=NoSuchExclusionGrammar", "dangling reference in an exclude= argument",
    ),
    Variant(
        "bracket-type-unknown", ANSI,
        '        bracket_type="square",\n', '        bracket_type="squared",\n',
        "R29b", "bracket=bracket_pairs.squared", count=3,
    ),
    Variant(
        "bracket-set-ref-dangling", ANSI,
        '("square", "StartSquareBracketSegment", "EndSquareBracketSegment", False),',
        '("square", "StartSquareBracketSegment", "EndSquareBraketSegment", False),',
        "R29b", "bracket_pairs.square.end",
    ),
    Variant(
        "dialect-import-fails", BQ,
        'bigquery_dialect.bracket_sets("angle_bracket_pairs").update(',
        'bigquery_dialect.bracket_sets("angle_brackets").update(',
        "R29b", "dialect=bigquery loads", "module-level assertion fails at import",
    ),
    Variant(
        "lookup-names-missing-object", DIALECTS_INIT,
        '"trino": ("dialect_trino", "trino_dialect"),',
        '"trino": ("dialect_trino", "trino_dialects"),',
        "R29b", "dialect=trino loads",
    ),
    Variant(
        "root-segment-undefined", ANSI,
        '    root_segment_name="FileSegment",',
        '    root_segment_name="RootFileSegment",',
        "R29b", "root resolves",
    ),
]


if __name__ == "__main__":  # python -m sa.rules.c29 [root] [out.json]
    import sys

    root = sys.argv[1] if len(sys.argv) > 1 else "/repo"
    dest = sys.argv[2] if len(sys.argv) > 2 else os.path.join(os.path.dirname(os.path.dirname(os.path.dirname(os.path.abspath(__file__)))), "scratch_c29_findings.json")
    print(f"{dump_findings(root, dest)} findings written to {dest}")
