"""C13 — fixing never makes a parsable file unparsable (structural part).

Decided clause (DESIGN §3 C13): the fix loop only ever *adopts* a tree that its validation
accepted, and the validation request cannot be lost on the way up the recursion.

R13a  (must-guard) for every caller of ``apply_fixes`` outside the function itself: every
      use that lets the returned tree escape (rebinding another variable, passing it on,
      returning it) — anything but reading an attribute of it — is dominated by the truth
      of the validity component of *that* call.  The result must be unpacked into fresh
      locals; unpacking straight into the variable that is passed back in is an unguarded
      adoption.
R13b  in ``apply_fixes`` (the *request* is the local tested by the ``if`` that guards the
      call of ``validate_segment_with_reparse``):
      (i)   in the loop over an anchor's fixes every path to the next fix sets the request,
            except through the exemption ``replace`` + one edit + same ``class_types``
            (accepted as designed; checked to have exactly these three conjuncts);
            the request is never reset;
      (ii)  every recursive result's validity component, when false, sets the request, on
            every path to the next child;
      (iii) a returned validity can only come from ``validate_segment_with_reparse``, from the
            explicit arms (already unparsable: original segment returned / ``fix_even_unparsable``),
            from an arm where the request is known to be unset, or be the constant ``False``
            (validation left to the parent).  A constant ``True`` or
            a value left over from somewhere else (e.g. the last child's result) is reported.

Not decided: that validation of the edited token list implies that the re-lexed text parses.
"""

from __future__ import annotations

import ast

from ..cfg import Branch, atoms, cfg_of, origins
from ..flowutil import attr_chain, branch_of, callee, describe_origin, for_origin, is_shadowed, must_pass, param_origin
from ..index import AnalysisError, FuncNode, call_name, last_attr, norm, short, walk_local

FIX = "src/sqlfluff/core/linter/fix.py"
LINTER = "src/sqlfluff/core/linter/linter.py"
VALIDATE = "validate_segment_with_reparse"
VALID_IDX = 3  # position of the validity flag in apply_fixes' result
TREE_IDX = 0


def run(chk) -> None:
    repo = chk.repo
    chk.rule("R13a", "every use that lets the tree returned by apply_fixes escape is dominated by the truth of that call's validity flag")
    chk.rule("R13b", "apply_fixes: structural edits always request validation, a child's failed validation requests it for the parent, and a returned validity comes from the reparse check or an explicit arm, never from a constant or a stale value")
    af = repo.fn(FIX, "apply_fixes")
    _r13a(chk, repo, af)
    _r13b(chk, repo, af)


# ---------------------------------------------------------------------------
def _tuple_target(stmt, idx):
    """Name bound to component ``idx`` when ``stmt`` unpacks a call result."""
    if isinstance(stmt, ast.Assign) and len(stmt.targets) >= 1 and isinstance(stmt.targets[0], (ast.Tuple, ast.List)):
        elts = stmt.targets[0].elts
        if idx < len(elts) and not any(isinstance(e, ast.Starred) for e in elts):
            return elts[idx]
    return None


def _r13a(chk, repo, af) -> None:
    sites = []
    for m in repo.iter_modules():
        if "apply_fixes" not in m.text:
            continue
        for c in ast.walk(m.tree):
            if isinstance(c, ast.Call) and last_attr(c) == "apply_fixes" and not is_shadowed(c):
                r = callee(repo, c)
                if r is not None and r[1] is af:
                    fn = _fn_of(c)
                    if fn is not af:
                        sites.append((c, fn))
    chk.count("R13a.apply_fixes_callers", len(sites))
    chk.floor("R13a.apply_fixes_callers", 1)
    for call, fn in sites:
        cfg = cfg_of(fn)
        st = cfg.stmt_of(call)
        if not (isinstance(st, ast.Assign) and st.value is call):
            chk.fail("R13a", call, "result of apply_fixes is not unpacked into (tree, before, after, valid): the validity flag cannot gate the adoption", detail="apply_fixes result unpacked")
            continue
        tree_names = set()
        for t in st.targets:
            if isinstance(t, (ast.Tuple, ast.List)) and len(t.elts) > TREE_IDX and isinstance(t.elts[TREE_IDX], ast.Name) and not any(isinstance(e, ast.Starred) for e in t.elts):
                tree_names.add(t.elts[TREE_IDX].id)
            else:
                tree_names.add(None)
        if None in tree_names:
            chk.fail("R13a", call, "tree component of apply_fixes' result is not bound to a local", detail="apply_fixes tree component bound")
            continue
        # every use of a tree name that the unpack may reach
        rd = cfg.reaching()
        n_escape = 0
        for node in walk_local(fn):
            if not (isinstance(node, ast.Name) and isinstance(node.ctx, ast.Load) and node.id in tree_names):
                continue
            us = cfg.stmt_of(node)
            ds = rd.defs_at(us, node.id)
            if not any(d.stmt is st for d in ds):
                continue
            par = getattr(node, "_parent", None)
            if isinstance(par, ast.Attribute) and par.value is node:
                continue  # reads a property of the candidate tree (raw, source_fixes, ...)
            n_escape += 1
            guarded = False
            for e, pol in cfg.conditions(us):
                if pol and isinstance(e, ast.Name):
                    os_ = origins(cfg, e, cfg.stmt_of(e))
                    if os_ and all(o.kind == "expr" and o.expr is call and o.path == (VALID_IDX,) for o in os_):
                        guarded = True
            chk.require(
                guarded, "R13a", us,
                f"the tree produced by apply_fixes escapes through '{short(us, 70)}' without a dominating test that the call reported it valid: an edit that no longer parses is adopted",
                detail=f"adoption guarded by validity: {short(us, 90)}",
            )
            chk.sample({"rule": "R13a", "site": f"{node._module.relpath}:{node.lineno}", "use": short(us, 80), "guarded_by_validity": guarded})
        chk.count("R13a.tree_escape_sites", n_escape)
    chk.floor("R13a.tree_escape_sites", 1)


def _fn_of(node):
    p = getattr(node, "_parent", None)
    while p is not None and not isinstance(p, FuncNode):
        p = getattr(p, "_parent", None)
    return p


# ---------------------------------------------------------------------------
def _r13b(chk, repo, af) -> None:
    cfg = cfg_of(af)
    con = f"{FIX}::apply_fixes"
    # -- the request variable: the local whose truth guards the reparse check
    vcalls = [c for c in walk_local(af) if isinstance(c, ast.Call) and last_attr(c) == VALIDATE]
    chk.count("R13b.reparse_check_calls", len(vcalls))
    if not vcalls:
        chk.fail("R13b", af, "apply_fixes no longer calls validate_segment_with_reparse: nothing validates an edited segment", detail="reparse check present")
        return
    req = None
    for vc in vcalls:
        for e, pol in cfg.conditions(cfg.stmt_of(vc)):
            if pol and isinstance(e, ast.Name):
                ds = cfg.reaching().defs_at(cfg.stmt_of(e), e.id)
                if ds and all(d.kind == "assign" and isinstance(d.value, ast.Constant) and isinstance(d.value.value, bool) for d in ds):
                    req = e.id
    if req is None:
        chk.fail("R13b", vcalls[0], "the reparse check is not guarded by a boolean validation request", detail="reparse check under the request")
        return
    sets = [s for s in walk_local(af) if isinstance(s, ast.Assign) and any(isinstance(t, ast.Name) and t.id == req for t in s.targets) and isinstance(s.value, ast.Constant) and s.value.value is True]
    others = [s for s in walk_local(af) if isinstance(s, (ast.Assign, ast.AugAssign, ast.AnnAssign)) and s not in sets and any(isinstance(t, ast.Name) and t.id == req for t in (s.targets if isinstance(s, ast.Assign) else [s.target]))]
    chk.count("R13b.request_set_sites", len(sets))
    for s in others:
        late = any(cfg.reaches(x, s) for x in sets)
        chk.require(not late, "R13b", s, "the validation request is overwritten after it may have been set: the request is lost", detail=f"request never reset: {short(s, 60)}")

    _edit_loop(chk, cfg, af, req, sets)
    _recursion(chk, repo, cfg, af, req, sets)
    _returns(chk, cfg, af, req, sets, vcalls)


def _edit_type_compare(e, var):
    """('==', const) when e is ``<var>.edit_type == "const"``."""
    if isinstance(e, ast.Compare) and len(e.ops) == 1 and isinstance(e.ops[0], ast.Eq):
        ch = attr_chain(e.left)
        c = e.comparators[0]
        if ch == (var, "edit_type") and isinstance(c, ast.Constant):
            return c.value
    return None


def _exemption_kinds(test, polarity, v):
    """Classify the atoms known on one branch of an ``if`` inside the fix loop."""
    kinds = set()
    for e, pol in atoms(test, polarity):
        cmp_eq = isinstance(e, ast.Compare) and len(e.ops) == 1 and isinstance(e.ops[0], ast.Eq)
        if not pol:
            kinds.add("neg:" + short(e, 40))
        elif _edit_type_compare(e, v) == "replace":
            kinds.add("replace")
        elif cmp_eq and norm(e.left) == f"len({v}.edit)" and isinstance(e.comparators[0], ast.Constant) and e.comparators[0].value == 1:
            kinds.add("single")
        elif cmp_eq and f"{v}.edit[0].class_types" in (norm(e.left), norm(e.comparators[0])) and all(isinstance(x, ast.Attribute) and x.attr == "class_types" for x in (e.left, e.comparators[0])) and norm(e.left) != norm(e.comparators[0]):
            kinds.add("same-type")
        else:
            kinds.add("other:" + short(e, 40))
    return kinds


def _edit_loop(chk, cfg, af, req, sets) -> None:
    # the loop over the fixes of one anchor: a for whose variable's edit_type is tested in its body
    loops = []
    for n in walk_local(af):
        if isinstance(n, ast.For) and isinstance(n.target, ast.Name):
            v = n.target.id
            if any(isinstance(x, ast.Compare) and attr_chain(x.left) == (v, "edit_type") for b in n.body for x in ast.walk(b)):
                loops.append(n)
    chk.count("R13b.edit_loops", len(loops))
    chk.floor("R13b.edit_loops", 1)
    for loop in loops:
        v = loop.target.id
        bt = branch_of(cfg, loop, True)
        inner_sets = [s for s in sets if _inside(s, loop)]
        # Branches on which the accepted exemption is known to hold:
        #   replace  and  exactly one edit  and  same class_types   (nothing less)
        exempt, near = [], []
        for n in walk_local(loop):
            if not isinstance(n, ast.If):
                continue
            for pol in (True, False):
                kinds = _exemption_kinds(n.test, pol, v)
                b = branch_of(cfg, n, pol)
                if kinds == {"replace", "single", "same-type"} and b is not None:
                    exempt.append(b)
                elif kinds & {"replace", "single", "same-type"} and any(_inside(s, n) for s in inner_sets):
                    near.append(n)
        via = list(inner_sets) + exempt
        ok = bt is not None and must_pass(cfg, bt, loop, via)
        hint = f" (validation is requested under '{short(near[0].test, 90)}', which exempts more than replace + exactly one edit + same class_types)" if near and not ok else ""
        chk.require(
            ok, "R13b", loop,
            "a fix can be applied to the segment buffer and the next fix reached without requesting validation, outside the accepted same-type single replace exemption" + hint,
            detail="(i) every edit kind requests validation",
        )
        if exempt:
            chk.note("R13b(i): the same-type single-segment replace exemption from validation is accepted as designed.")
        chk.sample({"rule": "R13b", "site": f"{FIX}:{loop.lineno}", "request": req, "set_sites_in_loop": [s.lineno for s in inner_sets], "exempt_branches": len(exempt)})


def _inside(node, anc) -> bool:
    p = node
    while p is not None:
        if p is anc:
            return True
        p = getattr(p, "_parent", None)
    return False


def _recursion(chk, repo, cfg, af, req, sets) -> None:
    rec = [c for c in walk_local(af) if isinstance(c, ast.Call) and last_attr(c) == af.name and (callee(repo, c) or (None, None))[1] is af]
    chk.count("R13b.recursive_calls", len(rec))
    chk.floor("R13b.recursive_calls", 1)
    for call in rec:
        st = cfg.stmt_of(call)
        tv = _tuple_target(st, VALID_IDX) if isinstance(st, ast.Assign) and st.value is call else None
        if not isinstance(tv, ast.Name):
            chk.fail("R13b", call, "validity of a recursive apply_fixes result is dropped: a child's failed validation cannot reach the parent", detail="(ii) child validity bound")
            continue
        loop = None
        p = getattr(st, "_parent", None)
        while p is not None and p is not af:
            if isinstance(p, (ast.For, ast.While)):
                loop = p
                break
            p = getattr(p, "_parent", None)
        goal = loop if loop is not None else cfg.exit
        prop = []
        for s in sets:
            for e, pol in cfg.conditions(s):
                if not pol and isinstance(e, ast.Name):
                    os_ = origins(cfg, e, cfg.stmt_of(e))
                    if os_ and all(o.kind == "expr" and o.expr is call and o.path == (VALID_IDX,) for o in os_):
                        # nothing else may be required for the request
                        g_if = cfg.stmt_of(e)
                        if isinstance(g_if, ast.If) and len(atoms(g_if.test, True)) == 1:
                            prop.append((s, g_if))
        ok = False
        for s, g_if in prop:
            bt = branch_of(cfg, g_if, True)
            if must_pass(cfg, st, goal, [g_if]) and bt is not None and must_pass(cfg, bt, goal, [s]):
                ok = True
        chk.require(
            ok, "R13b", call,
            "a child's failed validation does not (on every path, unconditionally) request validation of the parent segment",
            detail="(ii) child not validated -> request set",
        )


def _returns(chk, cfg, af, req, sets, vcalls) -> None:
    rets = [r for r in walk_local(af) if isinstance(r, ast.Return)]
    chk.count("R13b.returns", len(rets))
    chk.floor("R13b.returns", 2)
    params = [a.arg for a in af.args.args + af.args.kwonlyargs]
    for r in rets:
        if not (isinstance(r.value, ast.Tuple) and len(r.value.elts) > VALID_IDX):
            chk.fail("R13b", r, "apply_fixes returns something other than (segment, before, after, valid)", detail=f"(iii) return shape: {short(r, 60)}")
            continue
        val = r.value.elts[VALID_IDX]
        after_request = any(cfg.reaches(s, r) for s in sets)
        if not after_request:
            chk.ok("R13b", f"{FIX}::apply_fixes", f"(iii) {short(r, 60)}: no request can be pending")
            continue
        rconds = cfg.conditions(r)
        for o in (origins(cfg, val, r) if isinstance(val, ast.Name) else [_Lit(val, r)]):
            e, at = o.expr, o.stmt
            why = None
            conds = cfg.conditions(at) if at is not None else []
            if o.kind == "expr" and not o.path and isinstance(e, ast.Call) and last_attr(e) == VALIDATE:
                why = "reparse check"
            elif any(isinstance(x, ast.Name) and x.id == req and not pol for x, pol in conds):
                why = "request known unset"
            elif o.kind == "expr" and not o.path and isinstance(e, ast.Constant) and e.value is False:
                why = "constant False: validation is left to the parent segment"
            elif o.kind == "expr" and not o.path and isinstance(e, ast.Constant) and e.value is True:
                unp = any(pol and isinstance(x, ast.Compare) and isinstance(x.ops[0], ast.In) and isinstance(x.left, ast.Constant) and x.left.value == "unparsable" for x, pol in conds)
                few = [(x, pol) for x, pol in conds if isinstance(x, ast.Name) and param_origin(cfg, x, cfg.stmt_of(x)) == "fix_even_unparsable"]
                if unp and any(pol for _, pol in few):
                    why = "fix_even_unparsable arm"
                elif unp and at is r and any(not pol for _, pol in few):
                    # already unparsable and not forced: the *original* segment must be handed back
                    first = r.value.elts[TREE_IDX]
                    if param_origin(cfg, first, r) == params[0]:
                        why = "already-unparsable arm returns the original segment"
            chk.require(
                why is not None, "R13b", r,
                f"with a validation request pending, apply_fixes can return validity = {describe_origin(o) if not isinstance(o, _Lit) else short(e, 40)}"
                f"{' (assigned at line %d)' % at.lineno if at is not None and at is not r and hasattr(at, 'lineno') else ''}; "
                "that value does not come from validate_segment_with_reparse nor from the unparsable arms, so a failed or missing validation is reported upwards as valid",
                detail=f"(iii) returned validity <- {_stable(o, af)}",
            )
            chk.sample({"rule": "R13b", "site": f"{FIX}:{r.lineno}", "validity_origin": _stable(o, af), "accepted_as": why})
        # a path to this return on which no value was ever assigned is covered by the origins above
        # only if some definition reaches; an empty set means the name is unbound here
        if isinstance(val, ast.Name) and not origins(cfg, val, r):
            chk.fail("R13b", r, "returned validity has no reaching definition", detail="(iii) returned validity defined")


class _Lit:
    """Pseudo-origin for a literal written directly in the return tuple."""

    kind, path = "expr", ()

    def __init__(self, expr, stmt):
        self.expr, self.stmt = expr, stmt


def _stable(o, af) -> str:
    e = o.expr
    if isinstance(e, ast.Call) and last_attr(e) == af.name:
        return f"recursive {af.name}(...) result" + "".join(f"[{p}]" for p in o.path)
    if isinstance(e, ast.Call):
        return f"{call_name(e).split('.')[-1]}(...)" + "".join(f"[{p}]" for p in o.path)
    if o.kind == "param":
        return f"parameter {e.arg}"
    return short(e, 60) + "".join(f"[{p}]" for p in o.path)


from ..selftest import Variant  # noqa: E402

VARIANTS = [
    # behaviour-preserving refactors: must stay quiet
    Variant(
        "quiet-adoption-chain-reordered", LINTER,
        "                            if loop_check_tuple == (tree.raw, tuple(tree.source_fixes)):\n",
        "                            nothing_applied = loop_check_tuple == (tree.raw, tuple(tree.source_fixes))\n                            if nothing_applied:\n",
        "QUIET", None, "first arm's test through a local",
    ),
    Variant(
        "quiet-validity-unpacked-by-name", LINTER,
        "                            new_tree, _, _, _valid = apply_fixes(\n",
        "                            new_tree, _before, _after, _valid = apply_fixes(\n",
        "QUIET", None, "unused tuple components named",
    ),
    Variant(
        "no-grammar-segment-keeps-child-validity", FIX,
        "        else:\n            # There's nothing to validate against here (e.g. a BracketedSegment),\n            # so hand the validation request on to the parent segment.\n            validated = False\n",
        "",
        "R13b", "(iii) returned validity", "the original defect: validity left over from the last child",
    ),
    Variant(
        "adopt-before-validity-test", LINTER,
        "                            elif not _valid:\n",
        "                            elif False:\n",
        "R13a", "lint_fix_parsed", "the arm that rejects invalid results never runs",
    ),
    Variant(
        "invalid-result-rejected-only-if-seen-before", LINTER,
        "                            elif not _valid:\n",
        "                            elif not _valid and loop_check_tuple in previous_versions:\n",
        "R13a", "lint_fix_parsed", "an invalid tree not seen before falls through to the adoption arm",
    ),
    Variant(
        "unpack-straight-into-working-tree", LINTER,
        "                            new_tree, _, _, _valid = apply_fixes(\n                                tree,\n",
        "                            new_tree, _, _, _valid = tree, _, _, _valid = apply_fixes(\n                                tree,\n",
        "R13a", "lint_fix_parsed",
    ),
    Variant(
        "validity-of-other-value", LINTER,
        "                            elif not _valid:\n",
        "                            elif not (_valid or fix):\n",
        "R13a", "lint_fix_parsed", "fix is always true here, so the rejection arm is dead",
    ),
    Variant(
        "delete-does-not-request-validation", FIX,
        "                # We're just getting rid of this segment.\n                requires_validate = True\n",
        "                # We're just getting rid of this segment.\n",
        "R13b", "(i) every edit kind",
    ),
    Variant(
        "any-single-replace-exempt", FIX,
        "                and len(f.edit) == 1\n                and f.edit[0].class_types == seg.class_types\n            ):\n                requires_validate = True\n",
        "                and len(f.edit) == 1\n            ):\n                requires_validate = True\n",
        "R13b", "(i) every edit kind", "a replace with a different segment type is no longer validated",
    ),
    Variant(
        "creates-exempt", FIX,
        "            if not (\n                f.edit_type == \"replace\"\n                and len(f.edit) == 1\n",
        "            if not (\n                len(f.edit) == 1\n",
        "R13b", "(i) every edit kind", "single-segment create_before/after skip validation",
    ),
    Variant(
        "child-failure-not-propagated", FIX,
        "        if not validated:\n            requires_validate = True\n",
        "        if not validated:\n            pass\n",
        "R13b", "(ii) child not validated",
    ),
    Variant(
        "child-failure-propagated-conditionally", FIX,
        "        if not validated:\n            requires_validate = True\n",
        "        if not validated and pre:\n            requires_validate = True\n",
        "R13b", "(ii) child not validated",
    ),
    Variant(
        "request-reset-before-recursion", FIX,
        "    seg_queue = seg_buffer\n    seg_buffer = []\n",
        "    seg_queue = seg_buffer\n    seg_buffer = []\n    requires_validate = False\n",
        "R13b", "request never reset",
    ),
    Variant(
        "always-return-valid", FIX,
        "    return new_seg, before, after, validated\n",
        "    return new_seg, before, after, True\n",
        "R13b", "(iii) returned validity <- True",
    ),
    Variant(
        "reparse-result-ignored", FIX,
        "            validated = new_seg.validate_segment_with_reparse(\n",
        "            validated = True or new_seg.validate_segment_with_reparse(\n",
        "R13b", "(iii) returned validity <- True or",
    ),
    Variant(
        "unparsable-arm-returns-edited-segment", FIX,
        "                # original segment.\n                return segment, [], [], True\n",
        "                # original segment.\n                return new_seg, [], [], True\n",
        "R13b", "(iii) returned validity <- True", "the edits inside an unparsable region are kept and declared valid",
    ),
]
