"""C13 — fixing never makes a parsable file unparsable (structural part).

Decided clause (DESIGN §3 C13): the fix loop only ever *adopts* a tree that its validation
accepted, and the validation request cannot be lost on the way up the recursion.

R13a  (must-guard) for every caller of ``apply_fixes`` outside the function itself: every
      use that lets the returned tree escape (rebinding another variable, passing it on,
      returning it) — anything but reading an attribute of it — is dominated by the truth
      of the validity component of *that* call.  The result must be unpacked into fresh
      locals; unpacking straight into the variable that is passed back in is an unguarded
      adoption.
R13b  in ``apply_fixes`` (the *request* is the local tested by the ``if`` that guards the
      call of ``validate_segment_with_reparse``):
      (i)   in the loop over an anchor's fixes every path to the next fix sets the request,
            except through the exemption ``replace`` + one edit + same ``class_types``
            (accepted as designed; an exempt branch must carry all three conjuncts --
            further conditions only narrow it);
            the request is never reset;
      (ii)  every recursive result's validity component, when false, sets the request, on
            every path to the next child;
      (iii) a returned validity can only come from ``validate_segment_with_reparse``, from the
            explicit arms (already unparsable: original segment returned / ``fix_even_unparsable``),
            from an arm where the request is known to be unset, or be the constant ``False``
            (validation left to the parent).  A constant ``True`` or
            a value left over from somewhere else (e.g. the last child's result) is reported.

Spellings read as the same facts (QUIET sweep): the result tuple of ``apply_fixes`` unpacked in one
statement, kept whole and unpacked later, or indexed (``res[0]`` / ``res[3]``); the validity (or its
negation) through further locals; the exemption test positive or negated, held in a boolean local,
as an if/elif chain of the negated conjuncts, as ``or`` of negations, with ``f.edit`` read into a
local and the operands in either order (an edge is exempt when its own test *and the tests of the
same iteration that dominate it* contain the three conjuncts); the request accumulated with
``req = req or not <validity>`` / ``req |= ..`` (monotone: never a reset).

Not decided: that validation of the edited token list implies that the re-lexed text parses.
"""

from __future__ import annotations

import ast

from ..cfg import Branch, atoms, cfg_of, origins
from ..idioms import atoms_at, branch_atoms, component_origins, conditions_at, edge_atoms, expanded
from ..flowutil import attr_chain, branch_of, callee, describe_origin, for_origin, is_shadowed, must_pass, param_origin
from ..index import AnalysisError, FuncNode, call_name, last_attr, norm, short, walk_local

FIX = "src/sqlfluff/core/linter/fix.py"
LINTER = "src/sqlfluff/core/linter/linter.py"
VALIDATE = "validate_segment_with_reparse"
VALID_IDX = 3  # position of the validity flag in apply_fixes' result
TREE_IDX = 0


def run(chk) -> None:
    repo = chk.repo
    chk.rule("R13a", "every use that lets the tree returned by apply_fixes escape is dominated by the truth of that call's validity flag")
    chk.rule("R13b", "apply_fixes: structural edits always request validation, a child's failed validation requests it for the parent, and a returned validity comes from the reparse check or an explicit arm, never from a constant or a stale value")
    af = repo.fn(FIX, "apply_fixes")
    _r13a(chk, repo, af)
    _r13b(chk, repo, af)
    chk.rule("R13c", "nested segments are validated under the same node budget as the file: the recursive apply_fixes call inside apply_fixes passes its own max_parse_nodes parameter on")
    _r13c(chk, repo, af)
    chk.rule("R13d", "validate_segment_with_reparse answers True only on the declared-empty arm or after a complete re-match whose unparsable sections are a subset of those present before; a re-parse that raised is never reported as valid")
    _r13d(chk, repo)


BASE = "src/sqlfluff/core/parser/segments/base.py"


def _r13d(chk, repo) -> None:
    """The oracle behind R13b(iii).  In ``BaseSegment.validate_segment_with_reparse`` every ``return``
    whose value is not the constant ``False`` is

    * never inside an ``except`` handler (a re-parse that raised cannot confirm anything);
    * either the *empty arm* -- dominated by "the content handed to ``self.match`` is empty" and
      ``self.can_start_end_non_code`` --
    * or the *full arm*: every path to it runs ``self.match(..)``, it is dominated by the truth of
      ``<match>.matched_slice == slice(0, len(<content>))`` for that same content, and by (or its
      value is) the set comparison "unparsables before >= unparsables after" with the *before* side
      crawled from ``self``.
    """
    vf = repo.fn(BASE, "BaseSegment." + VALIDATE)
    cfg = cfg_of(vf)
    calls = [c for c in walk_local(vf) if isinstance(c, ast.Call) and isinstance(c.func, ast.Attribute) and c.func.attr == "match" and c.args]
    chk.count("R13d.match_calls", len(calls))
    if len(calls) != 1:
        raise AnalysisError("R13d: validate_segment_with_reparse no longer holds exactly one .match(..) call; re-confirm the anchor by hand")
    mcall = calls[0]
    mstmt = cfg.stmt_of(mcall)
    content = norm(expanded(cfg, mcall.args[0], mstmt))
    content_name = norm(mcall.args[0])

    def in_handler(n) -> bool:
        p = getattr(n, "_parent", None)
        while p is not None and p is not vf:
            if isinstance(p, ast.ExceptHandler):
                return True
            p = getattr(p, "_parent", None)
        return False

    def is_content(e, at) -> bool:
        return norm(e) == content_name or norm(expanded(cfg, e, at)) == content

    def full_match_atom(e, pol, at) -> bool:
        x = expanded(cfg, e, at)
        if not (isinstance(x, ast.Compare) and len(x.ops) == 1):
            return False
        if not ((isinstance(x.ops[0], ast.Eq) and pol) or (isinstance(x.ops[0], ast.NotEq) and not pol)):
            return False
        for a, b in ((x.left, x.comparators[0]), (x.comparators[0], x.left)):
            if not (isinstance(a, ast.Attribute) and a.attr == "matched_slice" and ".match(" in norm(a.value)):
                continue
            if not (isinstance(b, ast.Call) and call_name(b) == "slice" and len(b.args) == 2 and not b.keywords):
                continue
            lo, hi = b.args
            if isinstance(lo, ast.Constant) and lo.value == 0 and isinstance(hi, ast.Call) and call_name(hi) == "len" and len(hi.args) == 1:
                if norm(hi.args[0]) in (content, content_name):
                    return True
        return False

    def before_side(e, at) -> bool:
        t = norm(expanded(cfg, e, at))
        return "self.recursive_crawl(" in t and "unparsable" in t

    def subset_atom(e, pol, at) -> bool:
        if not (pol and isinstance(e, ast.Compare) and len(e.ops) == 1):
            return False
        l, r = e.left, e.comparators[0]
        if isinstance(e.ops[0], ast.GtE):
            return before_side(l, at) and not before_side(r, at)
        if isinstance(e.ops[0], ast.LtE):
            return before_side(r, at) and not before_side(l, at)
        return False

    rets = [n for n in walk_local(vf) if isinstance(n, ast.Return)]
    for r in rets:
        v = r.value
        if isinstance(v, ast.Constant) and v.value is False:
            chk.count("R13d.negative_returns")
            continue
        chk.count("R13d.positive_returns")
        if not chk.require(
            not in_handler(r), "R13d", r,
            "validate_segment_with_reparse answers something other than False from an except handler: a re-parse that raised (depth or node limit, unbalanced brackets) is "
            "reported as a successful validation and the fix loop adopts a tree that does not parse",
            detail="validate: no positive answer from a handler",
        ):
            continue
        conds = [(e, pol, g.stmt) for g in cfg.guards(r) for e, pol in branch_atoms(cfg, g)]
        empty = any(pol is False and is_content(e, at) for e, pol, at in conds) and any(
            pol is True and (attr_chain(e) or ("",))[-1] == "can_start_end_non_code" for e, pol, at in conds
        )
        if empty and isinstance(v, ast.Constant) and v.value is True:
            chk.ok("R13d", "validate_segment_with_reparse", "empty arm: no content and the segment may be empty")
            chk.count("R13d.empty_arm")
            continue
        ran = must_pass(cfg, cfg.entry, r, [mstmt])
        full = any(full_match_atom(e, pol, at) for e, pol, at in conds)
        sub = any(subset_atom(e, pol, at) for e, pol, at in conds) and isinstance(v, ast.Constant) and v.value is True
        if not sub and v is not None and not isinstance(v, ast.Constant):
            sub = subset_atom(expanded(cfg, v, r), True, r)
        missing = [t for t, okk in (("the re-match was run", ran), ("the re-match covers the whole content (matched_slice == slice(0, len(content)))", full), ("unparsables before >= unparsables after", sub)) if not okk]
        chk.count("R13d.full_arm")
        chk.require(
            not missing, "R13d", r,
            "validate_segment_with_reparse can answer True although " + "; ".join("it is not established that " + m for m in missing)
            + ": an edited segment that no longer parses completely (or gained an unparsable section) is declared valid and the fix loop adopts it",
            detail="validate: positive answer implies full re-match without new unparsables",
        )
    chk.floor("R13d.positive_returns", 1)
    chk.floor("R13d.full_arm", 1)
    chk.floor("R13d.negative_returns", 1)


def _r13c(chk, repo, af) -> None:
    from ..flowutil import param_origin

    cfg = cfg_of(af)
    params = [a.arg for a in af.args.args + af.args.kwonlyargs]
    if "max_parse_nodes" not in params:
        chk.note("R13c: apply_fixes has no max_parse_nodes parameter; nothing to forward")
        return
    rec = [c for c in ast.walk(af) if isinstance(c, ast.Call) and isinstance(c.func, ast.Name) and c.func.id == af.name]
    chk.count("R13c.recursive_calls", len(rec))
    if not rec:
        raise AnalysisError("R13c: apply_fixes no longer calls itself for child segments; re-confirm the anchor by hand")
    pos = params.index("max_parse_nodes")
    from ..flowutil import sole_expr_origin

    def _from_dict(c):
        """(value, statement) of the ``max_parse_nodes`` entry of a keyword dict splatted into the call:
        ``limits = {"max_parse_nodes": v, ...}`` / ``dict(max_parse_nodes=v, ...)`` ... ``f(..., **limits)``,
        when that local is only ever read as a ``**`` argument (so no entry is changed or dropped)."""
        for k in c.keywords:
            if k.arg is not None or not isinstance(k.value, ast.Name):
                continue
            nm = k.value.id
            reads = [x for x in ast.walk(af) if isinstance(x, ast.Name) and x.id == nm and isinstance(x.ctx, ast.Load)]
            if not all(isinstance(getattr(x, "_parent", None), ast.keyword) and x._parent.arg is None for x in reads):
                continue
            d = sole_expr_origin(cfg, k.value, cfg.stmt_of(c))
            if isinstance(d, ast.Dict):
                for kk, vv in zip(d.keys, d.values):
                    if isinstance(kk, ast.Constant) and kk.value == "max_parse_nodes":
                        return vv, cfg.stmt_of(d)
            elif isinstance(d, ast.Call) and call_name(d) == "dict" and not d.args:
                for kk in d.keywords:
                    if kk.arg == "max_parse_nodes":
                        return kk.value, cfg.stmt_of(d)
        return None, None

    def _closure_read(c, a) -> bool:
        """``a`` is the enclosing apply_fixes' own parameter read from a nested function: no function
        between the call and apply_fixes binds the name, and apply_fixes never re-binds it."""
        if not (isinstance(a, ast.Name) and a.id == "max_parse_nodes"):
            return False
        if any(isinstance(x, ast.Name) and x.id == a.id and not isinstance(x.ctx, ast.Load) for x in ast.walk(af)):
            return False
        nested = [x for x in ast.walk(af) if x is not af and isinstance(x, FuncNode + (ast.Lambda,))]
        return not any(a.id in {y.arg for y in ast.walk(x.args) if isinstance(y, ast.arg)} for x in nested)

    for c in rec:
        at = cfg.stmt_of(c)
        a = next((k.value for k in c.keywords if k.arg == "max_parse_nodes"), None)
        if a is None and len(c.args) > pos and not any(isinstance(x, ast.Starred) for x in c.args[: pos + 1]):
            a = c.args[pos]
        if a is None and at is not None:
            a, at = _from_dict(c)
        fn = c
        while fn is not None and not isinstance(fn, FuncNode + (ast.Lambda,)):
            fn = getattr(fn, "_parent", None)
        if fn is not af:
            ok = a is not None and _closure_read(c, a)
        else:
            ok = a is not None and isinstance(a, ast.Name) and param_origin(cfg, a, at) == "max_parse_nodes"
        chk.require(
            ok, "R13c", c,
            "the recursive apply_fixes call does not pass max_parse_nodes on (the default 0 means unlimited): nested segments -- where nearly every fix is applied and validated -- are "
            "re-parsed without the configured node budget, the fix is accepted, and the fixed text then fails to parse under the same configuration",
            detail="apply_fixes: recursion forwards max_parse_nodes",
        )


# ---------------------------------------------------------------------------
def _tuple_target(stmt, idx):
    """Name bound to component ``idx`` when ``stmt`` unpacks a call result."""
    if isinstance(stmt, ast.Assign) and len(stmt.targets) >= 1 and isinstance(stmt.targets[0], (ast.Tuple, ast.List)):
        elts = stmt.targets[0].elts
        if idx < len(elts) and not any(isinstance(e, ast.Starred) for e in elts):
            return elts[idx]
    return None


def _is_component(cfg, e, at, call, idx) -> bool:
    """``e`` (a local, or ``res[idx]``) can only be component ``idx`` of the result of ``call``."""
    if not isinstance(e, (ast.Name, ast.Subscript)):
        return False
    os_ = component_origins(cfg, e, at)
    return bool(os_) and all(o.kind == "expr" and o.expr is call and tuple(o.path) == (idx,) for o in os_)


def _const_idx(sub):
    sl = sub.slice if isinstance(sub, ast.Subscript) else None
    return sl.value if isinstance(sl, ast.Constant) and isinstance(sl.value, int) and not isinstance(sl.value, bool) else None


def _bindings(stmt):
    """(target, value) pairs of an assignment, element-wise when both sides are displays."""
    if not isinstance(stmt, ast.Assign):
        return []
    out = []
    for t in stmt.targets:
        if isinstance(t, (ast.Tuple, ast.List)) and isinstance(stmt.value, (ast.Tuple, ast.List)) and len(t.elts) == len(stmt.value.elts) and not any(isinstance(x, ast.Starred) for x in list(t.elts) + list(stmt.value.elts)):
            out += list(zip(t.elts, stmt.value.elts))
        else:
            out.append((t, stmt.value))
    return out


def _r13a(chk, repo, af) -> None:
    sites = []
    for m in repo.iter_modules():
        if "apply_fixes" not in m.text:
            continue
        for c in ast.walk(m.tree):
            if isinstance(c, ast.Call) and last_attr(c) == "apply_fixes" and not is_shadowed(c):
                r = callee(repo, c)
                if r is not None and r[1] is af:
                    fn = _fn_of(c)
                    if fn is not af and not _inside(fn, af):  # calls nested inside apply_fixes are its recursion (R13b)
                        sites.append((c, fn))
    chk.count("R13a.apply_fixes_callers", len(sites))
    chk.floor("R13a.apply_fixes_callers", 1)
    for call, fn in sites:
        cfg = cfg_of(fn)
        st = cfg.stmt_of(call)
        if not (isinstance(st, ast.Assign) and st.value is call):
            chk.fail("R13a", call, "result of apply_fixes is not unpacked into (tree, before, after, valid): the validity flag cannot gate the adoption", detail="apply_fixes result unpacked")
            continue
        # locals that hold the candidate tree / the whole result *directly* (the unpacking, in one
        # statement or spread over ``res = apply_fixes(..)`` + ``a, b, c, d = res`` / ``a = res[0]``)
        tree_defs, whole_defs = {}, {}
        bad = False
        for t in st.targets:
            if isinstance(t, (ast.Tuple, ast.List)) and len(t.elts) > TREE_IDX and isinstance(t.elts[TREE_IDX], ast.Name) and not any(isinstance(e, ast.Starred) for e in t.elts):
                tree_defs.setdefault(t.elts[TREE_IDX].id, set()).add(id(st))
            elif isinstance(t, ast.Name):
                whole_defs.setdefault(t.id, set()).add(id(st))
            else:
                bad = True
        if bad:
            chk.fail("R13a", call, "tree component of apply_fixes' result is not bound to a local", detail="apply_fixes tree component bound")
            continue
        rd = cfg.reaching()

        def _holds(name_node, table, at):
            ds = rd.defs_at(at, name_node.id)
            return name_node.id in table and bool(ds) and all(id(d.stmt) in table[name_node.id] for d in ds)

        binders = {id(st)}
        if whole_defs:
            for s2 in walk_local(fn):
                for tgt, val in _bindings(s2):
                    if isinstance(val, ast.Name) and _holds(val, whole_defs, s2) and isinstance(tgt, (ast.Tuple, ast.List)) and len(tgt.elts) > TREE_IDX and isinstance(tgt.elts[TREE_IDX], ast.Name) and not any(isinstance(e, ast.Starred) for e in tgt.elts):
                        tree_defs.setdefault(tgt.elts[TREE_IDX].id, set()).add(id(s2))
                        binders.add(id(s2))
                    elif isinstance(val, ast.Subscript) and isinstance(val.value, ast.Name) and _holds(val.value, whole_defs, s2) and _const_idx(val) == TREE_IDX and isinstance(tgt, ast.Name):
                        tree_defs.setdefault(tgt.id, set()).add(id(s2))
                        binders.add(id(s2))
        # every use of a tree holder that the unpack may reach
        n_escape = 0
        for node in walk_local(fn):
            if not (isinstance(node, ast.Name) and isinstance(node.ctx, ast.Load)):
                continue
            us = cfg.stmt_of(node)
            par = getattr(node, "_parent", None)
            if node.id in tree_defs:
                ds = rd.defs_at(us, node.id)
                if not any(id(d.stmt) in tree_defs[node.id] for d in ds):
                    continue
                if isinstance(par, ast.Attribute) and par.value is node:
                    continue  # reads a property of the candidate tree (raw, source_fixes, ...)
            elif node.id in whole_defs:
                ds = rd.defs_at(us, node.id)
                if not any(id(d.stmt) in whole_defs[node.id] for d in ds):
                    continue
                if isinstance(par, ast.Subscript) and par.value is node and _const_idx(par) is not None:
                    if _const_idx(par) != TREE_IDX:
                        continue  # another component (validity, bubbled-up segments)
                    gp = getattr(par, "_parent", None)
                    if isinstance(gp, ast.Attribute) and gp.value is par:
                        continue  # property of the candidate tree
                    if id(us) in binders:
                        continue  # the statement that binds the tree component to its local
                elif id(us) in binders and isinstance(us, ast.Assign) and any(v is node for _, v in _bindings(us)):
                    continue  # ``a, b, c, d = res``
            else:
                continue
            n_escape += 1
            guarded = False
            for e, pol in conditions_at(cfg, us):
                if pol and _is_component(cfg, e, cfg.stmt_of(e), call, VALID_IDX):
                    guarded = True
            chk.require(
                guarded, "R13a", us,
                f"the tree produced by apply_fixes escapes through '{short(us, 70)}' without a dominating test that the call reported it valid: an edit that no longer parses is adopted",
                detail=f"adoption guarded by validity: {short(us, 90)}",
            )
            chk.sample({"rule": "R13a", "site": f"{node._module.relpath}:{node.lineno}", "use": short(us, 80), "guarded_by_validity": guarded})
        chk.count("R13a.tree_escape_sites", n_escape)
    chk.floor("R13a.tree_escape_sites", 1)


def _fn_of(node):
    p = getattr(node, "_parent", None)
    while p is not None and not isinstance(p, FuncNode):
        p = getattr(p, "_parent", None)
    return p


# ---------------------------------------------------------------------------
def _r13b(chk, repo, af) -> None:
    cfg = cfg_of(af)
    con = f"{FIX}::apply_fixes"
    # -- the request variable: the local whose truth guards the reparse check
    vcalls = [c for c in walk_local(af) if isinstance(c, ast.Call) and last_attr(c) == VALIDATE]
    chk.count("R13b.reparse_check_calls", len(vcalls))
    if not vcalls:
        chk.fail("R13b", af, "apply_fixes no longer calls validate_segment_with_reparse: nothing validates an edited segment", detail="reparse check present")
        return
    req = None
    for vc in vcalls:
        for e, pol in conditions_at(cfg, cfg.stmt_of(vc)):
            if pol and isinstance(e, ast.Name):
                ds = cfg.reaching().defs_at(cfg.stmt_of(e), e.id)
                if ds and all(_request_def(d, e.id) for d in ds):
                    req = e.id
    if req is None:
        chk.fail("R13b", vcalls[0], "the reparse check is not guarded by a boolean validation request", detail="reparse check under the request")
        return

    def _targets(s_):
        return s_.targets if isinstance(s_, ast.Assign) else [s_.target]

    writes = [s_ for s_ in walk_local(af) if isinstance(s_, (ast.Assign, ast.AugAssign, ast.AnnAssign)) and any(isinstance(t, ast.Name) and t.id == req for t in _targets(s_))]
    sets = [s_ for s_ in writes if isinstance(s_, ast.Assign) and isinstance(s_.value, ast.Constant) and s_.value.value is True]
    # ``req = req or E`` / ``req |= E``: can only turn the request on (never off)
    mono = [s_ for s_ in writes if s_ not in sets and _monotone_operand(s_, req) is not None]
    others = [s_ for s_ in writes if s_ not in sets and s_ not in mono]
    chk.count("R13b.request_set_sites", len(sets) + len(mono))
    for s_ in others:
        late = any(cfg.reaches(x, s_) for x in sets + mono)
        chk.require(not late, "R13b", s_, "the validation request is overwritten after it may have been set: the request is lost", detail=f"request never reset: {short(s_, 60)}")

    _edit_loop(chk, cfg, af, req, sets)
    _recursion(chk, repo, cfg, af, req, sets, mono)
    _returns(chk, cfg, af, req, sets + mono, vcalls)


def _monotone_operand(stmt, req):
    """``E`` when ``stmt`` is ``req = req or E`` / ``req = E or req`` / ``req |= E``; else None."""
    if isinstance(stmt, ast.AugAssign) and isinstance(stmt.op, ast.BitOr) and isinstance(stmt.target, ast.Name) and stmt.target.id == req:
        return stmt.value
    if isinstance(stmt, ast.Assign) and len(stmt.targets) == 1 and isinstance(stmt.value, ast.BoolOp) and isinstance(stmt.value.op, ast.Or) and len(stmt.value.values) == 2:
        a, b = stmt.value.values
        if isinstance(a, ast.Name) and a.id == req:
            return b
        if isinstance(b, ast.Name) and b.id == req:
            return a
    return None


def _request_def(d, req) -> bool:
    """A definition a boolean request flag may have: a constant, or a monotone accumulation."""
    if d.kind == "assign" and isinstance(d.value, ast.Constant) and isinstance(d.value.value, bool):
        return True
    return d.stmt is not None and _monotone_operand(d.stmt, req) is not None


def _edit_type_compare(e, var):
    """('==', const) when e is ``<var>.edit_type == "const"``."""
    if isinstance(e, ast.Compare) and len(e.ops) == 1 and isinstance(e.ops[0], ast.Eq):
        ch = attr_chain(e.left)
        c = e.comparators[0]
        if ch == (var, "edit_type") and isinstance(c, ast.Constant):
            return c.value
    return None


def _exemption_kinds(cfg, facts, v):
    """Classify the facts ``(expr, truth, evaluated at)`` known on a branch edge inside the fix loop.

    Locals holding one expression are read through (``edits = f.edit``), ``a != b`` false is
    ``a == b`` true, operands may be in either order.  Facts that are none of the three conjuncts
    only narrow the branch further and are not classified."""
    kinds = set()
    for e0, pol, at in facts:
        e = expanded(cfg, e0, at)
        if not (isinstance(e, ast.Compare) and len(e.ops) == 1 and isinstance(e.ops[0], (ast.Eq, ast.NotEq))):
            continue
        if isinstance(e.ops[0], ast.NotEq):
            pol = not pol
        if not pol:
            continue
        sides = (e.left, e.comparators[0])
        texts = tuple(norm(x) for x in sides)
        consts = [x.value for x in sides if isinstance(x, ast.Constant)]
        if any(attr_chain(x) == (v, "edit_type") for x in sides) and consts == ["replace"]:
            kinds.add("replace")
        elif f"len({v}.edit)" in texts and consts == [1]:
            kinds.add("single")
        elif f"{v}.edit[0].class_types" in texts and all(isinstance(x, ast.Attribute) and x.attr == "class_types" for x in sides) and texts[0] != texts[1]:
            kinds.add("same-type")
    return kinds


def _edit_loop(chk, cfg, af, req, sets) -> None:
    # the loop over the fixes of one anchor: a for whose variable's edit_type is read in its body
    loops = []
    for n in walk_local(af):
        if isinstance(n, ast.For) and isinstance(n.target, ast.Name):
            v = n.target.id
            if any(isinstance(x, ast.Attribute) and attr_chain(x) == (v, "edit_type") for b in n.body for x in ast.walk(b)):
                loops.append(n)
    chk.count("R13b.edit_loops", len(loops))
    chk.floor("R13b.edit_loops", 1)
    for loop in loops:
        v = loop.target.id
        bt = branch_of(cfg, loop, True)
        inner_sets = [s for s in sets if _inside(s, loop)]
        # Branch edges on which the accepted exemption is known to hold (by the edge's own test
        # and every test of the same iteration that dominates it):
        #   replace  and  exactly one edit  and  same class_types   (nothing less)
        exempt, near = [], []
        for n in walk_local(loop):
            if not isinstance(n, ast.If):
                continue
            for pol in (True, False):
                b = branch_of(cfg, n, pol)
                if b is None:
                    continue
                kinds = _exemption_kinds(cfg, edge_atoms(cfg, b, inside=loop), v)
                if kinds >= {"replace", "single", "same-type"}:
                    exempt.append(b)
                elif kinds and any(_inside(s, n) for s in inner_sets):
                    near.append(n)
        via = list(inner_sets) + exempt
        ok = bt is not None and must_pass(cfg, bt, loop, via)
        hint = f" (validation is requested under '{short(near[0].test, 90)}', which exempts more than replace + exactly one edit + same class_types)" if near and not ok else ""
        chk.require(
            ok, "R13b", loop,
            "a fix can be applied to the segment buffer and the next fix reached without requesting validation, outside the accepted same-type single replace exemption" + hint,
            detail="(i) every edit kind requests validation",
        )
        if exempt:
            chk.note("R13b(i): the same-type single-segment replace exemption from validation is accepted as designed.")
        chk.sample({"rule": "R13b", "site": f"{FIX}:{loop.lineno}", "request": req, "set_sites_in_loop": [s.lineno for s in inner_sets], "exempt_branches": len(exempt)})


def _inside(node, anc) -> bool:
    p = node
    while p is not None:
        if p is anc:
            return True
        p = getattr(p, "_parent", None)
    return False


def _recursion(chk, repo, cfg, af, req, sets, mono=()) -> None:
    def _is_rec(c) -> bool:
        return isinstance(c, ast.Call) and last_attr(c) == af.name and (callee(repo, c) or (None, None))[1] is af

    # a nested ``def helper(child): return apply_fixes(child, ...)`` (bound once, never re-bound): calling it is the recursive call
    fwd = set()
    for d in walk_local(af):
        if isinstance(d, FuncNode):
            body = [x for x in d.body if not (isinstance(x, ast.Expr) and isinstance(x.value, ast.Constant))]
            binds = [x for x in ast.walk(af) if (isinstance(x, FuncNode) and x is not d and x.name == d.name) or (isinstance(x, ast.Name) and x.id == d.name and not isinstance(x.ctx, ast.Load))]
            if len(body) == 1 and isinstance(body[0], ast.Return) and _is_rec(body[0].value) and not binds:
                fwd.add(d.name)
    rec = [c for c in walk_local(af) if _is_rec(c) or (isinstance(c, ast.Call) and isinstance(c.func, ast.Name) and c.func.id in fwd)]
    n_opaque = 0
    for c in ast.walk(af):
        if _is_rec(c) and _fn_of(c) is not af and getattr(_fn_of(c), "name", None) not in fwd:
            n_opaque += 1
            chk.fail("R13b", c, "a recursive apply_fixes call sits in a nested function that does more than hand the result back: its validity cannot be followed to the parent's validation request", detail="(ii) child validity bound")
    chk.count("R13b.recursive_calls", len(rec) + n_opaque)
    chk.floor("R13b.recursive_calls", 1)
    for call in rec:
        st = cfg.stmt_of(call)
        bound = False
        if isinstance(st, ast.Assign) and st.value is call:
            tv = _tuple_target(st, VALID_IDX)
            bound = isinstance(tv, ast.Name) or all(isinstance(t, ast.Name) for t in st.targets)  # unpacked, or kept whole in a local
        if not bound:
            chk.fail("R13b", call, "validity of a recursive apply_fixes result is dropped: a child's failed validation cannot reach the parent", detail="(ii) child validity bound")
            continue
        loop = None
        p = getattr(st, "_parent", None)
        while p is not None and p is not af:
            if isinstance(p, (ast.For, ast.While)):
                loop = p
                break
            p = getattr(p, "_parent", None)
        goal = loop if loop is not None else cfg.exit
        ok = False
        # ``if not <validity>: request = True`` -- the branch edge whose only fact is "validity is false"
        for s in sets:
            for g in cfg.guards(s):
                if not isinstance(g, Branch) or not isinstance(g.stmt, ast.If):
                    continue
                facts = branch_atoms(cfg, g)
                if len(facts) == 1 and not facts[0][1] and _is_component(cfg, facts[0][0], cfg.stmt_of(facts[0][0]), call, VALID_IDX):
                    # nothing else may be required for the request
                    if must_pass(cfg, st, goal, [g.stmt]) and must_pass(cfg, g, goal, [s]):
                        ok = True
        # ``request = request or not <validity>`` -- reached unconditionally after the call
        for s in mono:
            facts = atoms_at(cfg, _monotone_operand(s, req), True, s)
            if len(facts) == 1 and not facts[0][1] and _is_component(cfg, facts[0][0], cfg.stmt_of(facts[0][0]) or s, call, VALID_IDX):
                if must_pass(cfg, st, goal, [s]):
                    ok = True
        chk.require(
            ok, "R13b", call,
            "a child's failed validation does not (on every path, unconditionally) request validation of the parent segment",
            detail="(ii) child not validated -> request set",
        )


def _returns(chk, cfg, af, req, sets, vcalls) -> None:
    rets = [r for r in walk_local(af) if isinstance(r, ast.Return)]
    chk.count("R13b.returns", len(rets))
    chk.floor("R13b.returns", 2)
    params = [a.arg for a in af.args.args + af.args.kwonlyargs]
    for r in rets:
        if not (isinstance(r.value, ast.Tuple) and len(r.value.elts) > VALID_IDX):
            chk.fail("R13b", r, "apply_fixes returns something other than (segment, before, after, valid)", detail=f"(iii) return shape: {short(r, 60)}")
            continue
        val = r.value.elts[VALID_IDX]
        after_request = any(cfg.reaches(s, r) for s in sets)
        if not after_request:
            chk.ok("R13b", f"{FIX}::apply_fixes", f"(iii) {short(r, 60)}: no request can be pending")
            continue
        for o in (origins(cfg, val, r) if isinstance(val, ast.Name) else [_Lit(val, r)]):
            e, at = o.expr, o.stmt
            why = None
            conds = conditions_at(cfg, at) if at is not None else []
            if o.kind == "expr" and not o.path and isinstance(e, ast.Call) and last_attr(e) == VALIDATE:
                why = "reparse check"
            elif any(isinstance(x, ast.Name) and x.id == req and not pol for x, pol in conds):
                why = "request known unset"
            elif o.kind == "expr" and not o.path and isinstance(e, ast.Constant) and e.value is False:
                why = "constant False: validation is left to the parent segment"
            elif o.kind == "expr" and not o.path and isinstance(e, ast.Constant) and e.value is True:
                unp = any(pol and isinstance(x, ast.Compare) and isinstance(x.ops[0], ast.In) and isinstance(x.left, ast.Constant) and x.left.value == "unparsable" for x, pol in conds)
                few = [(x, pol) for x, pol in conds if isinstance(x, ast.Name) and param_origin(cfg, x, cfg.stmt_of(x)) == "fix_even_unparsable"]
                if unp and any(pol for _, pol in few):
                    why = "fix_even_unparsable arm"
                elif unp and at is r and any(not pol for _, pol in few):
                    # already unparsable and not forced: the *original* segment must be handed back
                    first = r.value.elts[TREE_IDX]
                    if param_origin(cfg, first, r) == params[0]:
                        why = "already-unparsable arm returns the original segment"
            chk.require(
                why is not None, "R13b", r,
                f"with a validation request pending, apply_fixes can return validity = {describe_origin(o) if not isinstance(o, _Lit) else short(e, 40)}"
                f"{' (assigned at line %d)' % at.lineno if at is not None and at is not r and hasattr(at, 'lineno') else ''}; "
                "that value does not come from validate_segment_with_reparse nor from the unparsable arms, so a failed or missing validation is reported upwards as valid",
                detail=f"(iii) returned validity <- {_stable(o, af)}",
            )
            chk.sample({"rule": "R13b", "site": f"{FIX}:{r.lineno}", "validity_origin": _stable(o, af), "accepted_as": why})
        # a path to this return on which no value was ever assigned is covered by the origins above
        # only if some definition reaches; an empty set means the name is unbound here
        if isinstance(val, ast.Name) and not origins(cfg, val, r):
            chk.fail("R13b", r, "returned validity has no reaching definition", detail="(iii) returned validity defined")


class _Lit:
    """Pseudo-origin for a literal written directly in the return tuple."""

    kind, path = "expr", ()

    def __init__(self, expr, stmt):
        self.expr, self.stmt = expr, stmt


def _stable(o, af) -> str:
    e = o.expr
    if isinstance(e, ast.Call) and last_attr(e) == af.name:
        return f"recursive {af.name}(...) result" + "".join(f"[{p}]" for p in o.path)
    if isinstance(e, ast.Call):
        return f"{call_name(e).split('.')[-1]}(...)" + "".join(f"[{p}]" for p in o.path)
    if o.kind == "param":
        return f"parameter {e.arg}"
    return short(e, 60) + "".join(f"[{p}]" for p in o.path)


from ..selftest import Variant  # noqa: E402

VARIANTS = [
    Variant(
        "quiet-r13d-subset-test-through-a-local", BASE,
        "        if opening_unparsables >= closing_unparsables:\n            return True\n",
        "        nothing_new = opening_unparsables >= closing_unparsables\n        if nothing_new:\n            return True\n",
        "QUIET", None, "R13d: subset test held in a boolean local",
    ),
    Variant(
        "quiet-r13d-apply-in-try-else", BASE,
        "                return False\n            new_segments = rematch.apply(trimmed_content, parse_context=ctx)\n        except SQLParseError as err:\n            # A parse error while re-parsing (e.g. hitting the parse depth or\n            # parse node limits, or unbalanced brackets) means that we cannot\n            # confirm the new segment is valid.\n            linter_logger.debug(f\"Validation Check Fail for {self}. {err.desc()}\")\n            return False\n",
        "                return False\n        except SQLParseError as err:\n            linter_logger.debug(f\"Validation Check Fail for {self}. {err.desc()}\")\n            return False\n        new_segments = rematch.apply(trimmed_content, parse_context=ctx)\n",
        "QUIET", None, "R13d: apply moved after the try (same result when it does not raise)",
    ),
    Variant(
        "r13d-subset-local-but-negated", BASE,
        "        if opening_unparsables >= closing_unparsables:\n            return True\n",
        "        nothing_new = opening_unparsables >= closing_unparsables\n        if not nothing_new:\n            return True\n",
        "R13d", "validate_segment_with_reparse", "local spelling, polarity flipped",
    ),
    # R13d: the re-parse oracle itself
    Variant(
        "r13d-handler-answers-true", BASE,
        '            linter_logger.debug(f"Validation Check Fail for {self}. {err.desc()}")\n            return False\n',
        '            linter_logger.debug(f"Validation Check Fail for {self}. {err.desc()}")\n            return True\n',
        "R13d", "validate_segment_with_reparse", "a re-parse that hit the node budget counts as valid",
    ),
    Variant(
        "r13d-incomplete-match-falls-through", BASE,
        "                )\n                return False\n            new_segments = rematch.apply",
        "                )\n            new_segments = rematch.apply",
        "R13d", "validate_segment_with_reparse", "incomplete re-match only logged",
    ),
    Variant(
        "r13d-subset-test-reversed", BASE,
        "        if opening_unparsables >= closing_unparsables:\n",
        "        if opening_unparsables <= closing_unparsables:\n",
        "R13d", "validate_segment_with_reparse", "new unparsable sections accepted, removed ones rejected",
    ),
    Variant(
        "r13d-final-answer-true", BASE,
        '            linter_logger.debug("Unparsable:\\n%s\\n", unparsable)\n        return False\n',
        '            linter_logger.debug("Unparsable:\\n%s\\n", unparsable)\n        return True\n',
        "R13d", "validate_segment_with_reparse", "additional unparsables logged but accepted",
    ),
    Variant(
        "r13d-empty-arm-for-every-segment", BASE,
        "        if not trimmed_content and self.can_start_end_non_code:\n",
        "        if not trimmed_content:\n",
        "R13d", "validate_segment_with_reparse", "a segment emptied by a fix is valid whatever its class",
    ),
    Variant(
        "r13d-slice-compared-with-other-content", BASE,
        "            if not rematch.matched_slice == slice(0, len(trimmed_content)):\n",
        "            if not rematch.matched_slice == slice(0, len(rematch.matched_slice.indices(len(trimmed_content)))):\n",
        "R13d", "validate_segment_with_reparse", "completeness compared against something that is not the content length",
    ),
    Variant(
        "quiet-r13d-not-equal-spelling", BASE,
        "            if not rematch.matched_slice == slice(0, len(trimmed_content)):\n",
        "            if rematch.matched_slice != slice(0, len(trimmed_content)):\n",
        "QUIET", None, "R13d: != instead of not ==",
    ),
    Variant(
        "quiet-r13d-whole-slice-in-a-local", BASE,
        "            if not rematch.matched_slice == slice(0, len(trimmed_content)):\n",
        "            whole = slice(0, len(trimmed_content))\n            if not rematch.matched_slice == whole:\n",
        "QUIET", None, "R13d: expected slice through a local",
    ),
    Variant(
        "quiet-r13d-subset-operands-swapped", BASE,
        "        if opening_unparsables >= closing_unparsables:\n",
        "        if closing_unparsables <= opening_unparsables:\n",
        "QUIET", None, "R13d: subset test written from the other side",
    ),
    Variant(
        "quiet-r13d-empty-arm-nested-ifs", BASE,
        "        if not trimmed_content and self.can_start_end_non_code:\n            # Edge case for empty segments which are allowed to be empty.\n            return True\n",
        "        if not trimmed_content:\n            if self.can_start_end_non_code:\n                return True\n",
        "QUIET", None, "R13d: the empty arm as two nested tests",
    ),
    Variant(
        "nested-validation-without-the-node-budget", FIX,
        "            fixes,\n            max_parse_depth=max_parse_depth,\n            max_parse_nodes=max_parse_nodes,\n",
        "            fixes,\n            max_parse_depth=max_parse_depth,\n",
        "R13c", "apply_fixes", "seeded C13-7",
    ),
    # behaviour-preserving refactors: must stay quiet
    Variant(
        "quiet-adoption-chain-reordered", LINTER,
        "                            if loop_check_tuple == (tree.raw, tuple(tree.source_fixes)):\n",
        "                            nothing_applied = loop_check_tuple == (tree.raw, tuple(tree.source_fixes))\n                            if nothing_applied:\n",
        "QUIET", None, "first arm's test through a local",
    ),
    Variant(
        "quiet-validity-unpacked-by-name", LINTER,
        "                            new_tree, _, _, _valid = apply_fixes(\n",
        "                            new_tree, _before, _after, _valid = apply_fixes(\n",
        "QUIET", None, "unused tuple components named",
    ),
    Variant(
        "quiet-result-kept-whole-then-indexed", LINTER,
        "                            new_tree, _, _, _valid = apply_fixes(\n                                tree,\n                                config.get(\"dialect_obj\"),\n                                crawler.code,\n                                anchor_info,\n                                fix_even_unparsable=config.get(\"fix_even_unparsable\"),\n                                max_parse_depth=config.get(\"max_parse_depth\"),\n                                max_parse_nodes=config.get(\"max_parse_nodes\"),\n                            )\n",
        "                            fix_result = apply_fixes(\n                                tree,\n                                config.get(\"dialect_obj\"),\n                                crawler.code,\n                                anchor_info,\n                                fix_even_unparsable=config.get(\"fix_even_unparsable\"),\n                                max_parse_depth=config.get(\"max_parse_depth\"),\n                                max_parse_nodes=config.get(\"max_parse_nodes\"),\n                            )\n                            new_tree = fix_result[0]\n                            _valid = fix_result[3]\n",
        "QUIET", None, "result tuple kept whole and indexed",
    ),
    Variant(
        "quiet-result-kept-whole-then-unpacked", LINTER,
        "                            new_tree, _, _, _valid = apply_fixes(\n                                tree,\n                                config.get(\"dialect_obj\"),\n                                crawler.code,\n                                anchor_info,\n                                fix_even_unparsable=config.get(\"fix_even_unparsable\"),\n                                max_parse_depth=config.get(\"max_parse_depth\"),\n                                max_parse_nodes=config.get(\"max_parse_nodes\"),\n                            )\n",
        "                            fix_result = apply_fixes(\n                                tree,\n                                config.get(\"dialect_obj\"),\n                                crawler.code,\n                                anchor_info,\n                                fix_even_unparsable=config.get(\"fix_even_unparsable\"),\n                                max_parse_depth=config.get(\"max_parse_depth\"),\n                                max_parse_nodes=config.get(\"max_parse_nodes\"),\n                            )\n                            new_tree, _, _, _valid = fix_result\n",
        "QUIET", None, "result tuple kept in a local, unpacked by the next statement",
    ),
    Variant(
        "quiet-valid-arm-positive-nesting", LINTER,
        "                            elif not _valid:\n                                # The fixes result in an invalid file. Don't apply\n                                # the fix and skip onward. Show a warning.\n                                linter_logger.warning(\n                                    f\"Fixes for {crawler.code} not applied, as it \"\n                                    \"would result in an unparsable file. Please \"\n                                    \"report this as a bug with a minimal query \"\n                                    \"which demonstrates this warning.\"\n                                )\n                            elif loop_check_tuple not in previous_versions:\n                                # We've not seen this version of the file so\n                                # far. Continue.\n                                tree = new_tree\n                                previous_versions.add(loop_check_tuple)\n                                changed = True\n                                continue\n                            else:\n                                # Applying these fixes took us back to a state\n                                # which we've seen before. We're in a loop, so\n                                # we want to stop.\n                                cls._warn_unfixable(crawler.code)\n",
        "                            elif _valid:\n                                if loop_check_tuple not in previous_versions:\n                                    # We've not seen this version of the file so\n                                    # far. Continue.\n                                    tree = new_tree\n                                    previous_versions.add(loop_check_tuple)\n                                    changed = True\n                                    continue\n                                # Applying these fixes took us back to a state\n                                # which we've seen before. We're in a loop, so\n                                # we want to stop.\n                                cls._warn_unfixable(crawler.code)\n                            else:\n                                # The fixes result in an invalid file. Don't apply\n                                # the fix and skip onward. Show a warning.\n                                linter_logger.warning(\n                                    f\"Fixes for {crawler.code} not applied, as it \"\n                                    \"would result in an unparsable file. Please \"\n                                    \"report this as a bug with a minimal query \"\n                                    \"which demonstrates this warning.\"\n                                )\n",
        "QUIET", None, "adoption nested under the positive validity test",
    ),
    Variant(
        "quiet-validity-through-second-local", LINTER,
        '                            # Was anything actually applied? If not, then the fixes we\n                            # had cannot be safely applied and we should stop trying.\n                            if loop_check_tuple == (tree.raw, tuple(tree.source_fixes)):\n                                linter_logger.debug(\n                                    f"Fixes for {crawler.code} could not be safely be "\n                                    "applied. Likely due to initially unparsable file."\n                                )\n                            elif not _valid:\n',
        '                            still_parses = _valid\n                            # Was anything actually applied? If not, then the fixes we\n                            # had cannot be safely applied and we should stop trying.\n                            if loop_check_tuple == (tree.raw, tuple(tree.source_fixes)):\n                                linter_logger.debug(\n                                    f"Fixes for {crawler.code} could not be safely be "\n                                    "applied. Likely due to initially unparsable file."\n                                )\n                            elif not still_parses:\n',
        "QUIET", None, "validity copied to a second local before the test",
    ),
    Variant(
        "quiet-invalid-flag-local", LINTER,
        '                            # Was anything actually applied? If not, then the fixes we\n                            # had cannot be safely applied and we should stop trying.\n                            if loop_check_tuple == (tree.raw, tuple(tree.source_fixes)):\n                                linter_logger.debug(\n                                    f"Fixes for {crawler.code} could not be safely be "\n                                    "applied. Likely due to initially unparsable file."\n                                )\n                            elif not _valid:\n',
        '                            result_invalid = not _valid\n                            # Was anything actually applied? If not, then the fixes we\n                            # had cannot be safely applied and we should stop trying.\n                            if loop_check_tuple == (tree.raw, tuple(tree.source_fixes)):\n                                linter_logger.debug(\n                                    f"Fixes for {crawler.code} could not be safely be "\n                                    "applied. Likely due to initially unparsable file."\n                                )\n                            elif result_invalid:\n',
        "QUIET", None, "negated validity held in a boolean local",
    ),
    Variant(
        "quiet-locals-renamed", LINTER,
        "new_tree",
        "candidate_tree",
        "QUIET", None, "candidate tree local renamed everywhere", 4,
    ),
    Variant(
        "quiet-apply-fixes-all-keywords", LINTER,
        "                                tree,\n                                config.get(\"dialect_obj\"),\n                                crawler.code,\n                                anchor_info,\n                                fix_even_unparsable",
        "                                segment=tree,\n                                dialect=config.get(\"dialect_obj\"),\n                                rule_code=crawler.code,\n                                fixes=anchor_info,\n                                fix_even_unparsable",
        "QUIET", None, "positional arguments passed by keyword",
    ),
    Variant(
        "quiet-adoption-through-temp", LINTER,
        "                                tree = new_tree\n                                previous_versions.add(loop_check_tuple)\n",
        "                                accepted_tree = new_tree\n                                previous_versions.add(loop_check_tuple)\n                                tree = accepted_tree\n",
        "QUIET", None, "adopted tree through one more local, independent statements reordered",
    ),
    Variant(
        "quiet-request-renamed", FIX,
        "requires_validate",
        "needs_reparse_check",
        "QUIET", None, "request local renamed everywhere", 6,
    ),
    Variant(
        "quiet-exemption-positive-form", FIX,
        "            if not (\n                f.edit_type == \"replace\"\n                and len(f.edit) == 1\n                and f.edit[0].class_types == seg.class_types\n            ):\n                requires_validate = True\n",
        "            if (\n                f.edit_type == \"replace\"\n                and len(f.edit) == 1\n                and f.edit[0].class_types == seg.class_types\n            ):\n                pass\n            else:\n                requires_validate = True\n",
        "QUIET", None, "exemption written positively with the request in the else arm",
    ),
    Variant(
        "quiet-exemption-in-boolean-local", FIX,
        "            if not (\n                f.edit_type == \"replace\"\n                and len(f.edit) == 1\n                and f.edit[0].class_types == seg.class_types\n            ):\n                requires_validate = True\n",
        "            same_type_swap = (\n                f.edit_type == \"replace\"\n                and len(f.edit) == 1\n                and f.edit[0].class_types == seg.class_types\n            )\n            if not same_type_swap:\n                requires_validate = True\n",
        "QUIET", None, "exemption test held in a boolean local",
    ),
    Variant(
        "quiet-exemption-de-morgan-chain", FIX,
        "            if not (\n                f.edit_type == \"replace\"\n                and len(f.edit) == 1\n                and f.edit[0].class_types == seg.class_types\n            ):\n                requires_validate = True\n",
        "            if f.edit_type != \"replace\":\n                requires_validate = True\n            elif len(f.edit) != 1:\n                requires_validate = True\n            elif f.edit[0].class_types != seg.class_types:\n                requires_validate = True\n",
        "QUIET", None, "negated conjunction spelled as an if/elif chain of the negated conjuncts",
    ),
    Variant(
        "quiet-exemption-or-of-negations", FIX,
        "            if not (\n                f.edit_type == \"replace\"\n                and len(f.edit) == 1\n                and f.edit[0].class_types == seg.class_types\n            ):\n                requires_validate = True\n",
        "            if (\n                f.edit_type != \"replace\"\n                or len(f.edit) != 1\n                or f.edit[0].class_types != seg.class_types\n            ):\n                requires_validate = True\n",
        "QUIET", None, "De Morgan on the exemption test",
    ),
    Variant(
        "quiet-edit-list-through-local", FIX,
        "            if not (\n                f.edit_type == \"replace\"\n                and len(f.edit) == 1\n                and f.edit[0].class_types == seg.class_types\n            ):\n                requires_validate = True\n",
        "            new_segments = f.edit\n            if not (\n                f.edit_type == \"replace\"\n                and len(new_segments) == 1\n                and new_segments[0].class_types == seg.class_types\n            ):\n                requires_validate = True\n",
        "QUIET", None, "f.edit read once into a local",
    ),
    Variant(
        "quiet-exemption-sides-swapped", FIX,
        "                and f.edit[0].class_types == seg.class_types\n",
        "                and seg.class_types == f.edit[0].class_types\n",
        "QUIET", None, "operands of the type comparison swapped",
    ),
    Variant(
        "quiet-child-validity-or-accumulated", FIX,
        "        if not validated:\n            requires_validate = True\n",
        "        requires_validate = requires_validate or not validated\n",
        "QUIET", None, "request accumulated with `or` instead of a conditional set",
    ),
    Variant(
        "quiet-recursive-result-indexed", FIX,
        "        s, pre, post, validated = apply_fixes(\n            seg,\n            dialect,\n            rule_code,\n            fixes,\n            max_parse_depth=max_parse_depth,\n            max_parse_nodes=max_parse_nodes,\n        )\n",
        "        child_result = apply_fixes(\n            seg,\n            dialect,\n            rule_code,\n            fixes,\n            max_parse_depth=max_parse_depth,\n            max_parse_nodes=max_parse_nodes,\n        )\n        s, pre, post = child_result[0], child_result[1], child_result[2]\n        validated = child_result[3]\n",
        "QUIET", None, "recursive result kept whole and indexed",
    ),
    Variant(
        "quiet-no-request-arm-returns-directly", FIX,
        "    else:\n        validated = not requires_validate\n",
        "    else:\n        return new_seg, before, after, True\n",
        "QUIET", None, "the no-request arm returns its (true) validity directly",
    ),
    Variant(
        "quiet-unparsable-test-in-local", FIX,
        "        if \"unparsable\" in segment.descendant_type_set | segment.class_types:\n",
        "        already_unparsable = \"unparsable\" in segment.descendant_type_set | segment.class_types\n        if already_unparsable:\n",
        "QUIET", None, "already-unparsable test held in a local",
    ),
    Variant(
        "quiet-unparsable-arms-swapped", FIX,
        "            if fix_even_unparsable:\n                # If we're fixing even unparsable sections, there's no point trying\n                # to validate, it will always fail. We may still want to validate\n                # other sections of the file though, so we should just declare *this*\n                # part of the file to be all good.\n                validated = True\n            else:\n                # It was already unparsable, but we're being asked to validate.\n                # Don't any apply fixes from within this region and just return the\n                # original segment.\n                return segment, [], [], True\n",
        "            if not fix_even_unparsable:\n                # It was already unparsable, but we're being asked to validate.\n                # Don't any apply fixes from within this region and just return the\n                # original segment.\n                return segment, [], [], True\n            validated = True\n",
        "QUIET", None, "early return first, forced arm after it",
    ),
    # breaking twins of the spellings accepted above
    Variant(
        "whole-result-wrong-component-as-validity", LINTER,
        '                            new_tree, _, _, _valid = apply_fixes(\n                                tree,\n                                config.get("dialect_obj"),\n                                crawler.code,\n                                anchor_info,\n                                fix_even_unparsable=config.get("fix_even_unparsable"),\n                                max_parse_depth=config.get("max_parse_depth"),\n                                max_parse_nodes=config.get("max_parse_nodes"),\n                            )\n',
        '                            fix_result = apply_fixes(\n                                tree,\n                                config.get("dialect_obj"),\n                                crawler.code,\n                                anchor_info,\n                                fix_even_unparsable=config.get("fix_even_unparsable"),\n                                max_parse_depth=config.get("max_parse_depth"),\n                                max_parse_nodes=config.get("max_parse_nodes"),\n                            )\n                            new_tree = fix_result[0]\n                            _valid = not fix_result[2]\n',
        "R13a", "lint_fix_parsed", "the flag tested before adoption is not the validity component",
    ),
    Variant(
        "whole-result-adopted-directly", LINTER,
        '                            new_tree, _, _, _valid = apply_fixes(\n                                tree,\n                                config.get("dialect_obj"),\n                                crawler.code,\n                                anchor_info,\n                                fix_even_unparsable=config.get("fix_even_unparsable"),\n                                max_parse_depth=config.get("max_parse_depth"),\n                                max_parse_nodes=config.get("max_parse_nodes"),\n                            )\n',
        '                            fix_result = apply_fixes(\n                                tree,\n                                config.get("dialect_obj"),\n                                crawler.code,\n                                anchor_info,\n                                fix_even_unparsable=config.get("fix_even_unparsable"),\n                                max_parse_depth=config.get("max_parse_depth"),\n                                max_parse_nodes=config.get("max_parse_nodes"),\n                            )\n                            new_tree = tree = fix_result[0]\n                            _valid = fix_result[3]\n',
        "R13a", "lint_fix_parsed", "the tree component is bound straight to the working tree",
    ),
    Variant(
        "child-validity-or-accumulated-wrong-polarity", FIX,
        "        if not validated:\n            requires_validate = True\n",
        "        requires_validate = requires_validate or validated\n",
        "R13b", "(ii) child not validated",
    ),
    Variant(
        "child-validity-and-accumulated-resets", FIX,
        "        if not validated:\n            requires_validate = True\n",
        "        requires_validate = requires_validate and not validated\n",
        "R13b", "reparse check under the request", "an `and` accumulation can switch the request off: it is no request flag any more",
    ),
    Variant(
        "recursive-result-indexed-wrong-component", FIX,
        '        s, pre, post, validated = apply_fixes(\n            seg,\n            dialect,\n            rule_code,\n            fixes,\n            max_parse_depth=max_parse_depth,\n            max_parse_nodes=max_parse_nodes,\n        )\n',
        '        child_result = apply_fixes(\n            seg,\n            dialect,\n            rule_code,\n            fixes,\n            max_parse_depth=max_parse_depth,\n            max_parse_nodes=max_parse_nodes,\n        )\n        s, pre, post = child_result[0], child_result[1], child_result[2]\n        validated = bool(child_result[0])\n',
        "R13b", "(ii) child not validated",
    ),
    Variant(
        "exemption-local-without-type-test", FIX,
        '            if not (\n                f.edit_type == "replace"\n                and len(f.edit) == 1\n                and f.edit[0].class_types == seg.class_types\n            ):\n                requires_validate = True\n',
        "            simple_swap = f.edit_type == \"replace\" and len(f.edit) == 1\n            if not simple_swap:\n                requires_validate = True\n",
        "R13b", "(i) every edit kind",
    ),
    Variant(
        "exemption-chain-without-type-arm", FIX,
        '            if not (\n                f.edit_type == "replace"\n                and len(f.edit) == 1\n                and f.edit[0].class_types == seg.class_types\n            ):\n                requires_validate = True\n',
        "            if f.edit_type != \"replace\":\n                requires_validate = True\n            elif len(f.edit) != 1:\n                requires_validate = True\n",
        "R13b", "(i) every edit kind",
    ),
    Variant(
        "exemption-compares-type-of-other-local", FIX,
        '            if not (\n                f.edit_type == "replace"\n                and len(f.edit) == 1\n                and f.edit[0].class_types == seg.class_types\n            ):\n                requires_validate = True\n',
        "            new_segments = f.edit\n            if not (\n                f.edit_type == \"replace\"\n                and len(new_segments) == 1\n                and seg.class_types == seg.class_types\n            ):\n                requires_validate = True\n",
        "R13b", "(i) every edit kind",
    ),
    Variant(
        "no-grammar-segment-keeps-child-validity", FIX,
        "        else:\n            # There's nothing to validate against here (e.g. a BracketedSegment),\n            # so hand the validation request on to the parent segment.\n            validated = False\n",
        "",
        "R13b", "(iii) returned validity", "the original defect: validity left over from the last child",
    ),
    Variant(
        "adopt-before-validity-test", LINTER,
        "                            elif not _valid:\n",
        "                            elif False:\n",
        "R13a", "lint_fix_parsed", "the arm that rejects invalid results never runs",
    ),
    Variant(
        "invalid-result-rejected-only-if-seen-before", LINTER,
        "                            elif not _valid:\n",
        "                            elif not _valid and loop_check_tuple in previous_versions:\n",
        "R13a", "lint_fix_parsed", "an invalid tree not seen before falls through to the adoption arm",
    ),
    Variant(
        "unpack-straight-into-working-tree", LINTER,
        "                            new_tree, _, _, _valid = apply_fixes(\n                                tree,\n",
        "                            new_tree, _, _, _valid = tree, _, _, _valid = apply_fixes(\n                                tree,\n",
        "R13a", "lint_fix_parsed",
    ),
    Variant(
        "validity-of-other-value", LINTER,
        "                            elif not _valid:\n",
        "                            elif not (_valid or fix):\n",
        "R13a", "lint_fix_parsed", "fix is always true here, so the rejection arm is dead",
    ),
    Variant(
        "delete-does-not-request-validation", FIX,
        "                # We're just getting rid of this segment.\n                requires_validate = True\n",
        "                # We're just getting rid of this segment.\n",
        "R13b", "(i) every edit kind",
    ),
    Variant(
        "any-single-replace-exempt", FIX,
        "                and len(f.edit) == 1\n                and f.edit[0].class_types == seg.class_types\n            ):\n                requires_validate = True\n",
        "                and len(f.edit) == 1\n            ):\n                requires_validate = True\n",
        "R13b", "(i) every edit kind", "a replace with a different segment type is no longer validated",
    ),
    Variant(
        "creates-exempt", FIX,
        "            if not (\n                f.edit_type == \"replace\"\n                and len(f.edit) == 1\n",
        "            if not (\n                len(f.edit) == 1\n",
        "R13b", "(i) every edit kind", "single-segment create_before/after skip validation",
    ),
    Variant(
        "child-failure-not-propagated", FIX,
        "        if not validated:\n            requires_validate = True\n",
        "        if not validated:\n            pass\n",
        "R13b", "(ii) child not validated",
    ),
    Variant(
        "child-failure-propagated-conditionally", FIX,
        "        if not validated:\n            requires_validate = True\n",
        "        if not validated and pre:\n            requires_validate = True\n",
        "R13b", "(ii) child not validated",
    ),
    Variant(
        "request-reset-before-recursion", FIX,
        "    seg_queue = seg_buffer\n    seg_buffer = []\n",
        "    seg_queue = seg_buffer\n    seg_buffer = []\n    requires_validate = False\n",
        "R13b", "request never reset",
    ),
    Variant(
        "always-return-valid", FIX,
        "    return new_seg, before, after, validated\n",
        "    return new_seg, before, after, True\n",
        "R13b", "(iii) returned validity <- True",
    ),
    Variant(
        "reparse-result-ignored", FIX,
        "            validated = new_seg.validate_segment_with_reparse(\n",
        "            validated = True or new_seg.validate_segment_with_reparse(\n",
        "R13b", "(iii) returned validity <- True or",
    ),
    Variant(
        "unparsable-arm-returns-edited-segment", FIX,
        "                # original segment.\n                return segment, [], [], True\n",
        "                # original segment.\n                return new_seg, [], [], True\n",
        "R13b", "(iii) returned validity <- True", "the edits inside an unparsable region are kept and declared valid",
    ),
    # R13c re-spellings of the recursive call
    Variant(
        "quiet-r13c-recursion-all-positional", FIX,
        '        s, pre, post, validated = apply_fixes(\n            seg,\n            dialect,\n            rule_code,\n            fixes,\n            max_parse_depth=max_parse_depth,\n            max_parse_nodes=max_parse_nodes,\n        )\n',
        "        s, pre, post, validated = apply_fixes(\n            seg, dialect, rule_code, fixes, max_parse_depth, max_parse_nodes\n        )\n",
        "QUIET", None, "R13c: both limits passed by position",
    ),
    Variant(
        "quiet-r13c-budget-through-local-all-keywords", FIX,
        '    for seg in seg_queue:\n        s, pre, post, validated = apply_fixes(\n            seg,\n            dialect,\n            rule_code,\n            fixes,\n            max_parse_depth=max_parse_depth,\n            max_parse_nodes=max_parse_nodes,\n        )\n',
        "    node_budget = max_parse_nodes\n    for seg in seg_queue:\n        s, pre, post, validated = apply_fixes(\n            segment=seg,\n            dialect=dialect,\n            rule_code=rule_code,\n            fixes=fixes,\n            max_parse_nodes=node_budget,\n            max_parse_depth=max_parse_depth,\n        )\n",
        "QUIET", None, "R13c: the budget through one more local, every argument by keyword, keywords reordered",
    ),
    Variant(
        "quiet-r13c-limits-in-a-keyword-dict", FIX,
        '    for seg in seg_queue:\n        s, pre, post, validated = apply_fixes(\n            seg,\n            dialect,\n            rule_code,\n            fixes,\n            max_parse_depth=max_parse_depth,\n            max_parse_nodes=max_parse_nodes,\n        )\n',
        "    limits = {\"max_parse_depth\": max_parse_depth, \"max_parse_nodes\": max_parse_nodes}\n    for seg in seg_queue:\n        s, pre, post, validated = apply_fixes(seg, dialect, rule_code, fixes, **limits)\n",
        "QUIET", None, "R13c: the two limits collected in a dict and splatted into the call",
    ),
    Variant(
        "quiet-r13c-recursion-in-a-nested-helper", FIX,
        '    for seg in seg_queue:\n        s, pre, post, validated = apply_fixes(\n            seg,\n            dialect,\n            rule_code,\n            fixes,\n            max_parse_depth=max_parse_depth,\n            max_parse_nodes=max_parse_nodes,\n        )\n',
        "    def _fix_child(child: BaseSegment):\n        return apply_fixes(\n            child,\n            dialect,\n            rule_code,\n            fixes,\n            max_parse_depth=max_parse_depth,\n            max_parse_nodes=max_parse_nodes,\n        )\n\n    for seg in seg_queue:\n        s, pre, post, validated = _fix_child(seg)\n",
        "QUIET", None, "R13c: the recursive call extracted into a nested function reading the enclosing parameters",
    ),
    Variant(
        "quiet-r13c-result-kept-whole-and-unpacked", FIX,
        '        s, pre, post, validated = apply_fixes(\n            seg,\n            dialect,\n            rule_code,\n            fixes,\n            max_parse_depth=max_parse_depth,\n            max_parse_nodes=max_parse_nodes,\n        )\n',
        "        child_result = apply_fixes(\n            seg,\n            dialect,\n            rule_code,\n            fixes,\n            max_parse_depth=max_parse_depth,\n            max_parse_nodes=max_parse_nodes,\n        )\n        s, pre, post, validated = child_result\n",
        "QUIET", None, "R13c: the result tuple kept whole, then unpacked",
    ),
    # breaking twins of the R13c re-spellings
    Variant(
        "r13c-twin-keyword-dict-without-the-budget", FIX,
        '    for seg in seg_queue:\n        s, pre, post, validated = apply_fixes(\n            seg,\n            dialect,\n            rule_code,\n            fixes,\n            max_parse_depth=max_parse_depth,\n            max_parse_nodes=max_parse_nodes,\n        )\n',
        "    limits = {\"max_parse_depth\": max_parse_depth}\n    for seg in seg_queue:\n        s, pre, post, validated = apply_fixes(seg, dialect, rule_code, fixes, **limits)\n",
        "R13c", "apply_fixes", "dict spelling, budget entry missing",
    ),
    Variant(
        "r13c-twin-keyword-dict-entry-overwritten", FIX,
        '    for seg in seg_queue:\n        s, pre, post, validated = apply_fixes(\n            seg,\n            dialect,\n            rule_code,\n            fixes,\n            max_parse_depth=max_parse_depth,\n            max_parse_nodes=max_parse_nodes,\n        )\n',
        "    limits = {\"max_parse_depth\": max_parse_depth, \"max_parse_nodes\": max_parse_nodes}\n    limits[\"max_parse_nodes\"] = 0\n    for seg in seg_queue:\n        s, pre, post, validated = apply_fixes(seg, dialect, rule_code, fixes, **limits)\n",
        "R13c", "apply_fixes", "dict spelling, budget entry reset before the call",
    ),
    Variant(
        "r13c-twin-nested-helper-without-the-budget", FIX,
        '    for seg in seg_queue:\n        s, pre, post, validated = apply_fixes(\n            seg,\n            dialect,\n            rule_code,\n            fixes,\n            max_parse_depth=max_parse_depth,\n            max_parse_nodes=max_parse_nodes,\n        )\n',
        "    def _fix_child(child: BaseSegment):\n        return apply_fixes(\n            child,\n            dialect,\n            rule_code,\n            fixes,\n            max_parse_depth=max_parse_depth,\n        )\n\n    for seg in seg_queue:\n        s, pre, post, validated = _fix_child(seg)\n",
        "R13c", "apply_fixes", "nested-helper spelling, budget not forwarded",
    ),
    Variant(
        "r13c-twin-nested-helper-reads-a-rebound-budget", FIX,
        '    for seg in seg_queue:\n        s, pre, post, validated = apply_fixes(\n            seg,\n            dialect,\n            rule_code,\n            fixes,\n            max_parse_depth=max_parse_depth,\n            max_parse_nodes=max_parse_nodes,\n        )\n',
        "    max_parse_nodes = 0\n\n    def _fix_child(child: BaseSegment):\n        return apply_fixes(\n            child,\n            dialect,\n            rule_code,\n            fixes,\n            max_parse_depth=max_parse_depth,\n            max_parse_nodes=max_parse_nodes,\n        )\n\n    for seg in seg_queue:\n        s, pre, post, validated = _fix_child(seg)\n",
        "R13c", "apply_fixes", "nested-helper spelling, the closure variable is re-bound to 'unlimited'",
    ),
    Variant(
        "r13c-twin-budget-local-rebound", FIX,
        '    for seg in seg_queue:\n        s, pre, post, validated = apply_fixes(\n            seg,\n            dialect,\n            rule_code,\n            fixes,\n            max_parse_depth=max_parse_depth,\n            max_parse_nodes=max_parse_nodes,\n        )\n',
        "    node_budget = max_parse_nodes\n    node_budget = 0\n    for seg in seg_queue:\n        s, pre, post, validated = apply_fixes(\n            segment=seg,\n            dialect=dialect,\n            rule_code=rule_code,\n            fixes=fixes,\n            max_parse_nodes=node_budget,\n            max_parse_depth=max_parse_depth,\n        )\n",
        "R13c", "apply_fixes", "local spelling, the local no longer holds the parameter",
    ),
    Variant(
        "r13b-twin-nested-helper-drops-child-validity", FIX,
        '    for seg in seg_queue:\n        s, pre, post, validated = apply_fixes(\n            seg,\n            dialect,\n            rule_code,\n            fixes,\n            max_parse_depth=max_parse_depth,\n            max_parse_nodes=max_parse_nodes,\n        )\n',
        "    def _fix_child(child: BaseSegment):\n        res = apply_fixes(\n            child,\n            dialect,\n            rule_code,\n            fixes,\n            max_parse_depth=max_parse_depth,\n            max_parse_nodes=max_parse_nodes,\n        )\n        return res[0], res[1], res[2], True\n\n    for seg in seg_queue:\n        s, pre, post, validated = _fix_child(seg)\n",
        "R13b", "apply_fixes", "nested-helper spelling, but the helper replaces the child's validity by True",
    ),
]
