"""C23 — reported violation positions are accurate (DESIGN §3 C23).

Decided clause: every reported coordinate is computed *in the source space from the start of
the source slice of the anchored segment*, and the machine-readable offsets and the line /
column pairs come from the *same* slice end through the *same* converter.

RQ-space  coordinate-space coherence (sa/spacekinds.py) of every position computation in
          markers.py, templaters/base.py, errors.py, rules/fix.py, linter/patch.py,
          linter/linted_file.py, parser/lexer.py, segments/meta.py (+ helpers/slice.py):
          text subscripts, the offset->line/column converter, newline tables, every kinded
          constructor field, attribute stores, serialised position dict entries, and every
          comparison / arithmetic / min-max / slice() between two offsets.
R23a      where a violation's line/column come from:
          (1) ``SQLBaseError.__init__`` stores component 0 / 1 of ``<marker>.source_position()``
              into ``line_no`` / ``line_pos`` whenever a marker is given, and the explicit
              ``line_no`` / ``line_pos`` parameters only when none is given;
          (2) ``PositionMarker.source_position`` converts the *start* of ``self.source_slice``
              with ``source=True`` on ``self.templated_file``; ``templated_position`` converts the
              start of ``self.templated_slice`` with ``source=False`` (pairing);
          (3) ``PositionMarker.line_no`` / ``line_pos`` are components 0 / 1 of
              ``self.source_position()``;
          (4) every ``__init__`` of an error subclass hands ``<segment>.pos_marker`` (or None) of
              the very parameter it stores as ``self.segment`` to the base constructor.
          Accepted idioms: values passed through plain locals, conditional expressions, tuple
          unpacking or indexing of the returned pair.
R23b      offsets and line/column agree:
          (1) in ``source_position_dict_from_slice`` each ``<p>_file_pos`` entry is ``<slice
              parameter>.<end>`` and ``<p>_line_no`` / ``<p>_line_pos`` are components 0 / 1 of ONE
              ``get_line_pos_of_char_pos(<same parameter>.<same end>, source=True)`` call; the
              ``start`` entries use ``.start`` and the ``end`` entries ``.stop``;
          (2) ``PositionMarker.to_source_dict`` serialises ``self.source_slice``;
          (3) ``LintFix.to_dict``: every entry copied between the ``start_*`` / ``end_*`` halves of
              the position dict keeps its suffix, and each arm copies line, column *and* offset
              together; a source-only fix serialises its source fix's ``source_slice``;
          (4) ``SQLParseError/SQLLintError.to_dict`` extract the extra position entries from
              ``self.segment`` (the segment whose marker gave line/column), through
              ``<segment>.pos_marker.to_source_dict()``; entries hoisted from a fix are hoisted per
              half together with their offset unless the guard established their equality.

R23c      output writers (GitHub annotation / native annotation / SARIF in cli/commands.py): an
          entry, item store or f-string field whose *target* key names a line (``start_line``,
          ``endLine``, ``line=``) is filled from a ``*_line_no`` record entry, one that names a
          column (``start_column``, ``endColumn``, ``col=``) from a ``*_line_pos`` entry; the
          fallback of ``record.get(<end key>, <fallback>)`` is of the same class.  Keys are
          classified by their words (public output schemas), values by the record schema suffix.

NOT decided: that the anchor segment chosen by a rule is the offending code; that the source
slices the lexer/templater assign to templated segments are tight; the converter's arithmetic
(C31); errors constructed without a marker (file-level templating failures carry explicit or
default coordinates); whether an annotation writer pairs start with start and end with end;
positions computed in rules or utils (outside the eight modules).
"""

from __future__ import annotations

import ast
from typing import Dict, List, Optional, Set, Tuple

from ..cfg import atoms, cfg_of, origins
from ..flowutil import attr_chain, param_origin
from ..idioms import conditions_at
from ..index import AnalysisError, FuncNode, arg_of, call_name, calls_in, last_attr, norm, short, walk_local
from ..spacekinds import (
    ERRORS, FIXPY, MARKERS, SCHEMA_SUFFIX, TBASE, SpaceKinds, attr_path, leaves, pair_components, report_sites,
)

CONVERTER = "TemplatedFile.get_line_pos_of_char_pos"
DICTFN = "TemplatedFile.source_position_dict_from_slice"


R23E_SCOPE = (
    "src/sqlfluff/cli/commands.py", "src/sqlfluff/cli/formatters.py", "src/sqlfluff/cli/outputstream.py", "src/sqlfluff/api/simple.py",
    "src/sqlfluff/core/linter/linted_dir.py", "src/sqlfluff/core/linter/linting_result.py", "src/sqlfluff/core/linter/linted_file.py",
    "src/sqlfluff/core/errors.py", "src/sqlfluff/core/rules/fix.py",
)


def _r23g(chk, repo) -> None:
    n = 0
    mods = [repo.mod("src/sqlfluff/core/parser/lexer.py")]  # where token positions are made; templater internals are not judged here
    for m in mods:
        for q, f in m.functions():
            # locals that are None at some point and an index / offset / position at another
            none_assigned, num_assigned = set(), set()
            for st in walk_local(f):
                tg, val = [], None
                if isinstance(st, ast.Assign):
                    tg, val = st.targets, st.value
                elif isinstance(st, ast.AnnAssign) and st.value is not None:
                    tg, val = [st.target], st.value
                for t in tg:
                    if isinstance(t, ast.Name) and any(w in t.id for w in ("idx", "pos", "offset", "start", "stop")):
                        if isinstance(val, ast.Constant) and val.value is None:
                            none_assigned.add(t.id)
                        else:
                            num_assigned.add(t.id)
            cand = none_assigned & num_assigned
            if not cand:
                continue
            for x in walk_local(f):
                uses = []
                if isinstance(x, (ast.If, ast.While, ast.IfExp)):
                    uses = [x.test]
                elif isinstance(x, ast.BoolOp):
                    uses = list(x.values)
                elif isinstance(x, ast.UnaryOp) and isinstance(x.op, ast.Not):
                    uses = [x.operand]
                elif isinstance(x, ast.Assert):
                    uses = [x.test]
                for u in uses:
                    if isinstance(u, ast.Name) and u.id in cand:
                        chk.fail(
                            "R23g", x,
                            f"{q}: `{u.id}` holds None or a position and is tested by truthiness here ({short(x, 50)}): position 0 counts as 'absent', so a token that starts at the "
                            "first character of the file gets its start from somewhere else and its violations are reported at the wrong place",
                            detail=f"{q}: optional position {u.id} tested with `is None`",
                        )
            n += len(cand)
    chk.count("R23g.optional_position_locals", n)
    chk.floor("R23g.optional_position_locals", 1)


def _r23f(chk, repo) -> None:
    """`"end_column": violation.get("end_line_pos", start_line)`: the fallback of a column must be a column."""
    n = 0
    for rel in ("src/sqlfluff/cli/commands.py", "src/sqlfluff/cli/formatters.py", "src/sqlfluff/api/simple.py"):
        m = repo.mod(rel)
        for q, f in m.functions():
            dicts = [d for d in ast.walk(f) if isinstance(d, ast.Dict) and any(isinstance(k, ast.Constant) and isinstance(k.value, str) and ("column" in k.value.lower() or k.value.lower().endswith("line") or "_line" in k.value.lower() or "line_" in k.value.lower()) for k in d.keys if k is not None)]
            subs = [st for st in ast.walk(f) if isinstance(st, ast.Assign) and len(st.targets) == 1 and isinstance(st.targets[0], ast.Subscript) and isinstance(st.targets[0].slice, ast.Constant) and isinstance(st.targets[0].slice.value, str)]
            if not dicts and not subs:
                continue
            cfg = cfg_of(f)

            def kinds(e, at, depth=0) -> Set[str]:
                """{'line', 'col'} kinds of the violation fields a value is read from."""
                out: Set[str] = set()
                if depth > 4:
                    return out
                for x in ast.walk(e):
                    if isinstance(x, ast.Constant) and isinstance(x.value, str):
                        v = x.value.lower()
                        if v.endswith("line_no") or v in ("line", "startline", "endline"):
                            out.add("line")
                        if v.endswith("line_pos") or v in ("column", "col"):
                            out.add("col")
                    if isinstance(x, ast.Attribute):
                        if x.attr in ("line_no",):
                            out.add("line")
                        if x.attr in ("line_pos",):
                            out.add("col")
                    if isinstance(x, ast.Name) and isinstance(x.ctx, ast.Load):
                        for o in origins(cfg, x, at):
                            if o.kind == "expr" and o.expr is not e:
                                out |= kinds(o.expr, o.stmt, depth + 1)
                return out

            pairs = []
            for d in dicts:
                st = cfg.stmt_of(d)
                for k, v in zip(d.keys, d.values):
                    if k is not None and isinstance(k, ast.Constant) and isinstance(k.value, str):
                        pairs.append((k.value, v, st, d))
            for st in subs:
                pairs.append((st.targets[0].slice.value, st.value, st, st))
            for key, v, st, node in pairs:
                kl = key.lower()
                want = "col" if ("column" in kl or kl.endswith("_pos")) else ("line" if (kl.endswith("line") or kl.endswith("line_no")) else None)
                if want is None or st is None:
                    continue
                got = kinds(v, st)
                if not got:
                    continue
                n += 1
                chk.require(
                    got == {want}, "R23f", v,
                    f"{q}: the field {key!r} is fed from {'a column' if 'col' in got and want == 'line' else 'a line number' if want == 'col' and got == {'line'} else 'both a line number and a column'} "
                    f"({short(v, 60)}): for a violation that takes the fallback the reported {'column' if want == 'col' else 'line'} is the other coordinate",
                    detail=f"{q}: record field {key} is a {'column' if want == 'col' else 'line'}",
                )
    chk.count("R23f.line_column_fields", n)
    chk.floor("R23f.line_column_fields", 6)


def _r23e(chk, repo) -> None:
    """Optional fields (``end_line_no`` / ``end_line_pos`` exist only for some violations) written into a
    scratch mapping that lives across iterations stay there for the next violation that lacks them."""
    n_loops = n_cand = 0
    for rel in R23E_SCOPE:
        try:
            m = repo.mod(rel)
        except Exception:
            continue
        for q, f in m.functions():
            loops = [l for l in walk_local(f) if isinstance(l, (ast.For, ast.While))]
            if not loops:
                continue
            cfg = cfg_of(f)
            rd = cfg.reaching()
            for l in loops:
                n_loops += 1
                inside = {id(x) for b in l.body for x in ast.walk(b)}
                # conditional subscript stores inside the loop
                stores: Dict[str, List[ast.AST]] = {}
                for st in [x for b in l.body for x in ast.walk(b)]:
                    if isinstance(st, ast.Assign):
                        for t in st.targets:
                            if isinstance(t, ast.Subscript) and isinstance(t.value, ast.Name):
                                # conditional = nested under an if / try / inner loop that is itself inside this loop
                                par, cond = getattr(st, "_parent", None), False
                                while par is not None and par is not l:
                                    if isinstance(par, (ast.If, ast.Try, ast.IfExp)):
                                        cond = True
                                    par = getattr(par, "_parent", None)
                                if cond:
                                    stores.setdefault(t.value.id, []).append(st)
                for name, sts in stores.items():
                    defs = rd.defs_at(sts[0], name)
                    if not defs or any(id(d.stmt) in inside for d in defs if d.stmt is not None):
                        continue  # (re)created inside the loop: fresh every iteration
                    if not all(d.kind == "assign" and (isinstance(d.value, (ast.Dict, ast.DictComp)) or (isinstance(d.value, ast.Call) and call_name(d.value) in ("dict", "OrderedDict", "collections.OrderedDict"))) for d in defs):
                        continue
                    n_cand += 1
                    # emptied every iteration?
                    cleared = any(
                        isinstance(x, ast.Expr) and isinstance(x.value, ast.Call) and last_attr(x.value) == "clear" and isinstance(x.value.func, ast.Attribute)
                        and isinstance(x.value.func.value, ast.Name) and x.value.func.value.id == name and x in l.body
                        for x in l.body
                    )
                    if cleared:
                        continue
                    # whole-mapping reads inside the loop
                    whole = []
                    for x in [y for b in l.body for y in ast.walk(b)]:
                        if not (isinstance(x, ast.Name) and x.id == name and isinstance(x.ctx, ast.Load)):
                            continue
                        par = getattr(x, "_parent", None)
                        if isinstance(par, ast.Subscript) and par.value is x:
                            continue
                        if isinstance(par, ast.Attribute) and par.attr in ("get", "setdefault", "pop", "clear", "update", "keys", "__contains__"):
                            continue
                        if isinstance(par, ast.Compare) and any(c is x for c in par.comparators):
                            continue  # k in D
                        whole.append(x)
                    for x in whole:
                        chk.fail(
                            "R23e", x,
                            f"{q}: the mapping `{name}` is created before the loop, keys are stored in it under a condition inside the loop ({short(sts[0], 50)}) and the whole mapping is "
                            f"used here inside the loop: a record that does not set those keys inherits them from the previous record (a violation without an end position gets the previous violation's)",
                            detail=f"{q}: per-record mapping {name} carries conditional keys across iterations",
                        )
    chk.count("R23e.loops_in_output_builders", n_loops)
    chk.count("R23e.mappings_with_conditional_stores_created_outside", n_cand)
    chk.floor("R23e.loops_in_output_builders", 20)


def run(chk) -> None:
    repo = chk.repo
    chk.rule("RQ-space", "no position computation in the eight position-handling modules uses a rendered-space offset/slice/text where a source-space one is required or vice versa, nor a line where a column is required (kind inference from the declared slice fields)")
    chk.rule("R23a", "a violation's line/column are components 0/1 of the marker's source_position(), which converts the START of the marker's SOURCE slice with source=True; error subclasses pass the marker of the segment they store")
    chk.rule("R23b", "serialised offsets and line/column come from the same end of the same slice through one converter call; fix serialisation copies line, column and offset together; extra entries come from the stored segment's marker")
    chk.rule("R23g", "an optional source position is tested for presence with `is None`, never by truthiness: in the lexer a local that holds None-or-an-offset is not used as a condition or as an `or` / `and` operand (offset 0 is a position)")
    _r23g(chk, repo)
    chk.rule("R23f", "in every record a CLI / API builder writes, a field named *line* is fed from a `*line_no` field (or a line variable) and a field named *column* / *pos* from a `*line_pos` field: fallbacks included")
    _r23f(chk, repo)
    chk.rule("R23e", "a record built per violation does not inherit position fields from the previous one: in the output builders no mapping created outside a loop has keys stored under a condition inside the loop while the whole mapping is copied / embedded inside that loop, unless it is emptied every iteration")
    _r23e(chk, repo)
    sk = SpaceKinds(repo)
    sk.analyse_all()
    counts = report_sites(chk, sk, "RQ-space")
    inst = chk.instances
    chk.count("RQ-space.functions_analysed", len({k[0] for k in sk.memo}))
    chk.count("RQ-space.string_converter_sinks", sum(counts.get(c, 0) for c in ("text-subscript", "converter", "newline-table", "translate-arg")))
    chk.count("RQ-space.string_converter_sinks_decided", sum(inst.get(f"RQ-space.{c}_decided", 0) for c in ("text-subscript", "converter", "translate-arg")))
    chk.floor("RQ-space.string_converter_sinks", 24)
    chk.floor("RQ-space.string_converter_sinks_decided", 20)
    chk.floor("RQ-space.ctor-field_sites", 30)
    chk.floor("RQ-space.ctor-field_decided", 24)
    chk.floor("RQ-space.compare_sites", 30)
    chk.floor("RQ-space.functions_analysed", 80)
    for n, why in sk.undecided:
        chk.note(f"RQ-space: {n._module.relpath}:{n.lineno} not decided ({why}).")
    shown = 0
    for s in sk.sites:
        if s.decided and s.cat in ("converter", "text-subscript", "ctor-field", "dict-schema", "arith") and shown < 8:
            shown += 1
            chk.sample({"rule": "RQ-space", "site": f"{s.node._module.relpath}:{s.node.lineno}", "sink": s.cat, "what": s.label, "needs": repr(s.expected), "gets": repr(s.actual), "expr": short(s.node, 80)})
    chk.note(
        "RQ-space decides kinds only where the receiver class and the slice field are known from declarations; sites marked undetermined "
        "(untyped receivers, values joined from both spaces, lengths) are counted but never alarm."
    )
    _r23a(chk, repo)
    _r23b(chk, repo)
    chk.rule("R23c", "annotation / SARIF writers fill line-named output keys from *_line_no record entries and column-named keys from *_line_pos entries (including the fallback of .get)")
    _r23c(chk, repo)


# ---------------------------------------------------------------------------
def _is_method_call(e, name: str) -> bool:
    return isinstance(e, ast.Call) and isinstance(e.func, ast.Attribute) and e.func.attr == name


def _converter_params(repo) -> Tuple[str, str, object]:
    conv = repo.fn(TBASE, CONVERTER)
    ps = [a.arg for a in conv.args.args]
    if len(ps) < 3:
        raise AnalysisError("get_line_pos_of_char_pos no longer takes (self, char_pos, source)")
    d = conv.args.defaults[-1] if conv.args.defaults else None
    return ps[1], ps[2], (d.value if isinstance(d, ast.Constant) else None)


def _flag_value(repo, call: ast.Call):
    """Constant value of the converter's source flag at ``call`` (default applied), else None."""
    _, flag, dflt = _converter_params(repo)
    a = arg_of(call, 1, flag)
    if a is None:
        return dflt
    return a.value if isinstance(a, ast.Constant) and isinstance(a.value, bool) else None


def _marker_params(repo, f) -> List[str]:
    out = []
    m = f._module
    for a in f.args.posonlyargs + f.args.args + f.args.kwonlyargs:
        if a.annotation is None:
            continue
        txt = norm(a.annotation)
        if "PositionMarker" in txt:
            out.append(a.arg)
    return out


def _r23a(chk, repo) -> None:
    # ---- (1) SQLBaseError.__init__ ---------------------------------------------------
    f = repo.fn(ERRORS, "SQLBaseError.__init__")
    cfg = cfg_of(f)
    mps = _marker_params(repo, f)
    if len(mps) != 1:
        raise AnalysisError(f"SQLBaseError.__init__: expected exactly one PositionMarker parameter, found {mps}")
    pos = mps[0]
    params = [a.arg for a in f.args.args]
    want_idx = {"line_no": 0, "line_pos": 1}
    from_marker: Dict[str, int] = {"line_no": 0, "line_pos": 0}
    n_store = 0
    for st in walk_local(f):
        if not isinstance(st, ast.Assign):
            continue
        for tgt in st.targets:
            elts = list(tgt.elts) if isinstance(tgt, ast.Tuple) else [tgt]
            for i, t in enumerate(elts):
                ch = attr_chain(t)
                if not (ch and len(ch) == 2 and ch[0] == "self" and ch[1] in want_idx):
                    continue
                n_store += 1
                attr = ch[1]

                def marker_given(e, pol):
                    """True / False when the fact (e, pol) says a marker was / was not given; else None."""
                    if isinstance(e, ast.Name) and param_origin(cfg, e, st) == pos:
                        return pol
                    if isinstance(e, ast.Compare) and len(e.ops) == 1 and isinstance(e.left, ast.Name) and param_origin(cfg, e.left, st) == pos \
                            and isinstance(e.comparators[0], ast.Constant) and e.comparators[0].value is None:
                        if isinstance(e.ops[0], (ast.IsNot, ast.NotEq)):
                            return pol
                        if isinstance(e.ops[0], (ast.Is, ast.Eq)):
                            return not pol
                    return None

                def cases(value, extra):
                    """[(value, components | None, extra facts)]: a conditional expression is one case per arm,
                    each under the facts of its test (``x = a() if pos else (l, c)``)."""
                    if isinstance(value, ast.IfExp):
                        return cases(value.body, extra + atoms(value.test, True)) + cases(value.orelse, extra + atoms(value.test, False))
                    if isinstance(tgt, ast.Tuple):
                        if isinstance(value, ast.Tuple) and i < len(value.elts):
                            return [(value.elts[i], pair_components(cfg, value.elts[i], st), extra)]
                        comps_ = []
                        for e, path, kind in leaves(cfg, value, st):
                            if kind == "expr" and isinstance(e, ast.Call) and not path:
                                comps_.append((e, i))
                            else:
                                comps_ = None
                                break
                        return [(value, comps_, extra)]
                    return [(value, pair_components(cfg, value, st), extra)]

                for val, comps, extra in cases(st.value, []):
                    conds = list(conditions_at(cfg, st)) + list(extra)
                    pos_true = any(marker_given(e, pol) is True for e, pol in conds)
                    pos_false = any(marker_given(e, pol) is False for e, pol in conds)
                    if comps:
                        good = all(
                            _is_method_call(c, "source_position") and not c.args and param_origin(cfg, c.func.value, cfg.stmt_of(c)) == pos and idx == want_idx[attr]
                            for c, idx in comps
                        )
                        what = ", ".join(f"{short(c, 50)}[{idx}]" for c, idx in comps)
                        chk.require(
                            good and pos_true, "R23a", st,
                            f"violation attribute '{attr}' is taken from {what}; it must be component {want_idx[attr]} of {pos}.source_position() (source space, line first) under the test that a marker was given",
                            detail=f"SQLBaseError.{attr} <- {pos}.source_position()[{want_idx[attr]}]",
                        )
                        if good and pos_true:
                            from_marker[attr] += 1
                    else:
                        po = param_origin(cfg, val, st) if isinstance(val, ast.Name) else None
                        chk.require(
                            po == attr and pos_false, "R23a", st,
                            f"violation attribute '{attr}' is set from {short(val, 60)}: explicit coordinates must be the '{attr}' parameter and only apply when no marker was given",
                            detail=f"SQLBaseError.{attr} <- explicit parameter when no marker",
                        )
    chk.count("R23a.error_position_stores", n_store)
    chk.floor("R23a.error_position_stores", 2)
    for attr, n in from_marker.items():
        chk.require(n >= 1, "R23a", f, f"SQLBaseError.__init__ never takes '{attr}' from the marker's source position", detail=f"SQLBaseError.{attr} has a marker-derived store")

    # ---- (2) source_position / templated_position -------------------------------------
    off_p, flag_p, _ = _converter_params(repo)
    for meth, slice_field, flag in (("source_position", "source_slice", True), ("templated_position", "templated_slice", False)):
        g = repo.fn(MARKERS, f"PositionMarker.{meth}")
        gcfg = cfg_of(g)
        rets = [r for r in walk_local(g) if isinstance(r, ast.Return)]
        chk.count(f"R23a.{meth}_returns", len(rets))
        chk.floor(f"R23a.{meth}_returns", 1)
        for r in rets:
            calls = []
            okshape = r.value is not None
            if okshape:
                for e, path, kind in leaves(gcfg, r.value, r):
                    if kind == "expr" and not path and _is_method_call(e, "get_line_pos_of_char_pos"):
                        calls.append(e)
                    else:
                        okshape = False
            chk.require(
                okshape and bool(calls), "R23a", r,
                f"PositionMarker.{meth} does not return the pair produced by the templated file's offset->line/column converter",
                detail=f"{meth} returns get_line_pos_of_char_pos(..)",
            )
            for c in calls:
                recv = attr_path(gcfg, c.func.value, gcfg.stmt_of(c))
                chk.require(
                    recv == [("self", "templated_file")], "R23a", c,
                    f"{meth}: the converter is not called on the marker's own templated file",
                    detail=f"{meth}: converter receiver is self.templated_file",
                )
                a0 = arg_of(c, 0, off_p)
                ap = attr_path(gcfg, a0, gcfg.stmt_of(c)) if a0 is not None else None
                chk.require(
                    ap == [("self", slice_field, "start")], "R23a", c,
                    f"{meth} converts {short(a0, 50) if a0 is not None else 'nothing'} (= {ap}); it must convert the START of self.{slice_field} "
                    f"(a violation is reported at the first character of the anchored code)",
                    detail=f"{meth} converts self.{slice_field}.start",
                )
                fv = _flag_value(repo, c)
                chk.require(
                    fv is flag, "R23a", c,
                    f"{meth} calls the converter with {flag_p}={fv!r}; the {slice_field} offset needs {flag_p}={flag}",
                    detail=f"{meth} passes {flag_p}={flag}",
                )
    # ---- (3) line_no / line_pos properties ---------------------------------------------
    for prop, idx in (("line_no", 0), ("line_pos", 1)):
        g = repo.fn(MARKERS, f"PositionMarker.{prop}")
        gcfg = cfg_of(g)
        rets = [r for r in walk_local(g) if isinstance(r, ast.Return) and r.value is not None]
        chk.count("R23a.marker_property_returns", len(rets))
        for r in rets:
            comps = pair_components(gcfg, r.value, r)
            good = bool(comps) and all(
                _is_method_call(c, "source_position") and attr_path(gcfg, c.func.value, gcfg.stmt_of(c)) == [("self",)] and i == idx for c, i in comps
            )
            chk.require(
                good, "R23a", r,
                f"PositionMarker.{prop} is not component {idx} of self.source_position()",
                detail=f"PositionMarker.{prop} = self.source_position()[{idx}]",
            )
    chk.floor("R23a.marker_property_returns", 2)

    # ---- (4) subclasses hand over the stored segment's marker ----------------------------
    em = repo.mod(ERRORS)
    base = repo.cls(ERRORS, "SQLBaseError")
    base_params = [a.arg for a in f.args.args][1:]
    n_sub = 0
    for q, c in em.classes():
        if c is base or not any(cc is base for _, cc in repo.mro(em, c)):
            continue
        init = next((i for i in c.body if isinstance(i, FuncNode) and i.name == "__init__"), None)
        if init is None:
            continue
        n_sub += 1
        icfg = cfg_of(init)
        supers = [x for x in calls_in(init) if isinstance(x.func, ast.Attribute) and x.func.attr == "__init__" and isinstance(x.func.value, ast.Call) and call_name(x.func.value) == "super"]
        chk.require(len(supers) == 1, "R23a", init, f"{c.name}.__init__ does not call the base constructor exactly once", detail=f"{c.name}.__init__ calls super().__init__ once")
        stored = set()
        for st in walk_local(init):
            if isinstance(st, ast.Assign):
                for t in st.targets:
                    if attr_chain(t) == ("self", "segment"):
                        po = param_origin(icfg, st.value, st)
                        if po:
                            stored.add(po)
        for sc in supers:
            pa = arg_of(sc, base_params.index(pos), pos)
            if pa is None:
                chk.fail("R23a", sc, f"{c.name}.__init__ passes no marker to the base constructor: the violation is reported at (0, 0)", detail=f"{c.name}: pos passed to base constructor")
                continue
            good = True
            srcs = set()
            for e, path, kind in leaves(icfg, pa, icfg.stmt_of(sc)):
                if kind == "expr" and isinstance(e, ast.Constant) and e.value is None:
                    continue
                ap = attr_path(icfg, e, icfg.stmt_of(sc)) if kind == "expr" and not path else None
                if ap and all(len(p) == 2 and p[1] == "pos_marker" for p in ap):
                    srcs |= {p[0] for p in ap}
                else:
                    good = False
            chk.require(
                good and bool(srcs) and srcs <= stored, "R23a", sc,
                f"{c.name}.__init__ passes {short(pa, 60)} as the marker; it must be the pos_marker of the segment parameter stored as self.segment ({sorted(stored) or 'none stored'})",
                detail=f"{c.name}: pos = <stored segment>.pos_marker",
            )
    chk.count("R23a.error_subclass_constructors", n_sub)
    chk.floor("R23a.error_subclass_constructors", 2)


# ---------------------------------------------------------------------------
def _split_key(k: str) -> Optional[Tuple[str, str]]:
    for suf in SCHEMA_SUFFIX:
        if k.endswith(suf):
            return k[: -len(suf)], suf
    return None


def _dict_entries(n) -> Optional[Dict[str, ast.expr]]:
    """{constant key: value} of a dict display or of ``dict(key=value, ..)``; None for anything else."""
    if isinstance(n, ast.Dict):
        return {k.value: v for k, v in zip(n.keys, n.values) if isinstance(k, ast.Constant) and isinstance(k.value, str)}
    if isinstance(n, ast.Call) and isinstance(n.func, ast.Name) and n.func.id == "dict" and not n.args and all(k.arg is not None for k in n.keywords):
        return {k.arg: k.value for k in n.keywords}
    return None


def _schema_keys(repo) -> Dict[str, Set[str]]:
    """prefix -> suffixes of the position dict literal (derived from the source, not frozen)."""
    g = repo.fn(TBASE, DICTFN)
    out: Dict[str, Set[str]] = {}
    for n in walk_local(g):
        for k in (_dict_entries(n) or {}):
            sp = _split_key(k)
            if sp:
                out.setdefault(sp[0], set()).add(sp[1])
    return out


def _key_values(cfg, key_expr, stmt) -> Optional[List[Tuple[object, str]]]:
    """Possible constant keys of a subscript: ``[(loop binding, key)]``.  Handles constants and
    a loop variable ranging over a literal list/tuple of constants (optionally with a constant
    prefix: ``"end_" + k`` / f"end_{k}")."""
    if isinstance(key_expr, ast.Constant) and isinstance(key_expr.value, str):
        return [(None, key_expr.value)]
    prefix, var = "", None
    if isinstance(key_expr, ast.Name):
        var = key_expr
    elif isinstance(key_expr, ast.BinOp) and isinstance(key_expr.op, ast.Add) and isinstance(key_expr.left, ast.Constant) and isinstance(key_expr.right, ast.Name):
        prefix, var = str(key_expr.left.value), key_expr.right
    elif isinstance(key_expr, ast.JoinedStr) and len(key_expr.values) == 2 and isinstance(key_expr.values[0], ast.Constant) and isinstance(key_expr.values[1], ast.FormattedValue) and isinstance(key_expr.values[1].value, ast.Name):
        prefix, var = str(key_expr.values[0].value), key_expr.values[1].value
    if var is None:
        return None
    os_ = origins(cfg, var, stmt)
    if len(os_) != 1 or os_[0].kind != "for" or os_[0].path:
        return None
    it = os_[0].expr
    if isinstance(it, ast.Name):
        its = origins(cfg, it, os_[0].stmt)
        if len(its) != 1 or its[0].kind != "expr":
            return None
        it = its[0].expr
    if not isinstance(it, (ast.List, ast.Tuple)) or not all(isinstance(x, ast.Constant) and isinstance(x.value, str) for x in it.elts):
        return None
    return [(x.value, prefix + x.value) for x in it.elts]


def _dict_copies(cfg, f):
    """Stores ``D1[k1] = D2[k2]`` with resolvable keys: (stmt, dst base, src base, [(k1, k2)])."""
    out = []
    for st in walk_local(f):
        if not (isinstance(st, ast.Assign) and len(st.targets) == 1):
            continue
        t, v = st.targets[0], st.value
        if not (isinstance(t, ast.Subscript) and isinstance(v, ast.Subscript) and isinstance(t.value, ast.Name) and isinstance(v.value, ast.Name)):
            continue
        k1 = _key_values(cfg, t.slice, st)
        k2 = _key_values(cfg, v.slice, st)
        if k1 is None or k2 is None:
            continue
        pairs = []
        if all(b is None for b, _ in k1) and all(b is None for b, _ in k2):
            pairs = [(a[1], b[1]) for a in k1 for b in k2]
        else:
            m2 = dict(k2)
            for b, k in k1:
                if b in m2:
                    pairs.append((k, m2[b]))
                elif None in m2:
                    pairs.append((k, m2[None]))
        out.append((st, t.value, v.value, pairs))
    return out


def _r23b(chk, repo) -> None:
    schema = _schema_keys(repo)
    if not schema or any(len(v) < 3 for v in schema.values()) or len(schema) < 2:
        raise AnalysisError(f"R23b: position dict schema not recognised in {DICTFN}: {schema}")
    off_p, flag_p, _ = _converter_params(repo)

    # ---- (1) source_position_dict_from_slice -----------------------------------------------
    g = repo.fn(TBASE, DICTFN)
    gcfg = cfg_of(g)
    gp = [a.arg for a in g.args.args]
    if len(gp) < 2:
        raise AnalysisError(f"{DICTFN} has no slice parameter")
    sl = gp[1]
    rets = [r for r in walk_local(g) if isinstance(r, ast.Return) and r.value is not None]
    chk.count("R23b.position_dict_returns", len(rets))
    chk.floor("R23b.position_dict_returns", 1)
    ends_used: Dict[str, str] = {}
    for r in rets:
        dicts = [e for e, path, kind in leaves(gcfg, r.value, r) if kind == "expr" and _dict_entries(e) is not None and not path]
        if len(dicts) != len(leaves(gcfg, r.value, r)):
            chk.fail("R23b", r, f"{DICTFN} does not return a dict display whose entries can be traced", detail="position dict is a dict display")
            continue
        for d in dicts:
            entries = _dict_entries(d)
            for prefix, sufs in sorted(schema.items()):
                fp = entries.get(prefix + "_file_pos")
                ln = entries.get(prefix + "_line_no")
                lp = entries.get(prefix + "_line_pos")
                if fp is None or ln is None or lp is None:
                    chk.fail("R23b", d, f"position dict lacks one of {prefix}_line_no/_line_pos/_file_pos: offsets and line/column cannot agree", detail=f"{prefix}_* entries complete")
                    continue
                st = gcfg.stmt_of(d)
                fpp = attr_path(gcfg, fp, st)
                ok_fp = bool(fpp) and len(fpp) == 1 and len(fpp[0]) == 2 and fpp[0][0] == sl
                end = fpp[0][1] if ok_fp else None
                chk.require(ok_fp, "R23b", fp, f"'{prefix}_file_pos' is {short(fp, 50)}, not an end of the slice parameter '{sl}'", detail=f"{prefix}_file_pos = {sl}.<end>")
                c_no = pair_components(gcfg, ln, st)
                c_pos = pair_components(gcfg, lp, st)
                same = bool(c_no) and bool(c_pos) and len(c_no) == 1 and len(c_pos) == 1 and c_no[0][0] is c_pos[0][0] and c_no[0][1] == 0 and c_pos[0][1] == 1
                chk.require(
                    same, "R23b", d,
                    f"'{prefix}_line_no' / '{prefix}_line_pos' are not components 0 / 1 of one converter call (got {short(ln, 40)} and {short(lp, 40)})",
                    detail=f"{prefix}_line_no/_line_pos = one converter call [0]/[1]",
                )
                if not (same and ok_fp):
                    continue
                call = c_no[0][0]
                is_conv = _is_method_call(call, "get_line_pos_of_char_pos") and attr_path(gcfg, call.func.value, gcfg.stmt_of(call)) == [("self",)]
                a0 = arg_of(call, 0, off_p) if isinstance(call, ast.Call) else None
                ap = attr_path(gcfg, a0, gcfg.stmt_of(call)) if a0 is not None else None
                chk.require(
                    is_conv and ap == [(sl, end)], "R23b", call,
                    f"the line/column of '{prefix}_*' convert {short(a0, 40) if a0 is not None else '?'} but '{prefix}_file_pos' reports {sl}.{end}: offset and line/column describe different points",
                    detail=f"{prefix}_*: converted offset is the reported offset",
                )
                chk.require(_flag_value(repo, call) is True, "R23b", call, f"the '{prefix}_*' entries are not converted in the source space ({flag_p}=True)", detail=f"{prefix}_*: converter in source space")
                ends_used[prefix] = end
    if ends_used:
        want = {"start": "start", "end": "stop"}
        for prefix, end in sorted(ends_used.items()):
            if prefix in want:
                chk.require(end == want[prefix], "R23b", g, f"the '{prefix}_*' entries describe the slice's .{end}", detail=f"{prefix}_* entries use slice.{want[prefix]}")

    # ---- (2) to_source_dict --------------------------------------------------------------------
    h = repo.fn(MARKERS, "PositionMarker.to_source_dict")
    hcfg = cfg_of(h)
    n = 0
    for r in [r for r in walk_local(h) if isinstance(r, ast.Return) and r.value is not None]:
        for e, path, kind in leaves(hcfg, r.value, r):
            n += 1
            good = kind == "expr" and not path and _is_method_call(e, g.name) and attr_path(hcfg, e.func.value, hcfg.stmt_of(e)) == [("self", "templated_file")]
            a0 = arg_of(e, 0, sl) if good else None
            chk.require(
                good and a0 is not None and attr_path(hcfg, a0, hcfg.stmt_of(e)) == [("self", "source_slice")], "R23b", r,
                "PositionMarker.to_source_dict does not serialise self.source_slice through the marker's own templated file",
                detail="to_source_dict = templated_file.source_position_dict_from_slice(self.source_slice)",
            )
    chk.count("R23b.to_source_dict_returns", n)
    chk.floor("R23b.to_source_dict_returns", 1)

    # ---- (3) LintFix.to_dict ---------------------------------------------------------------------
    td = repo.fn(FIXPY, "LintFix.to_dict")
    tcfg = cfg_of(td)
    groups: Dict[int, list] = {}
    for st, dst, src, pairs in _dict_copies(tcfg, td):
        od = [o for o in origins(tcfg, dst, st)]
        osrc = [o for o in origins(tcfg, src, st)]
        same_dict = len(od) == 1 and len(osrc) == 1 and od[0].expr is osrc[0].expr and od[0].kind == "expr" and _is_method_call(od[0].expr, "to_source_dict")
        if not same_dict:
            continue
        blk = id(getattr(st, "_parent", None)), tuple(id(x) for x in _enclosing_fors(st, td))
        # statements of one arm share the parent block (or the enclosing loop of a loop idiom)
        parent = getattr(st, "_parent", None)
        while isinstance(parent, (ast.For,)):
            parent = getattr(parent, "_parent", None)
        groups.setdefault((id(parent), _arm_of(st, parent)), []).append((st, pairs))
    chk.count("R23b.fix_dict_adjustment_arms", len(groups))
    for gk, items in groups.items():
        first = items[0][0]
        moved: Dict[Tuple[str, str], Set[str]] = {}
        for st, pairs in items:
            for k1, k2 in pairs:
                s1, s2 = _split_key(k1), _split_key(k2)
                if s1 is None or s2 is None:
                    chk.fail("R23b", st, f"position entry '{k1}' is overwritten from '{k2}', which is not a position entry", detail=f"adjustment {k1} <- {k2}")
                    continue
                chk.require(
                    s1[1] == s2[1] and s1[0] != s2[0], "R23b", st,
                    f"'{k1}' is overwritten with '{k2}': a {s1[1][1:]} entry receives a {s2[1][1:]} value",
                    detail=f"adjustment {k1} <- {k2} keeps the suffix",
                )
                moved.setdefault((s1[0], s2[0]), set()).add(s1[1])
        for (p1, p2), sufs in sorted(moved.items()):
            need = schema.get(p1, set())
            chk.require(
                sufs >= need, "R23b", first,
                f"the {p1}_* half of a fix's position is overwritten from {p2}_* only for {sorted(sufs)}; missing {sorted(need - sufs)}: the serialised offset no longer agrees with the line/column",
                detail=f"adjustment {p1}_* <- {p2}_* copies line, column and offset together",
            )
    # a source-only fix serialises the source fix's source slice
    n_sf = 0
    for c in calls_in(td):
        if _is_method_call(c, g.name):
            n_sf += 1
            a0 = arg_of(c, 0, sl)
            ch = attr_chain(a0) if a0 is not None else None
            if isinstance(a0, ast.Name):
                os_ = origins(tcfg, a0, tcfg.stmt_of(c))  # ``s = fix.source_slice`` kept in a local
                chains = {attr_chain(o.expr) if o.kind == "expr" and not o.path and isinstance(o.expr, ast.Attribute) else None for o in os_}
                ch = ("?", "source_slice") if chains and all(x is not None and x[-1] == "source_slice" for x in chains) else None
            chk.require(
                bool(ch) and ch[-1] == "source_slice", "R23b", c,
                f"LintFix.to_dict serialises {short(a0, 50) if a0 is not None else 'nothing'} as a source position; it must be a source_slice",
                detail="source-only fix position = source_fix.source_slice",
            )
    chk.count("R23b.fix_direct_dict_calls", n_sf)

    # ---- (4) error to_dict --------------------------------------------------------------------------
    ep = repo.fn(ERRORS, "_extract_position")
    ecfg = cfg_of(ep)
    eparam = ep.args.args[0].arg if ep.args.args else None
    rets = [r for r in walk_local(ep) if isinstance(r, ast.Return) and r.value is not None]
    n_e = 0
    for r in rets:
        for e, path, kind in leaves(ecfg, r.value, r):
            if isinstance(e, ast.Dict) and not e.keys:
                continue
            n_e += 1
            good = kind == "expr" and not path and _is_method_call(e, "to_source_dict")
            ap = attr_path(ecfg, e.func.value, ecfg.stmt_of(e)) if good else None
            chk.require(
                good and ap == [(eparam, "pos_marker")], "R23b", r,
                f"_extract_position returns {short(e, 60)}: the extra position entries must be <segment>.pos_marker.to_source_dict() of its own argument",
                detail="_extract_position = segment.pos_marker.to_source_dict()",
            )
    chk.count("R23b.extract_position_returns", n_e)
    chk.floor("R23b.extract_position_returns", 1)
    em = repo.mod(ERRORS)
    n_x = 0
    for q, fn in em.functions():
        for c in calls_in(fn):
            if isinstance(c.func, ast.Name) and c.func.id == ep.name:
                n_x += 1
                a0 = arg_of(c, 0, eparam) if eparam else (c.args[0] if c.args else None)
                chk.require(
                    a0 is not None and attr_chain(a0) == ("self", "segment"), "R23b", c,
                    f"{q} extracts the extra position entries from {short(a0, 50) if a0 is not None else 'nothing'}, not from self.segment (the segment whose marker gave line/column)",
                    detail=f"{q}: _extract_position(self.segment)",
                )
    chk.count("R23b.extract_position_calls", n_x)
    chk.floor("R23b.extract_position_calls", 2)
    # hoisting from a fix
    lt = repo.fn(ERRORS, "SQLLintError.to_dict")
    lcfg = cfg_of(lt)
    # copies of one arm (statements of the same block, or one loop over the keys) are judged together
    arms: Dict[tuple, list] = {}
    for st, dst, src, pairs in _dict_copies(lcfg, lt):
        chk.count("R23b.hoist_sites")
        parent = getattr(st, "_parent", None)
        while isinstance(parent, (ast.For,)):
            parent = getattr(parent, "_parent", None)
        arms.setdefault((id(parent), _arm_of(st, parent), norm(dst), norm(src)), []).append((st, pairs))
    for items in arms.values():
        first = items[0][0]
        guard_eq: Set[str] = set()
        for e, pol in conditions_at(lcfg, first):
            if pol and isinstance(e, ast.Compare) and len(e.ops) == 1 and isinstance(e.ops[0], ast.Eq):
                l, r_ = e.left, e.comparators[0]
                if isinstance(l, ast.Subscript) and isinstance(r_, ast.Subscript) and isinstance(l.slice, ast.Constant) and isinstance(r_.slice, ast.Constant) and l.slice.value == r_.slice.value:
                    guard_eq.add(l.slice.value)
        hoisted: Dict[str, Set[str]] = {}
        for st, pairs in items:
            for k1, k2 in pairs:
                chk.require(k1 == k2, "R23b", st, f"entry '{k1}' of the violation is filled from the fix's '{k2}'", detail=f"hoist {k1} <- {k2}")
                sp = _split_key(k1)
                if sp:
                    hoisted.setdefault(sp[0], set()).add(sp[1])
        for prefix, sufs in sorted(hoisted.items()):
            have = sufs | {sp[1] for k in guard_eq for sp in [_split_key(k)] if sp and sp[0] == prefix}
            need = schema.get(prefix, set())
            chk.require(
                have >= need, "R23b", first,
                f"only {sorted(sufs)} of the {prefix}_* entries are taken over from the fix (equal by guard: {sorted(have - sufs)}); missing {sorted(need - have)}: offset and line/column of the violation would come from different places",
                detail=f"hoist {prefix}_* entries together",
            )


def _key_class(key: str) -> Optional[str]:
    """LINE / COL / SRC for an output key, from its words (``start_line``, ``endColumn``, ``col``)."""
    import re

    toks = [t.lower() for t in re.findall(r"[A-Za-z][a-z]*", key)]
    if not toks:
        return None
    if "column" in toks or "col" in toks or toks[-2:] == ["line", "pos"]:
        return "COL"
    if toks[-2:] == ["file", "pos"] or "offset" in toks:
        return "SRC"
    if "line" in toks:
        return "LINE"
    return None


def _record_read(e) -> Optional[Tuple[str, Optional[ast.expr]]]:
    """(record key, fallback) when ``e`` is ``rec["<pos key>"]`` or ``rec.get("<pos key>"[, fallback])``."""
    if isinstance(e, ast.Subscript) and isinstance(e.slice, ast.Constant) and isinstance(e.slice.value, str) and _split_key(e.slice.value):
        return e.slice.value, None
    if isinstance(e, ast.Call) and isinstance(e.func, ast.Attribute) and e.func.attr == "get" and e.args and isinstance(e.args[0], ast.Constant) and isinstance(e.args[0].value, str) and _split_key(e.args[0].value):
        return e.args[0].value, (e.args[1] if len(e.args) > 1 else None)
    return None


def _r23c(chk, repo) -> None:
    import re

    cmds = repo.mod("src/sqlfluff/cli/commands.py")
    n = 0

    def pair(node, target_key: str, value, where: str) -> None:
        nonlocal n
        rr = _record_read(value)
        tc = _key_class(target_key)
        if rr is None or tc is None:
            return
        n += 1
        sc = SCHEMA_SUFFIX[_split_key(rr[0])[1]]
        chk.require(
            sc == tc, "R23c", node,
            f"{where}: output key '{target_key}' (a {tc.lower()}) is filled from record entry '{rr[0]}' (a {sc.lower()})",
            detail=f"{where}: {target_key} <- {_split_key(rr[0])[1][1:]} entry",
        )
        if rr[1] is not None:
            fb = _record_read(rr[1])
            if fb is not None:
                fc = SCHEMA_SUFFIX[_split_key(fb[0])[1]]
                chk.require(
                    fc == sc, "R23c", node,
                    f"{where}: '{rr[0]}' falls back to '{fb[0]}', which is a {fc.lower()} not a {sc.lower()}",
                    detail=f"{where}: fallback of {rr[0]} has the same class",
                )

    for q, f in cmds.functions():
        if not any(isinstance(x, ast.Constant) and isinstance(x.value, str) and _split_key(x.value) for x in ast.walk(f)):
            continue
        for node in walk_local(f):
            if isinstance(node, ast.Dict):
                for k, v in zip(node.keys, node.values):
                    if isinstance(k, ast.Constant) and isinstance(k.value, str):
                        pair(v, k.value, v, q)
            elif isinstance(node, ast.Assign) and len(node.targets) == 1 and isinstance(node.targets[0], ast.Subscript) and isinstance(node.targets[0].slice, ast.Constant) and isinstance(node.targets[0].slice.value, str):
                pair(node, node.targets[0].slice.value, node.value, q)
            elif isinstance(node, ast.JoinedStr):
                prev = ""
                for part in node.values:
                    if isinstance(part, ast.Constant) and isinstance(part.value, str):
                        prev = part.value
                    elif isinstance(part, ast.FormattedValue):
                        m = re.search(r"([A-Za-z_]+)=$", prev)
                        if m:
                            pair(part, m.group(1), part.value, q)
                        prev = ""
    chk.count("R23c.writer_position_fields", n)
    chk.floor("R23c.writer_position_fields", 8)


def _enclosing_fors(node, stop):
    out = []
    p = getattr(node, "_parent", None)
    while p is not None and p is not stop:
        if isinstance(p, ast.For):
            out.append(p)
        p = getattr(p, "_parent", None)
    return out


def _arm_of(st, parent) -> str:
    """Which statement list of ``parent`` holds ``st`` (body / orelse ...)."""
    top = st
    while getattr(top, "_parent", None) is not parent and getattr(top, "_parent", None) is not None:
        top = top._parent
    for field in ("body", "orelse", "finalbody"):
        if top in getattr(parent, field, []) if isinstance(getattr(parent, field, None), list) else False:
            return field
    return "?"


from ..selftest import Variant  # noqa: E402

PATCHPY = "src/sqlfluff/core/linter/patch.py"
LEXER = "src/sqlfluff/core/parser/lexer.py"
LFILE = "src/sqlfluff/core/linter/linted_file.py"

VARIANTS = [
    Variant(
        "stashed-start-kept-by-truthiness", "src/sqlfluff/core/parser/lexer.py",
        "                        if stashed_source_idx is None:\n                            stashed_source_idx = tfs.source_slice.start\n",
        "                        if not stashed_source_idx:\n                            stashed_source_idx = tfs.source_slice.start\n",
        "R23g", "_iter_segments", "seeded C23-7 (same effect): a first token that starts at offset 0 is re-anchored at the tag",
    ),
    Variant(
        "annotation-end-column-falls-back-to-the-line", "src/sqlfluff/cli/commands.py",
        '                            "end_line_pos", violation["start_line_pos"]\n',
        '                            "end_line_pos", violation["start_line_no"]\n',
        "R23f", "lint", "seeded C23-5 (same effect): a templating error gets an annotation that ends before it starts",
    ),
    # ---- behaviour-preserving edits: must stay quiet ---------------------------------------
    Variant(
        "quiet-source-position-through-locals", MARKERS,
        "        return self.templated_file.get_line_pos_of_char_pos(\n            self.source_slice.start, source=True\n        )\n",
        "        src = self.source_slice\n        tf = self.templated_file\n        first_char = src.start\n        pair = tf.get_line_pos_of_char_pos(first_char, source=True)\n        return pair\n",
        "QUIET", None, "receiver, slice and offset passed through locals",
    ),
    Variant(
        "quiet-error-init-early-else", ERRORS,
        "        if pos:\n            self.line_no, self.line_pos = pos.source_position()\n        else:\n            self.line_no = line_no\n            self.line_pos = line_pos\n",
        "        if not pos:\n            self.line_no = line_no\n            self.line_pos = line_pos\n        else:\n            where = pos.source_position()\n            self.line_no = where[0]\n            self.line_pos = where[1]\n",
        "QUIET", None, "branches swapped, pair indexed instead of unpacked",
    ),
    Variant(
        "quiet-position-dict-unpacked", TBASE,
        "        start = self.get_line_pos_of_char_pos(source_slice.start, source=True)\n        stop = self.get_line_pos_of_char_pos(source_slice.stop, source=True)\n        return {\n            \"start_line_no\": start[0],\n            \"start_line_pos\": start[1],\n",
        "        begin = source_slice.start\n        start_line, start_col = self.get_line_pos_of_char_pos(begin, source=True)\n        stop = self.get_line_pos_of_char_pos(source_slice.stop, True)\n        return {\n            \"start_line_no\": start_line,\n            \"start_line_pos\": start_col,\n",
        "QUIET", None, "pair unpacked, offset through a local, flag passed positionally",
    ),
    Variant(
        "quiet-fix-dict-adjustment-loop", FIXPY,
        "            _src_loc[\"end_line_no\"] = _src_loc[\"start_line_no\"]\n            _src_loc[\"end_line_pos\"] = _src_loc[\"start_line_pos\"]\n            _src_loc[\"end_file_pos\"] = _src_loc[\"start_file_pos\"]\n",
        "            for _k in (\"_line_no\", \"_line_pos\", \"_file_pos\"):\n                _src_loc[\"end\" + _k] = _src_loc[\"start\" + _k]\n",
        "QUIET", None, "three stores written as a loop over the suffixes",
    ),
    Variant(
        "quiet-patch-slices-through-locals", PATCHPY,
        "        yield FixPatch(\n            source_slice=segment.pos_marker.source_slice,\n            templated_slice=segment.pos_marker.templated_slice,\n            patch_category=\"literal\",\n",
        "        _marker = segment.pos_marker\n        _s, _t = _marker.source_slice, _marker.templated_slice\n        yield FixPatch(\n            templated_slice=_t,\n            source_slice=_s,\n            patch_category=\"literal\",\n",
        "QUIET", None, "fields through tuple-unpacked locals, keyword order changed",
    ),
    Variant(
        "quiet-source-start-accessor-extracted", MARKERS,
        "    def source_position(self) -> tuple[int, int]:\n        \"\"\"Return the line and position of this marker in the source.\"\"\"\n        return self.templated_file.get_line_pos_of_char_pos(\n            self.source_slice.start, source=True\n        )\n",
        "    def _source_start(self) -> int:\n        return self.source_slice.start\n\n    def source_position(self) -> tuple[int, int]:\n        \"\"\"Return the line and position of this marker in the source.\"\"\"\n        return self.templated_file.get_line_pos_of_char_pos(\n            self._source_start(), source=True\n        )\n",
        "QUIET", None, "offset obtained through an extracted accessor",
    ),
    Variant(
        "quiet-lexer-offset-renamed-and-split", LEXER,
        "                tfs_offset = tfs.source_slice.start - tfs.templated_slice.start\n",
        "                _src0 = tfs.source_slice.start\n                _tpl0 = tfs.templated_slice.start\n                tfs_offset = _src0 - _tpl0\n",
        "QUIET", None, "translation delta computed through two temporaries",
    ),
    Variant(
        "quiet-end-point-patch-helper-extracted", PATCHPY,
        "            yield FixPatch(\n                source_slice=source_slice,\n                templated_slice=templated_slice,\n                patch_category=\"end_point\",\n                fixed_raw=insert_buff,\n                templated_str=templated_file.templated_str[templated_slice],\n                source_str=templated_file.source_str[source_slice],\n            )\n",
        "            yield _end_point_patch(source_slice, templated_slice, insert_buff, templated_file)\n\n\ndef _end_point_patch(src: slice, tpl: slice, raw: str, tf: TemplatedFile) -> FixPatch:\n    return FixPatch(\n        source_slice=src,\n        templated_slice=tpl,\n        patch_category=\"end_point\",\n        fixed_raw=raw,\n        templated_str=tf.templated_str[tpl],\n        source_str=tf.source_str[src],\n    )\n",
        "QUIET", None, "patch construction extracted into a helper function",
    ),
    # behaviour-preserving refactors: must stay quiet
    Variant(
        "quiet-err-init-pair-local-unpack", ERRORS,
        '            self.line_no, self.line_pos = pos.source_position()\n',
        '            line, col = pos.source_position()\n            self.line_no = line\n            self.line_pos = col\n',
        "QUIET", None, 'pair unpacked into locals first',
    ),
    Variant(
        "quiet-err-init-is-not-none", ERRORS,
        '        if pos:\n            self.line_no, self.line_pos = pos.source_position()\n',
        '        if pos is not None:\n            self.line_no, self.line_pos = pos.source_position()\n',
        "QUIET", None, 'identity test instead of truthiness of the marker',
    ),
    Variant(
        "quiet-err-init-tuple-explicit", ERRORS,
        '            self.line_no = line_no\n            self.line_pos = line_pos\n',
        '            self.line_no, self.line_pos = line_no, line_pos\n',
        "QUIET", None, 'explicit coordinates stored by one tuple assignment',
    ),
    Variant(
        "quiet-err-init-ifexp", ERRORS,
        '        if pos:\n            self.line_no, self.line_pos = pos.source_position()\n        else:\n            self.line_no = line_no\n            self.line_pos = line_pos\n',
        '        self.line_no, self.line_pos = pos.source_position() if pos else (line_no, line_pos)\n',
        "QUIET", None, 'if/else as one conditional expression',
    ),
    Variant(
        "quiet-err-init-default-then-override", ERRORS,
        '        if pos:\n            self.line_no, self.line_pos = pos.source_position()\n        else:\n            self.line_no = line_no\n            self.line_pos = line_pos\n',
        '        if not pos:\n            self.line_no = line_no\n            self.line_pos = line_pos\n            super().__init__(self.desc())\n            return\n        self.line_no, self.line_pos = pos.source_position()\n',
        "QUIET", None, 'no-marker case handled first with an early return',
    ),
    Variant(
        "quiet-marker-prop-unpack", MARKERS,
        '        return self.source_position()[0]\n',
        '        line, _ = self.source_position()\n        return line\n',
        "QUIET", None, 'component by unpacking',
    ),
    Variant(
        "quiet-marker-srcpos-positional-flag", MARKERS,
        '            self.source_slice.start, source=True\n',
        '            self.source_slice.start, True\n',
        "QUIET", None, 'flag passed positionally',
    ),
    Variant(
        "quiet-marker-srcpos-keyword-offset", MARKERS,
        '        return self.templated_file.get_line_pos_of_char_pos(\n            self.source_slice.start, source=True\n        )\n',
        '        return self.templated_file.get_line_pos_of_char_pos(\n            char_pos=self.source_slice.start, source=True\n        )\n',
        "QUIET", None, 'offset passed by keyword',
    ),
    Variant(
        "quiet-tplpos-default-flag", MARKERS,
        '            self.templated_slice.start, source=False\n',
        '            self.templated_slice.start, False\n',
        "QUIET", None, 'flag passed positionally',
    ),
    Variant(
        "quiet-dict-built-incrementally", TBASE,
        '        return {\n            "start_line_no": start[0],\n            "start_line_pos": start[1],\n            "start_file_pos": source_slice.start,\n            "end_line_no": stop[0],\n            "end_line_pos": stop[1],\n            "end_file_pos": source_slice.stop,\n        }\n',
        '        position = {\n            "start_line_no": start[0],\n            "start_line_pos": start[1],\n            "start_file_pos": source_slice.start,\n            "end_line_no": stop[0],\n            "end_line_pos": stop[1],\n            "end_file_pos": source_slice.stop,\n        }\n        return position\n',
        "QUIET", None, 'dict through a local',
    ),
    Variant(
        "quiet-dict-dict-call", TBASE,
        '        return {\n            "start_line_no": start[0],\n            "start_line_pos": start[1],\n            "start_file_pos": source_slice.start,\n            "end_line_no": stop[0],\n            "end_line_pos": stop[1],\n            "end_file_pos": source_slice.stop,\n        }\n',
        '        return dict(\n            start_line_no=start[0],\n            start_line_pos=start[1],\n            start_file_pos=source_slice.start,\n            end_line_no=stop[0],\n            end_line_pos=stop[1],\n            end_file_pos=source_slice.stop,\n        )\n',
        "QUIET", None, 'dict(...) call instead of a display',
    ),
    Variant(
        "quiet-to-source-dict-locals", MARKERS,
        '        return self.templated_file.source_position_dict_from_slice(self.source_slice)\n',
        '        tf = self.templated_file\n        return tf.source_position_dict_from_slice(source_slice=self.source_slice)\n',
        "QUIET", None, 'receiver through a local, keyword argument',
    ),
    Variant(
        "quiet-fix-adjust-update", FIXPY,
        '            _src_loc["end_line_no"] = _src_loc["start_line_no"]\n            _src_loc["end_line_pos"] = _src_loc["start_line_pos"]\n            _src_loc["end_file_pos"] = _src_loc["start_file_pos"]\n',
        '            _src_loc.update(\n                end_line_no=_src_loc["start_line_no"],\n                end_line_pos=_src_loc["start_line_pos"],\n                end_file_pos=_src_loc["start_file_pos"],\n            )\n',
        "QUIET", None, 'three stores as one update()',
    ),
    Variant(
        "quiet-fix-adjust-reordered", FIXPY,
        '            _src_loc["end_line_no"] = _src_loc["start_line_no"]\n            _src_loc["end_line_pos"] = _src_loc["start_line_pos"]\n            _src_loc["end_file_pos"] = _src_loc["start_file_pos"]\n',
        '            _src_loc["end_file_pos"] = _src_loc["start_file_pos"]\n            _src_loc["end_line_pos"] = _src_loc["start_line_pos"]\n            _src_loc["end_line_no"] = _src_loc["start_line_no"]\n',
        "QUIET", None, 'stores reordered',
    ),
    Variant(
        "quiet-fix-adjust-separate-ifs", FIXPY,
        '        elif self.edit_type == "create_after":\n            # If we\'re creating _after_',
        '        if self.edit_type == "create_after":\n            # If we\'re creating _after_',
        "QUIET", None, 'elif as a second if',
    ),
    Variant(
        "quiet-fix-source-slice-local", FIXPY,
        '                **_position.templated_file.source_position_dict_from_slice(\n                    _source_fix.source_slice\n                ),\n',
        '                **_position.templated_file.source_position_dict_from_slice(\n                    source_slice=_source_fix.source_slice\n                ),\n',
        "QUIET", None, 'keyword argument',
    ),
    Variant(
        "quiet-extract-position-inline", ERRORS,
        '        position = segment.pos_marker\n        assert position\n        if position.is_literal():\n            return position.to_source_dict()\n',
        '        assert segment.pos_marker\n        if segment.pos_marker.is_literal():\n            return segment.pos_marker.to_source_dict()\n',
        "QUIET", None, 'marker local inlined',
    ),
    Variant(
        "quiet-extract-call-local", ERRORS,
        '            fixes=[fix.to_dict() for fix in self.fixes],\n            **_extract_position(self.segment),\n',
        '            fixes=[fix.to_dict() for fix in self.fixes],\n            **_extract_position(segment=self.segment),\n',
        "QUIET", None, 'keyword argument',
    ),
    Variant(
        "quiet-hoist-tuple-keys", ERRORS,
        '                for key in [\n                    "start_file_pos",\n                    "end_line_no",\n                    "end_line_pos",\n                    "end_file_pos",\n                ]:\n                    _base_dict[key] = _fix[key]\n',
        '                for key in ("start_file_pos", "end_line_no", "end_line_pos", "end_file_pos"):\n                    _base_dict[key] = _fix[key]\n',
        "QUIET", None, 'key list as a tuple',
    ),
    Variant(
        "quiet-hoist-unrolled", ERRORS,
        '                for key in [\n                    "start_file_pos",\n                    "end_line_no",\n                    "end_line_pos",\n                    "end_file_pos",\n                ]:\n                    _base_dict[key] = _fix[key]\n',
        '                _base_dict["start_file_pos"] = _fix["start_file_pos"]\n                _base_dict["end_line_no"] = _fix["end_line_no"]\n                _base_dict["end_line_pos"] = _fix["end_line_pos"]\n                _base_dict["end_file_pos"] = _fix["end_file_pos"]\n',
        "QUIET", None, 'loop over the keys unrolled',
    ),
    Variant(
        "quiet-hoist-keys-local", ERRORS,
        '                for key in [\n                    "start_file_pos",\n                    "end_line_no",\n                    "end_line_pos",\n                    "end_file_pos",\n                ]:\n                    _base_dict[key] = _fix[key]\n',
        '                optional_keys = ["start_file_pos", "end_line_no", "end_line_pos", "end_file_pos"]\n                _base_dict.update({key: _fix[key] for key in optional_keys})\n',
        "QUIET", None, 'keys in a local, update() with a comprehension',
    ),
    Variant(
        "quiet-hoist-guard-nested", ERRORS,
        '            if (\n                _fix["start_line_no"] == _base_dict["start_line_no"]\n                and _fix["start_line_pos"] == _base_dict["start_line_pos"]\n            ):\n',
        '            same_line = _fix["start_line_no"] == _base_dict["start_line_no"]\n            same_col = _fix["start_line_pos"] == _base_dict["start_line_pos"]\n            if same_line and same_col:\n',
        "QUIET", None, 'guard operands through boolean locals',
    ),
    Variant(
        "quiet-lint-error-marker-local", ERRORS,
        '        self.fixes = fixes or []\n        super().__init__(\n            description=description,\n            pos=segment.pos_marker if segment else None,\n',
        '        self.fixes = fixes or []\n        marker = segment.pos_marker if segment else None\n        super().__init__(\n            description=description,\n            pos=marker,\n',
        "QUIET", None, 'marker through a local',
    ),
    Variant(
        "quiet-sarif-local", "src/sqlfluff/cli/commands.py",
        '                    region["endColumn"] = violation["end_line_pos"]\n',
        '                    end_col = violation["end_line_pos"]\n                    region["endColumn"] = end_col\n',
        "QUIET", None, 'value through a local',
    ),
    Variant(
        "quiet-native-line-local", "src/sqlfluff/cli/commands.py",
        '                line += f"line={violation[\'start_line_no\']},"\n                line += f"col={violation[\'start_line_pos\']}"\n',
        '                start_line, start_col = violation[\'start_line_no\'], violation[\'start_line_pos\']\n                line += f"line={start_line},col={start_col}"\n',
        "QUIET", None, 'values through locals, one f-string',
    ),
    Variant(
        "quiet-dict-offsets-locals", TBASE,
        '        start = self.get_line_pos_of_char_pos(source_slice.start, source=True)\n        stop = self.get_line_pos_of_char_pos(source_slice.stop, source=True)\n        return {\n            "start_line_no": start[0],\n            "start_line_pos": start[1],\n            "start_file_pos": source_slice.start,\n            "end_line_no": stop[0],\n            "end_line_pos": stop[1],\n            "end_file_pos": source_slice.stop,\n        }\n',
        '        first, last = source_slice.start, source_slice.stop\n        start = self.get_line_pos_of_char_pos(first, source=True)\n        stop = self.get_line_pos_of_char_pos(last, source=True)\n        return {\n            "start_line_no": start[0],\n            "start_line_pos": start[1],\n            "start_file_pos": first,\n            "end_line_no": stop[0],\n            "end_line_pos": stop[1],\n            "end_file_pos": last,\n        }\n',
        "QUIET", None, "both ends of the slice read once into locals",
    ),
    Variant(
        "quiet-fix-source-slice-local2", FIXPY,
        '            _source_fix = self.edit[0].source_fixes[0]\n            return {\n                "type": self.edit_type,\n                "edit": _source_fix.edit,\n                **_position.templated_file.source_position_dict_from_slice(\n                    _source_fix.source_slice\n                ),\n',
        '            _source_fix = self.edit[0].source_fixes[0]\n            _fix_slice = _source_fix.source_slice\n            return {\n                "type": self.edit_type,\n                "edit": _source_fix.edit,\n                **_position.templated_file.source_position_dict_from_slice(\n                    _fix_slice\n                ),\n',
        "QUIET", None, "the source fix's slice through a local",
    ),
    # ---- breaking twins of the quiet spellings above ---------------------------------------------
    Variant(
        "explicit-coordinates-override-marker-identity-spelling", ERRORS,
        "        if pos:\n            self.line_no, self.line_pos = pos.source_position()\n        else:\n",
        "        if pos is not None and not line_no:\n            self.line_no, self.line_pos = pos.source_position()\n        else:\n",
        "R23a", "SQLBaseError.__init__", "twin of quiet-err-init-is-not-none",
    ),
    Variant(
        "error-init-conditional-expression-prefers-explicit", ERRORS,
        "        if pos:\n            self.line_no, self.line_pos = pos.source_position()\n        else:\n            self.line_no = line_no\n            self.line_pos = line_pos\n",
        "        self.line_no, self.line_pos = pos.source_position() if pos and not line_no else (line_no, line_pos)\n",
        "R23a", "SQLBaseError.__init__", "twin of quiet-err-init-ifexp",
    ),
    Variant(
        "error-init-conditional-expression-arms-swapped", ERRORS,
        "        if pos:\n            self.line_no, self.line_pos = pos.source_position()\n        else:\n            self.line_no = line_no\n            self.line_pos = line_pos\n",
        "        self.line_no, self.line_pos = pos.templated_position() if pos else (line_no, line_pos)\n",
        "R23a", "SQLBaseError.__init__", "twin of quiet-err-init-ifexp: rendered position",
    ),
    Variant(
        "position-dict-call-end-offset-from-start", TBASE,
        "        return {\n            \"start_line_no\": start[0],\n            \"start_line_pos\": start[1],\n            \"start_file_pos\": source_slice.start,\n            \"end_line_no\": stop[0],\n            \"end_line_pos\": stop[1],\n            \"end_file_pos\": source_slice.stop,\n        }\n",
        "        return dict(\n            start_line_no=start[0],\n            start_line_pos=start[1],\n            start_file_pos=source_slice.start,\n            end_line_no=stop[0],\n            end_line_pos=stop[1],\n            end_file_pos=source_slice.start,\n        )\n",
        "R23b", "source_position_dict_from_slice", "twin of quiet-dict-dict-call",
    ),
    Variant(
        "source-only-fix-local-holds-templated-slice", FIXPY,
        '            _source_fix = self.edit[0].source_fixes[0]\n            return {\n                "type": self.edit_type,\n                "edit": _source_fix.edit,\n                **_position.templated_file.source_position_dict_from_slice(\n                    _source_fix.source_slice\n                ),\n',
        '            _source_fix = self.edit[0].source_fixes[0]\n            _fix_slice = _source_fix.templated_slice\n            return {\n                "type": self.edit_type,\n                "edit": _source_fix.edit,\n                **_position.templated_file.source_position_dict_from_slice(\n                    _fix_slice\n                ),\n',
        "R23b", "LintFix.to_dict", "twin of quiet-fix-source-slice-local2",
    ),
    Variant(
        "lint-error-extra-position-keyword-from-fix-anchor", ERRORS,
        "            fixes=[fix.to_dict() for fix in self.fixes],\n            **_extract_position(self.segment),\n",
        "            fixes=[fix.to_dict() for fix in self.fixes],\n            **_extract_position(segment=self.fixes[0].anchor if self.fixes else self.segment),\n",
        "R23b", "SQLLintError.to_dict", "twin of quiet-extract-call-local",
    ),
    Variant(
        "hoist-unrolled-without-end-offset", ERRORS,
        "                for key in [\n                    \"start_file_pos\",\n                    \"end_line_no\",\n                    \"end_line_pos\",\n                    \"end_file_pos\",\n                ]:\n                    _base_dict[key] = _fix[key]\n",
        "                _base_dict[\"start_file_pos\"] = _fix[\"start_file_pos\"]\n                _base_dict[\"end_line_no\"] = _fix[\"end_line_no\"]\n                _base_dict[\"end_line_pos\"] = _fix[\"end_line_pos\"]\n",
        "R23b", "SQLLintError.to_dict", "twin of quiet-hoist-unrolled",
    ),
    Variant(
        "hoist-guard-local-compares-column-with-line", ERRORS,
        "            if (\n                _fix[\"start_line_no\"] == _base_dict[\"start_line_no\"]\n                and _fix[\"start_line_pos\"] == _base_dict[\"start_line_pos\"]\n            ):\n",
        "            same_line = _fix[\"start_line_no\"] == _base_dict[\"start_line_no\"]\n            same_col = _fix[\"start_line_pos\"] == _base_dict[\"start_line_no\"]\n            if same_line and same_col:\n",
        "R23b", "SQLLintError.to_dict", "twin of quiet-hoist-guard-nested",
    ),
    # ---- breaking edits -------------------------------------------------------------------------
    Variant(
        "source-position-from-templated-slice", MARKERS,
        "            self.source_slice.start, source=True\n",
        "            self.templated_slice.start, source=True\n",
        "RQ-space", "PositionMarker.source_position", "rendered offset looked up in the source newline table",
    ),
    Variant(
        "source-position-at-slice-stop", MARKERS,
        "            self.source_slice.start, source=True\n",
        "            self.source_slice.stop, source=True\n",
        "R23a", "PositionMarker.source_position", "violations reported at the end of the anchored code",
    ),
    Variant(
        "source-position-in-templated-table", MARKERS,
        "            self.source_slice.start, source=True\n",
        "            self.source_slice.start, source=False\n",
        "R23a", "PositionMarker.source_position",
    ),
    Variant(
        "error-position-from-templated-position", ERRORS,
        "            self.line_no, self.line_pos = pos.source_position()\n",
        "            self.line_no, self.line_pos = pos.templated_position()\n",
        "R23a", "SQLBaseError.__init__",
    ),
    Variant(
        "error-line-and-column-swapped", ERRORS,
        "            self.line_no, self.line_pos = pos.source_position()\n",
        "            self.line_pos, self.line_no = pos.source_position()\n",
        "R23a", "SQLBaseError.__init__",
    ),
    Variant(
        "explicit-coordinates-override-marker", ERRORS,
        "        if pos:\n            self.line_no, self.line_pos = pos.source_position()\n        else:\n",
        "        if pos and not line_no:\n            self.line_no, self.line_pos = pos.source_position()\n        else:\n",
        "R23a", "SQLBaseError.__init__", "explicit coordinates win over the marker",
    ),
    Variant(
        "lint-error-position-from-first-fix-anchor", ERRORS,
        "        self.fixes = fixes or []\n        super().__init__(\n            description=description,\n            pos=segment.pos_marker if segment else None,\n",
        "        self.fixes = fixes or []\n        super().__init__(\n            description=description,\n            pos=self.fixes[0].anchor.pos_marker if self.fixes else segment.pos_marker,\n",
        "R23a", "SQLLintError.__init__", "line/col from the fix anchor, offsets from the segment",
    ),
    Variant(
        "marker-line-pos-property-from-templated", MARKERS,
        "        return self.source_position()[1]\n",
        "        return self.templated_position()[1]\n",
        "R23a", "PositionMarker.line_pos",
    ),
    Variant(
        "position-dict-end-offset-from-start", TBASE,
        "            \"end_file_pos\": source_slice.stop,\n",
        "            \"end_file_pos\": source_slice.start,\n",
        "R23b", "source_position_dict_from_slice",
    ),
    Variant(
        "position-dict-line-column-swapped", TBASE,
        "            \"end_line_no\": stop[0],\n            \"end_line_pos\": stop[1],\n",
        "            \"end_line_no\": stop[1],\n            \"end_line_pos\": stop[0],\n",
        "R23b", "source_position_dict_from_slice",
    ),
    Variant(
        "position-dict-stop-in-templated-space", TBASE,
        "        stop = self.get_line_pos_of_char_pos(source_slice.stop, source=True)\n",
        "        stop = self.get_line_pos_of_char_pos(source_slice.stop, source=False)\n",
        "R23b", "source_position_dict_from_slice",
    ),
    Variant(
        "to-source-dict-serialises-templated-slice", MARKERS,
        "        return self.templated_file.source_position_dict_from_slice(self.source_slice)\n",
        "        return self.templated_file.source_position_dict_from_slice(self.templated_slice)\n",
        "R23b", "PositionMarker.to_source_dict",
    ),
    Variant(
        "create-before-forgets-offset", FIXPY,
        "            _src_loc[\"end_line_pos\"] = _src_loc[\"start_line_pos\"]\n            _src_loc[\"end_file_pos\"] = _src_loc[\"start_file_pos\"]\n",
        "            _src_loc[\"end_line_pos\"] = _src_loc[\"start_line_pos\"]\n",
        "R23b", "LintFix.to_dict", "end offset stays at the anchor's end while line/col moved to its start",
    ),
    Variant(
        "create-after-copies-column-into-line", FIXPY,
        "            _src_loc[\"start_line_no\"] = _src_loc[\"end_line_no\"]\n",
        "            _src_loc[\"start_line_no\"] = _src_loc[\"end_line_pos\"]\n",
        "R23b", "LintFix.to_dict",
    ),
    Variant(
        "source-only-fix-serialises-templated-slice", FIXPY,
        "                **_position.templated_file.source_position_dict_from_slice(\n                    _source_fix.source_slice\n                ),\n",
        "                **_position.templated_file.source_position_dict_from_slice(\n                    _source_fix.templated_slice\n                ),\n",
        "R23b", "LintFix.to_dict",
    ),
    Variant(
        "lint-error-extra-position-from-fix-anchor", ERRORS,
        "            fixes=[fix.to_dict() for fix in self.fixes],\n            **_extract_position(self.segment),\n",
        "            fixes=[fix.to_dict() for fix in self.fixes],\n            **_extract_position(self.fixes[0].anchor if self.fixes else self.segment),\n",
        "R23b", "SQLLintError.to_dict",
    ),
    Variant(
        "hoist-end-line-without-offset", ERRORS,
        "                    \"end_line_pos\",\n                    \"end_file_pos\",\n                ]:\n",
        "                    \"end_line_pos\",\n                ]:\n",
        "R23b", "SQLLintError.to_dict",
    ),
    Variant(
        "sarif-end-column-from-line", "src/sqlfluff/cli/commands.py",
        "                    region[\"endColumn\"] = violation[\"end_line_pos\"]\n",
        "                    region[\"endColumn\"] = violation[\"end_line_no\"]\n",
        "R23c", "lint",
    ),
    Variant(
        "github-annotation-end-line-falls-back-to-column", "src/sqlfluff/cli/commands.py",
        "                            \"end_line_no\", violation[\"start_line_no\"]\n",
        "                            \"end_line_no\", violation[\"start_line_pos\"]\n",
        "R23c", "lint",
    ),
    Variant(
        "native-annotation-col-from-line", "src/sqlfluff/cli/commands.py",
        "                line += f\"col={violation['start_line_pos']}\"\n",
        "                line += f\"col={violation['start_line_no']}\"\n",
        "R23c", "lint",
    ),
    Variant(
        "patch-source-text-cut-with-templated-slice", PATCHPY,
        "            source_str=templated_file.source_str[source_fix.source_slice],\n",
        "            source_str=templated_file.source_str[source_fix.templated_slice],\n",
        "RQ-space", "_iter_source_fix_patches",
    ),
    Variant(
        "lexer-marker-fields-swapped", LEXER,
        "                                slice(\n                                    slice_start,\n                                    # The end in the source is the end of the templated\n                                    # slice. We can't subdivide any better.\n                                    tfs.source_slice.stop,\n                                ),\n                                element.template_slice,\n",
        "                                element.template_slice,\n                                slice(\n                                    slice_start,\n                                    # The end in the source is the end of the templated\n                                    # slice. We can't subdivide any better.\n                                    tfs.source_slice.stop,\n                                ),\n",
        "RQ-space", "_iter_segments",
    ),
    Variant(
        "lexer-translation-delta-applied-to-source-offset", LEXER,
        "                            stashed_source_idx = (\n                                element.template_slice.start + tfs_offset\n                            )\n",
        "                            stashed_source_idx = (\n                                tfs.source_slice.start + tfs_offset\n                            )\n",
        "RQ-space", "_iter_segments",
    ),
    Variant(
        "slicer-compares-source-cursor-with-templated-start", LFILE,
        "            if patch.source_slice.start > source_idx:\n",
        "            if patch.templated_slice.start > source_idx:\n",
        "RQ-space", "_slice_source_file_using_patches",
    ),
    Variant(
        "fix-slices-computed-from-source-slice", FIXPY,
        "        anchor_slice = self.anchor.pos_marker.templated_slice\n",
        "        anchor_slice = self.anchor.pos_marker.source_slice\n",
        "RQ-space", None, "source slice handed to the rendered->source translation",
    ),
    Variant(
        "working-position-from-source-table", MARKERS,
        "            line_no, line_pos = self.templated_position()\n            # Use the base method because we're working with a frozen class\n            object.__setattr__(self, \"working_line_no\", line_no)\n            object.__setattr__(self, \"working_line_pos\", line_pos)\n",
        "            line_no, line_pos = self.templated_position()\n            # Use the base method because we're working with a frozen class\n            object.__setattr__(self, \"working_line_no\", line_pos)\n            object.__setattr__(self, \"working_line_pos\", line_no)\n",
        "RQ-space", "PositionMarker.__post_init__", "line stored as column and vice versa",
    ),
]
