"""C19 — all entry points agree (path / stdin with --stdin-filename / Python API).

R19a  argument coherence of the sibling lint drivers: at every call of
      ``lint_parsed(P, RP)``, ``lint_rendered(R, RP)``, ``lint_fix_parsed(T, C, RP)``
      (also through ``functools.partial``) the rule pack RP derives from
      ``get_rulepack(config=X)`` with X the per-file config of the very object being
      linted (``P.config`` / ``R.config`` / ``C``) — the config that already holds
      the file's inline directives.  Forwarders (RP is the function's own
      parameter) must pass the subject's own config along.
R19b  whichever way a file arrives its config is built by the same constructor:
      paths: ``root.make_child_from_path(fname)`` + ``process_raw_file_for_config``;
      stdin with a filename: the linter's config is replaced by
      ``make_child_from_path(stdin_filename)`` on every path to the lint call, and
      the string driver applies ``process_raw_file_for_config`` to a copy.
R19c  every fix driver reads the fixable/unfixable counts that decide its exit
      status *after* the discard step it performs on the same result.

Accepted spellings (all decided on reaching definitions / origins, never on local names):
R19a  the config read through a local (``file_config = parsed.config``) is the same access
      path as the spelled-out chain, provided the root is the same binding; pack built
      inline; positional or keyword arguments; a forwarder's subject derived from its own
      parameter through positional or keyword arguments.
R19b  the loader's tuple written in the ``return`` or held whole in a local;
      ``make_child_from_path(fname)`` / ``(path=fname)``; the child config assigned to
      ``<linter>.config`` in place or through a local; ``stdin_filename`` handed to
      ``lint_string_wrapped`` by keyword or position; the receiver of
      ``process_raw_file_for_config`` is the config by name or by identical origin.
R19c  a count read off the variable of a comprehension / ``for`` loop over
      ``<result>.paths`` is a read on ``<result>``; the discard helper may get the result
      by position or keyword.
"""

from __future__ import annotations

import ast
from typing import Dict, List, Optional

from ..cfg import cfg_of, origins, own_exprs
from ..counts import Counts, root_name
from ..gates import DISCARD, callers_of, discard_summaries
from ..index import AnalysisError, FuncNode, call_name, calls_in, enclosing_class, kwarg, last_attr, norm, short, walk_local
from ..pathcond import Not, Or, PathFacts, Var

LINTER = "src/sqlfluff/core/linter/linter.py"
RUNNER = "src/sqlfluff/core/linter/runner.py"
CLI = "src/sqlfluff/cli/commands.py"
API = "src/sqlfluff/api/simple.py"
EXCLUDED = {"src/sqlfluff/utils/testing/": "test-support helpers, not an entry point"}

# method -> (index of subject, name of subject kw, index of rule pack, kw of rule pack, index of config or None, kw)
DRIVERS = {
    "lint_parsed": (0, "parsed", 1, "rule_pack", None, None),
    "lint_rendered": (0, "rendered", 1, "rule_pack", None, None),
    "lint_fix_parsed": (0, "tree", 2, "rule_pack", 1, "config"),
}


def _driver_calls(f):
    """(method, call node, positional args, keywords) incl. functools.partial(method, ...)"""
    for c in calls_in(f):
        name = last_attr(c)
        if name in DRIVERS and isinstance(c.func, ast.Attribute):
            yield name, c, list(c.args), {k.arg: k.value for k in c.keywords if k.arg}
        elif name == "partial" and c.args and isinstance(c.args[0], ast.Attribute) and c.args[0].attr in DRIVERS:
            yield c.args[0].attr, c, list(c.args[1:]), {k.arg: k.value for k in c.keywords if k.arg}


def _pick(args, kws, idx, kw):
    if kw in kws:
        return kws[kw]
    if idx is not None and idx < len(args):
        return args[idx]
    return None


def _same_object(cfg, a: ast.expr, at_a, b: ast.expr, at_b) -> bool:
    """Same access path on the same reaching definition of the root variable."""
    if norm(a) != norm(b):
        return False
    ra, rb = root_name(a), root_name(b)
    if ra is None:
        return False
    rd = cfg.reaching()
    return rd.defs_at(at_a, ra) == rd.defs_at(at_b, rb)


def _access_path(cfg, e: ast.expr, at, depth: int = 0):
    """Resolved access path of ``e`` evaluated at ``at``: ``((root name, reaching defs of the
    root), attribute steps)``.  A local bound once to a plain name / attribute chain
    (``file_config = parsed.config``) is replaced by that chain, read at its definition, so
    the spelled-out chain and the value read through a local compare equal exactly when they
    name the same member of the same binding of the root.  None when ``e`` is not a chain."""
    steps: List[str] = []
    rd = cfg.reaching()
    while True:
        if isinstance(e, ast.Attribute):
            steps.append(e.attr)
            e = e.value
            continue
        if isinstance(e, ast.Name):
            ds = rd.defs_at(at, e.id) if at is not None else set()
            if len(ds) == 1 and depth < 8:
                d = next(iter(ds))
                if d.kind == "assign" and not d.path and isinstance(d.value, (ast.Name, ast.Attribute)):
                    e, at, depth = d.value, d.stmt, depth + 1
                    continue
            return (e.id, frozenset(id(d) for d in ds)), tuple(reversed(steps))
        return None


def _same_value_origin(cfg, a: ast.expr, at_a, b: ast.expr, at_b) -> bool:
    """Two plain names that are bound (on every path) by the very same expressions."""
    if not (isinstance(a, ast.Name) and isinstance(b, ast.Name)):
        return False
    oa, ob = origins(cfg, a, at_a), origins(cfg, b, at_b)
    return bool(oa) and {(id(o.expr), o.path, o.kind) for o in oa} == {(id(o.expr), o.path, o.kind) for o in ob}


def _bound_arg(func, call: ast.Call, param: str, *, method: bool = False) -> Optional[ast.expr]:
    """The argument a call binds to parameter ``param`` of ``func`` (keyword or position)."""
    v = kwarg(call, param)
    if v is not None:
        return v
    params = [a.arg for a in func.args.args]
    if method and params and params[0] in ("self", "cls"):
        params = params[1:]
    if param in params:
        i = params.index(param)
        if i < len(call.args) and not any(isinstance(x, ast.Starred) for x in call.args[: i + 1]):
            return call.args[i]
    return None


def run(chk) -> None:
    repo = chk.repo
    chk.rule("R19a", "the rule pack handed to lint_parsed / lint_rendered / lint_fix_parsed is built from the per-file config of the object being linted")
    chk.rule("R19b", "stdin with --stdin-filename gets its config from make_child_from_path(stdin_filename) before linting; paths from make_child_from_path(fname); both then process inline config")
    chk.rule("R19c", "fix drivers read exit-deciding fixable/unfixable counts only after the discard step")
    chk.rule("R19d", "a command that dispatches to the stdin fix driver and to the path fix driver hands both the same value for every option they share (fix_even_unparsable, linter, formatter)")
    _r19a(chk, repo)
    _r19b(chk, repo)
    _r19c(chk, repo)
    _r19d(chk, repo)
    chk.rule("R19e", "every entry point serialises the same set of violations: wherever violations obtained from get_violations() are turned into records (to_dict), the list was taken with filter_warning=False (warning-level violations are reported, marked `warning: true`, by the CLI and must not vanish from the API)")
    _r19e(chk, repo)


# ---------------------------------------------------------------------------
def _r19e(chk, repo) -> None:
    n = 0
    for pre in ("src/sqlfluff/api/", "src/sqlfluff/cli/", "src/sqlfluff/core/linter/"):
        for m in repo.iter_modules(pre):
            for q, f in m.functions():
                cfg = None
                for node in walk_local(f):
                    gens = []
                    if isinstance(node, (ast.ListComp, ast.GeneratorExp, ast.SetComp)):
                        if any(isinstance(c, ast.Call) and last_attr(c) == "to_dict" for c in ast.walk(node.elt)):
                            gens = [g.iter for g in node.generators]
                    elif isinstance(node, ast.For):
                        if any(isinstance(c, ast.Call) and last_attr(c) == "to_dict" and isinstance(c.func, ast.Attribute) and isinstance(c.func.value, ast.Name)
                               and c.func.value.id in {x.id for x in ast.walk(node.target) if isinstance(x, ast.Name)} for b in node.body for c in ast.walk(b)):
                            gens = [node.iter]
                    for it in gens:
                        cfg = cfg or cfg_of(f)
                        exprs = [it]
                        if isinstance(it, ast.Name):
                            exprs = [o.expr for o in origins(cfg, it, cfg.stmt_of(node) or node) if o.kind == "expr" and o.expr is not None]
                        for e in exprs:
                            for c in [x for x in ast.walk(e) if isinstance(x, ast.Call) and last_attr(x) == "get_violations" and isinstance(x.func, ast.Attribute)]:
                                n += 1
                                fw = kwarg(c, "filter_warning")
                                if isinstance(fw, ast.Name):
                                    cv = _canon_value(cfg, fw, cfg.stmt_of(c) or cfg.stmt_of(node) or node)
                                    if cv == ("const", "False"):
                                        fw = ast.Constant(value=False)
                                chk.require(
                                    isinstance(fw, ast.Constant) and fw.value is False, "R19e", c,
                                    f"{q} turns `{short(c, 60)}` into records: without filter_warning=False the warning-level violations are dropped here while the other "
                                    "entry points (records built in LintedDir.add) report them with `warning: true` -- the same SQL then yields different violation lists",
                                    detail=f"{q}: records built from get_violations(filter_warning=False)",
                                )
    chk.count("R19e.record_builders", n)
    chk.floor("R19e.record_builders", 1)


def _canon_value(cfg, e: ast.expr, at, depth: int = 0):
    """A value identity for sibling-argument comparison: constants by value; a local bound
    once by a plain expression is replaced by that expression (at its definition); anything
    else by its normalised text plus the reaching definitions of the names it mentions."""
    if isinstance(e, ast.Constant):
        return ("const", repr(e.value))
    if isinstance(e, ast.Name) and depth < 4:
        os_ = origins(cfg, e, at)
        if len(os_) == 1 and os_[0].kind == "expr" and not os_[0].path and not isinstance(os_[0].expr, ast.Name):
            return _canon_value(cfg, os_[0].expr, os_[0].stmt, depth + 1)
    rd = cfg.reaching()
    names = sorted({n.id for n in ast.walk(e) if isinstance(n, ast.Name)})
    return ("expr", norm(e), tuple((n, tuple(sorted(id(d) for d in rd.defs_at(at, n)))) for n in names))


def _r19d(chk, repo) -> None:
    cli = repo.mod(CLI)
    drivers = {}
    for q, f in cli.functions():
        if f.name in ("_stdin_fix", "_paths_fix"):
            drivers[f.name] = f
    if len(drivers) != 2:
        raise AnalysisError("R19d: _stdin_fix / _paths_fix not found in cli/commands.py (anchor renamed?)")
    p_stdin = [a.arg for a in drivers["_stdin_fix"].args.args]
    p_paths = [a.arg for a in drivers["_paths_fix"].args.args]
    shared = [p for p in p_stdin if p in p_paths]
    chk.count("R19d.shared_parameters", len(shared))
    chk.floor("R19d.shared_parameters", 3)

    def bind(call: ast.Call, params: List[str]) -> Dict[str, ast.expr]:
        out = {}
        for i, a in enumerate(call.args):
            if i < len(params):
                out[params[i]] = a
        for k in call.keywords:
            if k.arg:
                out[k.arg] = k.value
        return out

    n = 0
    for q, f in cli.functions():
        cs = [c for c in calls_in(f) if isinstance(c.func, ast.Name) and c.func.id == "_stdin_fix"]
        cp = [c for c in calls_in(f) if isinstance(c.func, ast.Name) and c.func.id == "_paths_fix"]
        if not cs or not cp:
            continue
        n += 1
        cfg = cfg_of(f)
        for a in cs:
            for b in cp:
                ba, bb = bind(a, p_stdin), bind(b, p_paths)
                for p in shared:
                    if p not in ba or p not in bb:
                        continue  # defaulted on one side: nothing to compare
                    va = _canon_value(cfg, ba[p], cfg.stmt_of(a))
                    vb = _canon_value(cfg, bb[p], cfg.stmt_of(b))
                    chk.require(
                        va == vb, "R19d", a,
                        f"`{f.name}` passes {norm(ba[p])!r} as `{p}` to the stdin fix driver but {norm(bb[p])!r} to the path fix driver: "
                        "the same file given on stdin and by path is then fixed under different settings",
                        detail=f"{q}: stdin/path drivers get the same `{p}`",
                    )
    chk.count("R19d.dispatching_commands", n)
    chk.floor("R19d.dispatching_commands", 2)


# ---------------------------------------------------------------------------
def _r19a(chk, repo) -> None:
    for m in repo.iter_modules("src/sqlfluff/"):
        if any(m.relpath.startswith(p) for p in EXCLUDED):
            continue
        for q, f in m.functions():
            cfg = cfg_of(f)
            params = [a.arg for a in f.args.args]
            for meth, call, args, kws in _driver_calls(f):
                si, skw, ri, rkw, ci, ckw = DRIVERS[meth]
                subj = _pick(args, kws, si, skw)
                rp = _pick(args, kws, ri, rkw)
                conf = _pick(args, kws, ci, ckw) if ckw else None
                chk.count("R19a.driver_call_sites")
                st = cfg.stmt_of(call)
                detail = f"{meth}() call"
                if rp is None or subj is None:
                    chk.fail("R19a", call, f"cannot identify subject / rule pack arguments of {meth}", detail=detail)
                    continue
                os_ = origins(cfg, rp, st) if isinstance(rp, ast.Name) else None
                if os_ is None:
                    os_ = []
                    if isinstance(rp, ast.Call):
                        from ..cfg import Origin

                        os_ = [Origin(rp, (), "expr", st)]
                if not os_:
                    chk.fail("R19a", call, "rule pack argument has no traceable definition", detail=detail)
                    continue
                bad = None
                for o in os_:
                    if o.kind == "param":
                        # forwarder: the subject handed on must be (derived from) this
                        # function's own subject, and a config argument must be its .config
                        if conf is not None:
                            # ``<own parameter>.config``, spelled out or read through a local
                            ap = _access_path(cfg, conf, st)
                            ok = ap is not None and len(ap[1]) >= 1 and ap[1][-1] == "config" and ap[0][0] in params
                            if not ok:
                                bad = f"forwards its own rule pack but passes config {norm(conf)!r}, not the config of its subject parameter"
                        else:
                            sr = root_name(subj)
                            so = origins(cfg, subj, st) if isinstance(subj, ast.Name) else []
                            ok = (sr in params) or any(
                                isinstance(x.expr, ast.Call)
                                and any(isinstance(a, ast.Name) and a.id in params for a in list(x.expr.args) + [k.value for k in x.expr.keywords if k.arg])
                                for x in so
                            )
                            if not ok:
                                bad = "forwards its own rule pack with a subject that does not derive from its own subject parameter"
                    elif o.kind == "expr" and isinstance(o.expr, ast.Call) and last_attr(o.expr) == "get_rulepack" and not o.path:
                        e = kwarg(o.expr, "config") or (o.expr.args[0] if o.expr.args else None)
                        if e is None:
                            bad = "rule pack built without a config (falls back to the linter's root config, which lacks per-file and inline settings)"
                        else:
                            want = conf if conf is not None else ast.Attribute(value=subj, attr="config", ctx=ast.Load())
                            # same member of the same binding, whether spelled out or read through a
                            # local (``file_config = parsed.config``): compared on resolved access paths
                            pe = _access_path(cfg, e, o.stmt)
                            if conf is not None:
                                pw = _access_path(cfg, conf, st)
                                same = _same_object(cfg, e, o.stmt, conf, st) or (pe is not None and pe == pw)
                            else:
                                ps = _access_path(cfg, subj, st)
                                same = pe is not None and ps is not None and pe == (ps[0], ps[1] + ("config",))
                            if not same:
                                bad = (
                                    f"rule pack is built from {norm(e)!r} but the object linted carries its own per-file config "
                                    f"({norm(want)!r}, which includes the file's inline `-- sqlfluff:` directives); rule selection and rule options "
                                    f"then differ from what the same file gets through the path driver"
                                )
                    else:
                        bad = f"rule pack derives from {o.text()}, not from get_rulepack(config=...)"
                    if bad:
                        break
                if bad:
                    chk.fail("R19a", call, bad, detail=detail)
                else:
                    chk.ok("R19a", f"{m.relpath}::{q}", detail)
                    chk.sample({"rule": "R19a", "site": f"{m.relpath}:{call.lineno}", "call": short(call, 80), "rule_pack_from": [o.text()[:90] for o in os_]})
    chk.floor("R19a.driver_call_sites", 8)
    # parse_rendered must hand the rendered file's own config to the ParsedString
    pr = repo.fn(LINTER, "Linter.parse_rendered")
    cfg = cfg_of(pr)
    n = 0
    for c in calls_in(pr):
        if last_attr(c) == "ParsedString":
            n += 1
            e = kwarg(c, "config")
            if e is None:
                # positional construction: the position of the ``config`` field of the tuple class
                r = repo.resolve_name(repo.mod(LINTER), "ParsedString")
                fields = [x.target.id for x in r[1].body if isinstance(x, ast.AnnAssign) and isinstance(x.target, ast.Name)] if r and isinstance(r[1], ast.ClassDef) else []
                if "config" in fields and fields.index("config") < len(c.args) and not any(isinstance(a, ast.Starred) for a in c.args):
                    e = c.args[fields.index("config")]
            params = [a.arg for a in pr.args.args]
            ap = _access_path(cfg, e, cfg.stmt_of(c)) if e is not None else None
            chk.require(
                ap is not None and len(ap[1]) >= 1 and ap[1][-1] == "config" and ap[0][0] in params,
                "R19a", c, "ParsedString is not given the rendered file's own config", detail="parse_rendered passes rendered.config",
            )
    chk.count("R19a.parsedstring_sites", n)
    chk.floor("R19a.parsedstring_sites", 1)


# ---------------------------------------------------------------------------
def _r19b(chk, repo) -> None:
    # (1) paths: load_raw_file_and_config
    f = repo.fn(LINTER, "Linter.load_raw_file_and_config")
    cfg = cfg_of(f)
    params = [a.arg for a in f.args.args]
    # the returned tuple, written in the return statement or held whole in a local first
    rets = []  # (return stmt, tuple display, stmt where the display is evaluated)
    for n in walk_local(f):
        if not isinstance(n, ast.Return) or n.value is None:
            continue
        if isinstance(n.value, ast.Tuple):
            rets.append((n, n.value, n))
        elif isinstance(n.value, ast.Name):
            os_ = origins(cfg, n.value, n)
            if os_ and all(o.kind == "expr" and not o.path and isinstance(o.expr, ast.Tuple) for o in os_):
                rets += [(n, o.expr, o.stmt) for o in os_]
    chk.count("R19b.loader_returns", len(rets))
    chk.floor("R19b.loader_returns", 1)
    for r, tup, built_at in rets:
        conf = tup.elts[1] if len(tup.elts) > 1 else None
        ok = False
        proc = False
        if isinstance(conf, ast.Name):
            os_ = origins(cfg, conf, built_at)

            def child_of_root(call) -> bool:
                if not (isinstance(call, ast.Call) and last_attr(call) == "make_child_from_path" and root_name(call) in params):
                    return False
                a0 = call.args[0] if call.args else kwarg(call, "path")
                return isinstance(a0, ast.Name) and a0.id in params

            ok = bool(os_) and all(child_of_root(o.expr) and o.kind == "expr" and not o.path for o in os_)
            for c in calls_in(f):
                if last_attr(c) == "process_raw_file_for_config" and isinstance(c.func, ast.Attribute) and cfg.dominates(cfg.stmt_of(c), r):
                    recv = c.func.value
                    if root_name(c.func) == conf.id or _same_value_origin(cfg, recv, cfg.stmt_of(c), conf, built_at):
                        proc = True
        chk.require(ok, "R19b", r, "per-file config for a path is not root_config.make_child_from_path(fname)", detail="path config constructor")
        chk.require(proc, "R19b", r, "inline config of a file read from a path is not processed before the config is returned", detail="path inline config processed")
    # (2) string driver: parse_string copies then processes inline config, and renders with that copy
    ps = repo.fn(LINTER, "Linter.parse_string")
    cfg = cfg_of(ps)
    rs = [c for c in calls_in(ps) if last_attr(c) == "render_string"]
    chk.count("R19b.parse_string_render", len(rs))
    chk.floor("R19b.parse_string_render", 1)
    for c in rs:
        conf = c.args[2] if len(c.args) > 2 else kwarg(c, "config")
        st = cfg.stmt_of(c)
        ok = False
        if isinstance(conf, ast.Name):
            procs = [
                x for x in calls_in(ps)
                if last_attr(x) == "process_raw_file_for_config" and isinstance(x.func, ast.Attribute) and cfg.dominates(cfg.stmt_of(x), st)
                and (root_name(x.func) == conf.id or _same_value_origin(cfg, x.func.value, cfg.stmt_of(x), conf, st))
            ]
            os_ = origins(cfg, conf, st)
            fresh = bool(os_) and all(isinstance(o.expr, ast.Call) and last_attr(o.expr) == "copy" for o in os_)
            ok = bool(procs) and fresh
        chk.require(ok, "R19b", c, "string driver does not render with a fresh copy of the config that had the inline directives applied", detail="string config: copy + inline processed")
    # (3) CLI stdin with a filename
    cli = repo.mod(CLI)
    n_sites = 0
    for q, f in cli.functions():
        for c in calls_in(f):
            if last_attr(c) != "lint_string_wrapped":
                continue
            sf = _stdin_filename_arg(repo, c)
            if sf is None or (isinstance(sf, ast.Constant) and sf.value is None):
                continue
            n_sites += 1
            ok, why = _child_config_goal(repo, f, c, root_name(c.func.value), sf, 0)
            chk.require(ok, "R19b", c, f"stdin with --stdin-filename is linted without the linter config being replaced by make_child_from_path(stdin_filename): {why}",
                        detail="stdin filename config")
    chk.count("R19b.stdin_filename_sites", n_sites)
    chk.floor("R19b.stdin_filename_sites", 2)


def _stdin_filename_arg(repo, c: ast.Call) -> Optional[ast.expr]:
    """The ``stdin_filename`` argument of a ``lint_string_wrapped`` call, by keyword or by the
    position the parameter has in ``Linter.lint_string_wrapped``."""
    return _bound_arg(repo.fn(LINTER, "Linter.lint_string_wrapped"), c, "stdin_filename", method=True)


def _child_config_goal(repo, func, call, recv: Optional[str], sf: ast.expr, depth: int):
    cfg = cfg_of(func)
    if recv is None or not isinstance(sf, ast.Name):
        return False, "receiver or filename not a plain variable"
    X = sf.id

    def atom(e, stmt):
        if isinstance(e, ast.Name) and e.id == X:
            return f"HAS:{X}"
        # ``bool(<filename>)`` is the same truth test (also when held in a flag local, which
        # PathFacts tracks as ``flag <-> HAS``)
        if isinstance(e, ast.Call) and isinstance(e.func, ast.Name) and e.func.id == "bool" and len(e.args) == 1 and not e.keywords \
                and isinstance(e.args[0], ast.Name) and e.args[0].id == X:
            return f"HAS:{X}"
        return None

    def events(stmt):
        evs = []
        if isinstance(stmt, ast.Assign) and len(stmt.targets) == 1:
            t, v = stmt.targets[0], stmt.value
            if isinstance(t, ast.Attribute) and t.attr == "config" and root_name(t) == recv:
                # the new value, written in place or computed into a local first
                vals = [(v, stmt)]
                if isinstance(v, ast.Name):
                    os_ = origins(cfg, v, stmt)
                    vals = [(o.expr, o.stmt) for o in os_] if os_ and all(o.kind == "expr" and not o.path for o in os_) else []

                def is_child(call, at) -> bool:
                    if not (isinstance(call, ast.Call) and last_attr(call) == "make_child_from_path" and isinstance(call.func, ast.Attribute)):
                        return False
                    a0 = call.args[0] if call.args else kwarg(call, "path")
                    if not (isinstance(a0, ast.Name) and a0.id == X and norm(call.func.value) == f"{recv}.config"):
                        return False
                    # computed earlier: the filename and the linter must still be the same bindings
                    rd = cfg.reaching()
                    return at is stmt or all(rd.defs_at(at, nm) == rd.defs_at(stmt, nm) for nm in (X, recv))

                if vals and all(is_child(e, at) for e, at in vals):
                    evs.append(Var(f"CHILD:{recv}:{X}"))
        return evs

    pf = PathFacts(cfg, atom, events)
    ok, cex = pf.holds_at(cfg.stmt_of(call), Or(Not(Var(f"HAS:{X}")), Var(f"CHILD:{recv}:{X}")))
    if ok:
        return True, ""
    params = [a.arg for a in func.args.args]
    if recv in params and X in params and depth < 2:
        sites = callers_of(repo, func)
        if not sites:
            return False, "helper has no call site"
        for cf, c2 in sites:
            def pick(name):
                i = params.index(name)
                if i < len(c2.args):
                    return c2.args[i]
                return kwarg(c2, name)
            a_recv, a_sf = pick(recv), pick(X)
            if a_sf is None or (isinstance(a_sf, ast.Constant) and a_sf.value is None):
                continue
            ok2, why2 = _child_config_goal(repo, cf, c2, root_name(a_recv) if a_recv is not None else None, a_sf, depth + 1)
            if not ok2:
                return False, f"call site in {cf.name}: {why2}"
        return True, ""
    return False, "no dominating `<linter>.config = <linter>.config.make_child_from_path(<stdin filename>)` on the path where a filename is given"


# ---------------------------------------------------------------------------
def _exit_relevant_names(f) -> set:
    """Names whose value can influence the argument of sys.exit in ``f``."""
    cfg = cfg_of(f)
    rel = set()
    exits = [c for c in calls_in(f) if call_name(c) == "sys.exit"]
    for c in exits:
        for a in c.args:
            rel |= {n.id for n in ast.walk(a) if isinstance(n, ast.Name)}
        for e, pol in cfg.conditions(cfg.stmt_of(c)):
            rel |= {n.id for n in ast.walk(e) if isinstance(n, ast.Name)}
    changed = True
    while changed:
        changed = False
        for n in walk_local(f):
            tgt = val = None
            if isinstance(n, ast.Assign):
                tgt, val = n.targets, n.value
            elif isinstance(n, ast.AugAssign):
                tgt, val = [n.target], n.value
            elif isinstance(n, ast.AnnAssign) and n.value is not None:
                tgt, val = [n.target], n.value
            if tgt is None:
                continue
            tn = {x.id for t in tgt for x in ast.walk(t) if isinstance(x, ast.Name)}
            if tn & rel:
                new = {x.id for x in ast.walk(val) if isinstance(x, ast.Name)}
                for e, pol in cfg.conditions(n):
                    new |= {x.id for x in ast.walk(e) if isinstance(x, ast.Name)}
                if not new <= rel:
                    rel |= new
                    changed = True
    return rel


def _count_root(counts, cfg, node: ast.AST, name: str, at, depth: int = 0) -> Optional[str]:
    """The object a count read hangs off.  ``d.num_unfixable_lint_errors`` with ``d`` the
    variable of an enclosing comprehension or ``for`` loop over ``<result>.paths`` is a read
    on ``<result>`` (the generator inside ``sum(...)`` is the same thing spelled inline);
    plain aliases and member aliases are followed by ``Counts._canon_root``."""
    if depth > 6:
        return name
    # (a) bound by an enclosing comprehension of the read itself
    p = getattr(node, "_parent", None)
    while p is not None and not isinstance(p, FuncNode):
        if isinstance(p, (ast.GeneratorExp, ast.ListComp, ast.SetComp, ast.DictComp)):
            for g in p.generators:
                if any(isinstance(t, ast.Name) and t.id == name for t in ast.walk(g.target)):
                    r = root_name(g.iter)
                    return _count_root(counts, cfg, p, r, at, depth + 1) if r else name
        p = getattr(p, "_parent", None)
    # (b) the target of a ``for`` statement
    ds = cfg.reaching().defs_at(at, name) if at is not None else set()
    if ds and all(d.kind == "for" for d in ds):
        roots = set()
        for d in ds:
            r = root_name(d.value)
            roots.add(_count_root(counts, cfg, d.stmt, r, d.stmt, depth + 1) if r else None)
        if len(roots) == 1 and None not in roots:
            return next(iter(roots))
        return name
    canon = counts._canon_root(cfg, name, at)
    if canon is not None and canon != name:
        return _count_root(counts, cfg, node, canon, at, depth + 1)
    return name


def _r19c(chk, repo) -> None:
    counts = Counts(repo)
    summaries = discard_summaries(repo, counts)
    n_drivers = 0
    counted_stmts = set()
    for m in repo.iter_modules("src/sqlfluff/"):
        if any(m.relpath.startswith(p) for p in EXCLUDED):
            continue
        for q, f in m.functions():
            if enclosing_class(f) is not None and enclosing_class(f).name in ("LintedDir", "LintingResult"):
                continue
            cfg = cfg_of(f)
            discards = []  # (stmt, root)
            for c in calls_in(f):
                if last_attr(c) == DISCARD and isinstance(c.func, ast.Attribute):
                    discards.append((cfg.stmt_of(c), counts._canon_root(cfg, root_name(c.func.value), cfg.stmt_of(c))))
                elif last_attr(c) in summaries and isinstance(c.func, ast.Name):
                    hf, ri, fi = summaries[last_attr(c)]
                    # the result object, handed over by position or by keyword
                    res_arg = _bound_arg(hf, c, hf.args.args[ri].arg)
                    if res_arg is not None:
                        discards.append((cfg.stmt_of(c), counts._canon_root(cfg, root_name(res_arg), cfg.stmt_of(c))))
            exits = [c for c in calls_in(f) if call_name(c) == "sys.exit"]
            if not discards or not exits:
                continue
            n_drivers += 1
            rel = _exit_relevant_names(f)
            for n in walk_local(f):
                if not isinstance(n, (ast.Call, ast.Attribute)):
                    continue
                ci = counts.classify_expr_shallow(n)
                if ci is None or ci.fixable is None:
                    continue
                st = cfg.stmt_of(n)
                root = _count_root(counts, cfg, n, ci.root, st) if ci.root else None
                same = [d for d, r in discards if r == root]
                if not same:
                    continue
                # does this read influence the exit status?
                infl = False
                if isinstance(st, (ast.Assign, ast.AnnAssign, ast.AugAssign)):
                    tg = st.targets if isinstance(st, ast.Assign) else [st.target]
                    infl = bool({x.id for t in tg for x in ast.walk(t) if isinstance(x, ast.Name)} & rel)
                elif isinstance(st, (ast.If, ast.While)):
                    # a test: relevant if it guards an assignment to a relevant name or an exit
                    for s2 in walk_local(st):
                        if isinstance(s2, (ast.Assign, ast.AugAssign)):
                            tg = s2.targets if isinstance(s2, ast.Assign) else [s2.target]
                            if {x.id for t in tg for x in ast.walk(t) if isinstance(x, ast.Name)} & rel:
                                infl = True
                        if isinstance(s2, ast.Call) and call_name(s2) == "sys.exit":
                            infl = True
                elif isinstance(st, ast.Expr) and isinstance(st.value, ast.Call) and call_name(st.value) == "sys.exit":
                    infl = True
                if not infl:
                    continue
                if id(st) not in counted_stmts:  # one site = one statement (sum(...) and the attribute inside it are one read)
                    counted_stmts.add(id(st))
                    chk.count("R19c.exit_deciding_reads")
                ok = any(cfg.dominates(d, st) and d is not st for d in same)
                chk.require(
                    ok, "R19c", n,
                    f"exit-deciding {'fixable' if ci.fixable else 'unfixable'} count of '{root}' is read before the discard step that turns the fixes of files "
                    f"with TMP/PRS errors into unfixable violations; the path driver reads it afterwards, so the two drivers exit differently for the same file",
                    detail=f"read of {'fixable' if ci.fixable else 'unfixable'} count of {root} vs discard",
                )
                chk.sample({"rule": "R19c", "site": f"{m.relpath}:{getattr(n, 'lineno', 0)}", "read": short(n, 80), "after_discard": ok})
    chk.count("R19c.fix_drivers", n_drivers)
    chk.floor("R19c.fix_drivers", 2)
    chk.floor("R19c.exit_deciding_reads", 2)


from ..selftest import Variant  # noqa: E402

VARIANTS = [
    Variant(
        "quiet-record-builder-switch-through-a-local", "src/sqlfluff/core/linter/linted_dir.py",
        "        violation_records = sorted(\n            # Keep the warnings\n            (v.to_dict() for v in file.get_violations(filter_warning=False)),\n",
        "        drop_warnings = False\n        all_violations = file.get_violations(filter_warning=drop_warnings)\n        violation_records = sorted(\n            (v.to_dict() for v in all_violations),\n",
        "QUIET", None, "R19e: (with the line below) the list is taken first, the switch held in a local",
    ),
    Variant(
        "api-lint-serialises-filtered-violations", API,
        "    result = linter.lint_string_wrapped(sql)\n    result_records = result.as_records()\n    # Return just the violations for this file\n    return [] if not result_records else result_records[0][\"violations\"]\n",
        "    linted_file = linter.lint_string(sql)\n    return sorted((v.to_dict() for v in linted_file.get_violations()), key=lambda v: (v[\"start_line_no\"], v[\"start_line_pos\"], v[\"code\"]))\n",
        "R19e", "lint", "seeded C19-3: warnings = CP01 -> the API drops the violation the CLI reports",
    ),
    Variant(
        "quiet-linted-dir-records-through-local", "src/sqlfluff/core/linter/linted_dir.py",
        "            (v.to_dict() for v in file.get_violations(filter_warning=False)),\n",
        "            (v.to_dict() for v in file.get_violations(filter_ignore=True, filter_warning=False)),\n",
        "QUIET", None, "explicit default for filter_ignore",
    ),
    # behaviour-preserving refactors: must stay quiet
    Variant(
        "quiet-stdin-fix-option-read-inline", CLI,
        "            _stdin_fix(lnt, formatter, fix_even_unparsable, stdin_filename)\n",
        "            _stdin_fix(lnt, formatter, config.get(\"fix_even_unparsable\"), stdin_filename)\n",
        "QUIET", None, "R19d: same root-config read, spelled inline at one call site",
    ),
    Variant(
        "quiet-stdin-fix-counts-after-discard-renamed", CLI,
        "    if result.num_violations(types=SQLLintError, fixable=True) > 0:\n        stdout = result.paths[0].files[0].fix_string()[0]\n",
        "    fixable_left = result.num_violations(types=SQLLintError, fixable=True)\n    if fixable_left > 0:\n        stdout = result.paths[0].files[0].fix_string()[0]\n",
        "QUIET", None, "R19c: fixable count (read after the discard step) held in a local",
    ),
    Variant(
        'quiet-lint_string-config-through-local', LINTER,
        '        rule_pack = self.get_rulepack(config=parsed.config)\n        # Lint the file and return the LintedFile',
        '        file_config = parsed.config\n        rule_pack = self.get_rulepack(config=file_config)\n        # Lint the file and return the LintedFile',
        "QUIET", None, "R19a: the parsed file's config read through a local before the pack is built",
    ),
    Variant(
        'quiet-lint_string-pack-inline-keywords', LINTER,
        '        rule_pack = self.get_rulepack(config=parsed.config)\n        # Lint the file and return the LintedFile\n        return self.lint_parsed(\n            parsed,\n            rule_pack,\n',
        '        # Lint the file and return the LintedFile\n        return self.lint_parsed(\n            parsed=parsed,\n            rule_pack=self.get_rulepack(parsed.config),\n',
        "QUIET", None, 'R19a: pack built inline, config positional, driver arguments by keyword',
    ),
    Variant(
        'quiet-lint_parsed-config-hoisted', LINTER,
        '            variant_source_patches = []\n            (\n                fixed_tree,\n                initial_linting_errors,\n                ignore_mask,\n                rule_timings,\n            ) = cls.lint_fix_parsed(\n                root_variant.tree,\n                config=parsed.config,\n',
        '            variant_source_patches = []\n            file_config = parsed.config\n            (\n                fixed_tree,\n                initial_linting_errors,\n                ignore_mask,\n                rule_timings,\n            ) = cls.lint_fix_parsed(\n                root_variant.tree,\n                config=file_config,\n',
        "QUIET", None, 'R19a forwarder: parsed.config handed to lint_fix_parsed through a local',
    ),
    Variant(
        'quiet-lint_rendered-parse-keyword', LINTER,
        '        parsed = cls.parse_rendered(rendered)\n        return cls.lint_parsed(\n            parsed,\n',
        '        parsed_file = cls.parse_rendered(rendered=rendered)\n        return cls.lint_parsed(\n            parsed_file,\n',
        "QUIET", None, 'R19a forwarder: subject derived from the own parameter through a keyword argument, local renamed',
    ),
    Variant(
        'quiet-parse_rendered-config-local', LINTER,
        '        return ParsedString(\n            parsed_variants=parsed_variants,\n            templating_violations=rendered.templater_violations,\n            time_dict=time_dict,\n            config=rendered.config,\n',
        '        file_config = rendered.config\n        return ParsedString(\n            parsed_variants=parsed_variants,\n            templating_violations=rendered.templater_violations,\n            time_dict=time_dict,\n            config=file_config,\n',
        "QUIET", None, 'R19a: ParsedString gets rendered.config through a local',
    ),
    Variant(
        'quiet-apply-config-local-positional', RUNNER,
        '                rule_pack = linter.get_rulepack(config=rendered.config)\n                return Linter.lint_rendered(rendered, rule_pack, task.fix, None)',
        '                file_config = rendered.config\n                pack = linter.get_rulepack(file_config)\n                return Linter.lint_rendered(rendered, rule_pack=pack, fix=task.fix, formatter=None)',
        "QUIET", None, 'R19a: worker shim reads rendered.config into a local, pack renamed, driver arguments by keyword',
    ),
    Variant(
        'quiet-iter_partials-linter-alias', RUNNER,
        '            rule_pack = self.linter.get_rulepack(config=rendered.config)\n            yield (\n                fname,\n                functools.partial(\n                    self.linter.lint_rendered,',
        '            linter = self.linter\n            rule_pack = linter.get_rulepack(config=rendered.config)\n            yield (\n                fname,\n                functools.partial(\n                    linter.lint_rendered,',
        "QUIET", None, 'R19a: self.linter aliased before get_rulepack / functools.partial',
    ),
    Variant(
        'quiet-linter-fix-config-renamed', LINTER,
        '        config = config or self.config\n        rule_pack = self.get_rulepack(config=config)\n        fixed_tree, violations, _, _ = self.lint_fix_parsed(\n            tree,\n            config,\n            rule_pack,\n',
        '        active_config = config or self.config\n        fixed_tree, violations, _, _ = self.lint_fix_parsed(\n            tree,\n            config=active_config,\n            rule_pack=self.get_rulepack(active_config),\n',
        "QUIET", None, 'R19a: `config or self.config` under another name, pack built inline',
    ),
    Variant(
        'quiet-loader-child-keyword-renamed', LINTER,
        '        file_config = root_config.make_child_from_path(fname)\n',
        '        file_config: FluffConfig = root_config.make_child_from_path(path=fname)\n',
        "QUIET", None, 'R19b: make_child_from_path(path=fname), annotated assignment',
    ),
    Variant(
        'quiet-loader-return-tuple-local', LINTER,
        '        return raw_file, file_config, encoding\n',
        '        loaded = (raw_file, file_config, encoding)\n        return loaded\n',
        "QUIET", None, 'R19b: returned tuple held whole in a local',
    ),
    Variant(
        'quiet-parse_string-copy-split-keywords', LINTER,
        '        config = (config or self.config).copy()\n\n        # Scan the raw file for config commands.\n        config.process_raw_file_for_config(in_str, fname)\n        rendered = self.render_string(in_str, fname, config, encoding)\n',
        '        base_config = config or self.config\n        file_config = base_config.copy()\n\n        # Scan the raw file for config commands.\n        file_config.process_raw_file_for_config(in_str, fname)\n        rendered = self.render_string(\n            in_str=in_str, fname=fname, config=file_config, encoding=encoding\n        )\n',
        "QUIET", None, 'R19b: copy split over two locals, render_string called with keywords',
    ),
    Variant(
        'quiet-lint-stdin-child-config-local', CLI,
        '            if stdin_filename:\n                lnt.config = lnt.config.make_child_from_path(\n                    stdin_filename, require_dialect=False\n                )\n            result = lnt.lint_string_wrapped(',
        '            if stdin_filename:\n                child_config = lnt.config.make_child_from_path(\n                    stdin_filename, require_dialect=False\n                )\n                lnt.config = child_config\n            result = lnt.lint_string_wrapped(',
        "QUIET", None, 'R19b: child config computed into a local, then assigned to lnt.config',
    ),
    Variant(
        'quiet-stdin-fix-lint-positional', CLI,
        '    result = linter.lint_string_wrapped(\n        stdin, fname="stdin", fix=True, stdin_filename=stdin_filename\n    )\n',
        '    result = linter.lint_string_wrapped(stdin, "stdin", True, stdin_filename)\n',
        "QUIET", None, 'R19b: lint_string_wrapped called positionally',
    ),
    Variant(
        'quiet-fix-stdin-filename-early-else', CLI,
        '            if stdin_filename:\n                lnt.config = lnt.config.make_child_from_path(\n                    stdin_filename, require_dialect=False\n                )\n            _stdin_fix(lnt, formatter, fix_even_unparsable, stdin_filename)\n',
        '            if not stdin_filename:\n                pass\n            else:\n                lnt.config = lnt.config.make_child_from_path(\n                    path=stdin_filename, require_dialect=False\n                )\n            _stdin_fix(lnt, formatter, fix_even_unparsable, stdin_filename)\n',
        "QUIET", None, 'R19b: `if not name: pass / else:` and path= keyword',
    ),
    Variant(
        'quiet-paths-fix-unfixable-loop-sum', CLI,
        '    num_unfixable = sum(p.num_unfixable_lint_errors for p in result.paths)\n',
        '    num_unfixable = 0\n    for linted_dir in result.paths:\n        num_unfixable += linted_dir.num_unfixable_lint_errors\n',
        "QUIET", None, 'R19c: generator sum spelled as an accumulating loop over result.paths',
    ),
    Variant(
        'quiet-paths-fix-handle-unparsable-keywords', CLI,
        '    exit_code = _handle_unparsable(fix_even_unparsable, exit_code, result, formatter)\n\n    # NB: We filter to linting violations here',
        '    exit_code = _handle_unparsable(\n        fix_even_unparsable=fix_even_unparsable,\n        initial_exit_code=exit_code,\n        linting_result=result,\n        formatter=formatter,\n    )\n\n    # NB: We filter to linting violations here',
        "QUIET", None, 'R19c: the discard helper called with keyword arguments',
    ),
    Variant(
        'quiet-paths-fix-unfixable-truthiness-alias', CLI,
        '    num_unfixable = sum(p.num_unfixable_lint_errors for p in result.paths)\n    if num_unfixable > 0:\n',
        '    linted = result\n    unfixable_per_dir = [d.num_unfixable_lint_errors for d in linted.paths]\n    num_unfixable = sum(unfixable_per_dir)\n    if num_unfixable:\n',
        "QUIET", None, 'R19c: result aliased, per-dir counts in a list first, `> 0` as truthiness',
    ),
    Variant(
        'quiet-format-feu-shared-local', CLI,
        '            _stdin_fix(\n                lnt, formatter, fix_even_unparsable=False, stdin_filename=stdin_filename\n            )\n        else:\n            _paths_fix(\n                lnt,\n                formatter,\n                paths,\n                processes,\n                fix_even_unparsable=False,\n',
        '            _stdin_fix(lnt, formatter, False, stdin_filename)\n        else:\n            never_unparsable = False\n            _paths_fix(\n                lnt,\n                formatter,\n                paths,\n                processes,\n                fix_even_unparsable=never_unparsable,\n',
        "QUIET", None, 'R19d: constant False passed positionally on one side, through a local on the other',
    ),
    Variant(
        'quiet-fix-dispatch-keywords', CLI,
        '            _stdin_fix(lnt, formatter, fix_even_unparsable, stdin_filename)\n',
        '            _stdin_fix(\n                linter=lnt,\n                formatter=formatter,\n                fix_even_unparsable=fix_even_unparsable,\n                stdin_filename=stdin_filename,\n            )\n',
        "QUIET", None, 'R19d: stdin driver called with keyword arguments',
    ),
    Variant(
        'quiet-lint-stdin-filename-flag-local', CLI,
        '            if stdin_filename:\n                lnt.config = lnt.config.make_child_from_path(\n                    stdin_filename, require_dialect=False\n                )\n            result = lnt.lint_string_wrapped(',
        '            named_stdin = bool(stdin_filename)\n            if named_stdin:\n                lnt.config = lnt.config.make_child_from_path(\n                    stdin_filename, require_dialect=False\n                )\n            result = lnt.lint_string_wrapped(',
        "QUIET", None, 'R19b: filename test hoisted into a boolean local (`bool(stdin_filename)`)',
    ),
    Variant(
        'quiet-lint_string-subject-alias', LINTER,
        '        rule_pack = self.get_rulepack(config=parsed.config)\n        # Lint the file and return the LintedFile\n        return self.lint_parsed(\n            parsed,\n',
        '        rule_pack = self.get_rulepack(config=parsed.config)\n        target = parsed\n        # Lint the file and return the LintedFile\n        return self.lint_parsed(\n            target,\n',
        "QUIET", None, 'R19a: the parsed file handed to the driver under a second name',
    ),
    Variant(
        'quiet-stdin-fix-early-exit-split', CLI,
        '    sys.exit(EXIT_FAIL if templater_error or unfixable_error else exit_code)\n',
        '    failed = templater_error or unfixable_error\n    if failed:\n        exit_code = EXIT_FAIL\n    sys.exit(exit_code)\n',
        "QUIET", None, 'R19c: exit decision through a flag local and an assignment instead of a conditional argument',
    ),
    Variant(
        'quiet-sequential-runner-linter-local', RUNNER,
        '                    rule_pack = self.linter.get_rulepack(config=rendered.config)\n                    yield self.linter.lint_rendered(\n                        rendered, rule_pack, partial.fix, self.linter.formatter\n                    )\n',
        '                    linter = self.linter\n                    yield linter.lint_rendered(\n                        rendered,\n                        linter.get_rulepack(config=rendered.config),\n                        partial.fix,\n                        linter.formatter,\n                    )\n',
        "QUIET", None, 'R19a: self.linter aliased, pack built inline in the driver call',
    ),
    Variant(
        "quiet-parse_rendered-parsedstring-positional", LINTER,
        "        return ParsedString(\n            parsed_variants=parsed_variants,\n            templating_violations=rendered.templater_violations,\n            time_dict=time_dict,\n            config=rendered.config,\n            fname=rendered.fname,\n            source_str=rendered.source_str,\n        )\n",
        "        return ParsedString(\n            parsed_variants,\n            rendered.templater_violations,\n            time_dict,\n            rendered.config,\n            rendered.fname,\n            rendered.source_str,\n        )\n",
        "QUIET", None, "R19a: ParsedString built positionally (field order taken from the class)",
    ),
    # breaking edits: must be reported
    Variant("lint-stdin-filename-flag-inverted", CLI,
            "            if stdin_filename:\n                lnt.config = lnt.config.make_child_from_path(\n                    stdin_filename, require_dialect=False\n                )\n            result = lnt.lint_string_wrapped(",
            "            named_stdin = bool(stdin_filename)\n            if not named_stdin:\n                lnt.config = lnt.config.make_child_from_path(\n                    stdin_filename, require_dialect=False\n                )\n            result = lnt.lint_string_wrapped(",
            "R19b", "lint", "flag local tested with the wrong polarity: the child config is built only when no filename is given"),
    Variant("lint_string-pack-from-root-config-through-local", LINTER,
            "        rule_pack = self.get_rulepack(config=parsed.config)\n        # Lint the file and return the LintedFile",
            "        file_config = self.config\n        rule_pack = self.get_rulepack(config=file_config)\n        # Lint the file and return the LintedFile", "R19a", "lint_string",
            "the local that feeds get_rulepack holds the linter's root config, not the parsed file's"),
    Variant("lint-stdin-child-config-of-other-name", CLI,
            "            if stdin_filename:\n                lnt.config = lnt.config.make_child_from_path(\n                    stdin_filename, require_dialect=False\n                )\n            result = lnt.lint_string_wrapped(",
            "            if stdin_filename:\n                child_config = lnt.config.make_child_from_path(\n                    \"stdin\", require_dialect=False\n                )\n                lnt.config = child_config\n            result = lnt.lint_string_wrapped(",
            "R19b", "lint", "child config (through a local) is built for the literal name 'stdin', not for --stdin-filename"),
    Variant("paths-fix-unfixable-loop-before-discard", CLI,
            "    exit_code = _handle_unparsable(fix_even_unparsable, exit_code, result, formatter)\n\n    # NB: We filter to linting violations here",
            "    unfixable_before = 0\n    for linted_dir in result.paths:\n        unfixable_before += linted_dir.num_unfixable_lint_errors\n    exit_code = _handle_unparsable(\n        fix_even_unparsable=fix_even_unparsable, initial_exit_code=exit_code, linting_result=result, formatter=formatter\n    )\n    if unfixable_before:\n        exit_code = EXIT_FAIL\n\n    # NB: We filter to linting violations here",
            "R19c", "_paths_fix", "loop-spelled unfixable count read before the (keyword-called) discard helper decides the exit status"),
    Variant(
        "stdin-fix-gets-per-file-fix-even-unparsable", CLI,
        "            _stdin_fix(lnt, formatter, fix_even_unparsable, stdin_filename)\n",
        "            _stdin_fix(lnt, formatter, lnt.config.get(\"fix_even_unparsable\"), stdin_filename)\n",
        "R19d", "fix", "seeded C19-1: the stdin branch reads the option from the per-file child config, the path branch from the root",
    ),
    Variant("lint_string-pack-from-pre-inline-config", LINTER,
            "        rule_pack = self.get_rulepack(config=parsed.config)\n        # Lint the file and return the LintedFile",
            "        rule_pack = self.get_rulepack(config=config)\n        # Lint the file and return the LintedFile", "R19a", "lint_string", "the original defect F5"),
    Variant("runner-pack-from-root-config", RUNNER,
            "            rule_pack = self.linter.get_rulepack(config=rendered.config)\n            yield (",
            "            rule_pack = self.linter.get_rulepack(config=self.config)\n            yield (", "R19a", "iter_partials"),
    Variant("parallel-pack-from-root-config", RUNNER,
            "                rule_pack = linter.get_rulepack(config=rendered.config)\n                return Linter.lint_rendered",
            "                rule_pack = linter.get_rulepack(config=task.root_config)\n                return Linter.lint_rendered", "R19a", "_apply"),
    Variant("parallel-pack-default-config", RUNNER,
            "                rule_pack = linter.get_rulepack(config=rendered.config)\n                return Linter.lint_rendered",
            "                rule_pack = linter.get_rulepack()\n                return Linter.lint_rendered", "R19a", "_apply"),
    Variant("lint_parsed-config-from-linter", LINTER,
            "            ) = cls.lint_fix_parsed(\n                root_variant.tree,\n                config=parsed.config,",
            "            ) = cls.lint_fix_parsed(\n                root_variant.tree,\n                config=rule_pack.config if hasattr(rule_pack, 'config') else parsed.config,", "R19a", "lint_parsed"),
    Variant("parse_rendered-drops-file-config", LINTER,
            "            config=rendered.config,\n            fname=rendered.fname,\n            source_str=rendered.source_str,",
            "            config=rendered.config.copy() if False else cls.__dict__.get('_cfg', rendered.config),\n            fname=rendered.fname,\n            source_str=rendered.source_str,", "R19a", "parse_rendered"),
    Variant("path-config-not-child", LINTER,
            "        file_config = root_config.make_child_from_path(fname)\n",
            "        file_config = root_config.copy()\n", "R19b", "load_raw_file_and_config"),
    Variant("path-inline-config-not-processed", LINTER,
            "        file_config.process_raw_file_for_config(raw_file, fname)\n        # Return the raw file and config",
            "        # Return the raw file and config", "R19b", "load_raw_file_and_config"),
    Variant("string-inline-config-not-processed", LINTER,
            "        config.process_raw_file_for_config(in_str, fname)\n        rendered = self.render_string(in_str, fname, config, encoding)",
            "        rendered = self.render_string(in_str, fname, config, encoding)", "R19b", "parse_string"),
    Variant("lint-stdin-filename-config-dropped", CLI,
            "            if stdin_filename:\n                lnt.config = lnt.config.make_child_from_path(\n                    stdin_filename, require_dialect=False\n                )\n            result = lnt.lint_string_wrapped(",
            "            result = lnt.lint_string_wrapped(", "R19b", "lint"),
    Variant("format-stdin-filename-config-dropped", CLI,
            "            if stdin_filename:\n                lnt.config = lnt.config.make_child_from_path(\n                    stdin_filename, require_dialect=False\n                )\n            _stdin_fix(\n                lnt, formatter, fix_even_unparsable=False",
            "            _stdin_fix(\n                lnt, formatter, fix_even_unparsable=False", "R19b", None),
    Variant("paths-fix-unfixable-before-discard", CLI,
            "    exit_code = _handle_unparsable(fix_even_unparsable, exit_code, result, formatter)\n\n    # NB: We filter to linting violations here",
            "    num_unfixable = sum(p.num_unfixable_lint_errors for p in result.paths)\n    exit_code = _handle_unparsable(fix_even_unparsable, exit_code, result, formatter)\n\n    # NB: We filter to linting violations here",
            "R19c", "_paths_fix"),
]
