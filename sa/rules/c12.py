"""C12 — fixes are lexically stable (decided clause: whitespace deletion asked for by the DEFAULT
layout configuration never joins two tokens that the dialect's lexer table reads differently
once they touch).

The respacing code (``ReflowPoint.respace_point``, used by LT01 and by every rule that calls
``ReflowSequence.respace``) removes ALL whitespace between two code tokens of one line exactly
under the ``touch`` spacing constraint (``spacing_before`` / ``spacing_after`` /
``spacing_within`` = ``touch`` or ``touch:inline`` in ``[sqlfluff:layout:type:*]`` of
``core/default_config.cfg``; R12c checks that the code still works that way; its other deletions -
trailing whitespace before a newline or the end of the file - leave no second token behind).  Which
pairs of tokens can meet such a constraint is a property of each dialect's *grammar* (which
leaf may follow which, what their types and their parents' types are) and of the configuration;
whether the joined text still lexes as the same two tokens is a property of the dialect's
ordered *lexer table*.  All three are declared data of the analysed tree:

R12a  (exhaustive) for every dialect of the lookup and every ordered pair (a, b) of leaf tokens
      with FIXED texts (``StringParser``/``MultiStringParser`` templates without letters,
      ``TypedParser`` over ``StringLexer`` / finite-language ``RegexLexer`` matchers, and the same
      for raw lexer tokens left in the tree by ``Anything``) that the grammar lets follow each
      other with a gap and between which the default configuration asks for no whitespace
      (``sa/lexglue.Adjacency``, an over-approximation of the real adjacency): the dialect's
      matcher table applied to ``text(a) + text(b)`` must give the two tokens it gives for
      ``text(a) + " " + text(b)`` (same boundaries, same matchers).
R12b  (exhaustive) keywords: every grammar junction at which the configuration asks two
      keyword tokens (templates with letters) to touch - in practice a segment class whose
      type has ``spacing_within = touch`` and whose grammar puts two keywords side by side - is
      evaluated on all keyword pairs of that junction; the joined text must not be read as one
      word.
R12c  the reflow code has the shape the touch relation assumes: (1) in
      ``handle_respace__inline_with_space`` whitespace is deleted only where a side is
      ``touch`` and no side is ``any``; (2) ``determine_constraints`` takes the constraint before the
      gap from the previous block's ``spacing_after`` and the one after it from the next block's
      ``spacing_before``, forces ``touch`` only under ``spacing_within == touch`` and not over
      ``any``, and reads ``spacing_within`` of the IMMEDIATE common parent; (3) newline stripping is
      switched off whenever either neighbouring block holds a comment (otherwise code is pulled
      into a ``--`` comment); (4) ``ReflowConfig.get_block_config`` claims a parent's
      ``spacing_before`` / ``spacing_after`` only while the token is at the start / end of that
      parent and applies the token's own types last; (5) ``PyLexer.lex_match`` takes the FIRST
      matcher of the table that matches and ``RegexLexer`` matches with ``DOTALL`` only.

R12d  text that RF06 may write lexes back as one identifier token.  ``Rule_RF06`` replaces a quoted
      identifier by its bare contents when they ``regex.fullmatch`` the ``template`` of the dialect's
      library entry ``NakedIdentifierSegment`` (``IGNORECASE``), do not fullmatch its ``anti_template``
      and equal their own casefold (the entry, the flags and the dialects exempt from the casefold
      test are read from ``rules/references/RF06.py``).  For every dialect the declared template /
      anti-template and the dialect's lexer table are EVALUATED (``regex`` module) on generated
      candidate strings: every ASCII character 33..126 and a sample of non-ASCII letters/digits,
      alone and before / after / inside a plain word, plus all strings of length <= 3 over
      {Q, q, E, e, 0, 1, _} and the admitted ASCII symbols.  Every candidate the entry admits must
      be read by the lexer table as ONE token of the matcher(s) that read a plain word.  Decided
      on these candidates only (ASCII exhaustive per character; longer interactions not);
      patterns that do not compile or admit no plain word are counted, never alarmed.

How the data is obtained: the grammar object graph and the lexer tables come from the grammar
front-end (``sa/grammar_frontend.py``: imports the dialect modules and serialises the objects;
never lexes or parses).  The serialised pattern STRINGS of a dialect's matcher table are compiled
with the ``regex`` module (the library ``RegexLexer`` uses) and applied to the concatenation of two
token texts taken from the tables themselves; no SQL input is lexed, parsed, linted or fixed through
sqlfluff, and no rule is run.  This is the regex counterpart of evaluating a literal and is said
here so that nobody mistakes it for a dynamic test.

Findings are keyed by (joined texts, what the table reads instead) with the dialects listed in
the detail and the grammar sites in the message: one finding per cause, not per dialect.

Not decided: configurations other than the default; three-token effects (a b c all touching);
touch pairs with a variable-text side (identifiers, numbers, quoted and typed tokens with an
infinite language: counted, ~40 % of all touch pairs - e.g. '. 5' -> '.5', a stage path followed
by ',', two adjacent string literals inside a within-touch segment); rules that build text
themselves (CV10 quote swaps, CP/CV/ST rewrites, ST08 bracket removal, rebreak moving operators
across lines, ``fix_even_unparsable``); that the adjacency over-approximation contains no
infeasible pair (every pair reported on the unchanged tree was reproduced against the real
linter before it was reported).
"""

from __future__ import annotations

import ast
from typing import Dict, List, Optional, Sequence, Set, Tuple

from .. import rx
from ..cfg import cfg_of, origins
from ..grammar import load_grammar
from ..grammar_analyses import Kinds
from ..idioms import conditions_at
from ..index import AnalysisError, calls_in, const, kwarg, last_attr, norm, walk_local
from ..lexglue import Adjacency, LayoutConfig, LexTable, spacing_class
from ..selftest import QUIET, Variant

SELFTEST_NEEDS_FILES = True

RESPACE = "src/sqlfluff/utils/reflow/respace.py"
REFLOW_CONFIG = "src/sqlfluff/utils/reflow/config.py"
LEXER = "src/sqlfluff/core/parser/lexer.py"
DIALECT_DIR = "src/sqlfluff/dialects"

MAX_JUNCTION_WORDS = 60  # concrete keywords evaluated per side of a keyword-keyword junction


# -- lexer table helpers ---------------------------------------------------------------------


def finite_texts(rec: dict) -> Optional[Tuple[str, ...]]:
    """All texts a lexer matcher can produce, when that is a finite assertion-free language.
    (A matcher with a sub-divider splits its match: its token texts are not its language.)"""
    if rec.get("subdivider") or rec.get("trim_post_subdivide"):
        return None
    if rec["kind"] == "StringLexer":
        return (rec["template"],)
    p = rx.parse(rec["template"])
    if p is None:
        return None
    items = p.items()
    if any(op in (rx.ASSERT, rx.ASSERT_NOT, rx.AT) or op in (rx.GROUPREF, rx.GROUPREF_EXISTS) for op, av in rx.walk(items)):
        return None
    lang = rx.finite_language(items)
    if lang is None:
        return None
    lang.discard("")
    return tuple(sorted(lang)) if lang else None


# -- per dialect ---------------------------------------------------------------------------------


class DialectCheck:
    def __init__(self, label: str, d, g, kinds: Kinds, cfg: LayoutConfig):
        self.label = label
        self.d = d
        self.adj = Adjacency(d, g, kinds, cfg, finite_texts)
        self.table = LexTable(d.lexer)
        self._memo: Dict[str, List[Tuple[str, str]]] = {}

    def lex(self, s: str) -> List[Tuple[str, str]]:
        r = self._memo.get(s)
        if r is None:
            r = self.table.lex(s)
            self._memo[s] = r
        return r

    def relex(self, ta: str, tb: str):
        """None: (ta, tb) is not a pair of tokens of this table even with a space between;
        else (stable, what the table reads for ta+tb)."""
        ref = self.lex(ta + " " + tb + " ")
        if len(ref) != 4 or ref[0][0] != ta or ref[2][0] != tb or ref[1][0] != " " or ref[3][0] != " ":
            return None
        glued = self.lex(ta + tb + " ")
        if glued[:2] == [ref[0], ref[2]]:
            return True, ()
        # what is read instead, without the trailing space we appended
        toks = list(glued)
        if toks and toks[-1][0] == " ":
            toks.pop()
        elif toks and toks[-1][0].endswith(" "):
            toks[-1] = (toks[-1][0][:-1], toks[-1][1])
        return False, tuple(toks)

    def single_token(self, text: str) -> Optional[str]:
        r = self.lex(text + " ")
        if len(r) == 2 and r[0][0] == text and r[1][0] == " ":
            return r[0][1]
        return None


def _show_tokens(toks: Sequence[Tuple[str, str]]) -> str:
    return " ".join(f"{t!r}:{m}" for t, m in toks) if toks else "(nothing)"


class Family:
    """All instances of one cause: texts (ta, tb) and what the tables read for ta+tb."""

    def __init__(self, ta: str, tb: str, read: Tuple[Tuple[str, str], ...], rule: str):
        self.ta, self.tb, self.read, self.rule = ta, tb, read, rule
        self.dialects: Dict[str, List[str]] = {}
        self.site: Optional[str] = None  # R12b: the segment class whose keywords are joined
        self.home: Tuple[Optional[str], Optional[int]] = (None, None)

    @property
    def swallower(self) -> str:
        return self.read[0][1] if self.read else "?"

    def add(self, label: str, how: str) -> None:
        self.dialects.setdefault(label, [])
        if how not in self.dialects[label] and len(self.dialects[label]) < 3:
            self.dialects[label].append(how)


def _matcher_home(repo, g, fam: Family) -> Tuple[str, str]:
    """(construct, loc) of the matcher that takes the joined text: the dialect module that
    declares a lexer matcher of that name (first dialect of the family that has one)."""
    name = fam.swallower
    for label in sorted(fam.dialects):
        d = g[label]
        chain = []
        cur = d
        seen = set()
        while cur is not None and cur.label not in seen:
            seen.add(cur.label)
            chain.append(cur)
            parent = cur.inherits_from
            cur = next((x for x in g.values() if x.name == parent), None) if parent else None
        for dd in reversed(chain):  # base dialect first
            if not dd.module:
                continue
            try:
                m = repo.mod(dd.module)
            except AnalysisError:
                continue
            for c in ast.walk(m.tree):
                if isinstance(c, ast.Call) and last_attr(c) in ("RegexLexer", "StringLexer") and c.args and const(c.args[0]) == name:
                    return f"{dd.module}::lexer:{name}", f"{dd.module}:{c.lineno}"
    return f"{DIALECT_DIR}::lexer:{name}", DIALECT_DIR


# -- the run -------------------------------------------------------------------------------------


def _r12e(chk, repo) -> None:
    """``handle_respace__inline_without_space``: when one neighbour of the gap is itself a pending insertion the
    needed whitespace is put into that fix's edit list.  On the wrong end it separates nothing
    (`a =NULL` -> CV05 -> `a  ISNULL`)."""
    from ..index import short

    f = repo.fn("src/sqlfluff/utils/reflow/respace.py", "handle_respace__inline_without_space")
    cfg = cfg_of(f)
    # 1. which label stands for which side: the label assigned next to `insertion = prev_block...[-1]` / `next_block...[0]`
    side_of: Dict[str, str] = {}
    flag = None
    for st in walk_local(f):
        if isinstance(st, ast.Assign) and len(st.targets) == 1 and isinstance(st.targets[0], ast.Name) and isinstance(st.value, ast.Constant) and isinstance(st.value.value, str):
            par = getattr(st, "_parent", None)
            sibs = getattr(par, "body", []) if par is not None and st in getattr(par, "body", []) else (getattr(par, "orelse", []) if par is not None else [])
            for other in sibs:
                if isinstance(other, ast.Assign) and other is not st and isinstance(other.value, ast.Subscript):
                    t = norm(other.value)
                    if "prev_block" in t and t.endswith("[-1]"):
                        side_of[st.value.value] = "end"
                        flag = st.targets[0].id
                    elif "next_block" in t and t.endswith("[0]"):
                        side_of[st.value.value] = "start"
                        flag = st.targets[0].id
    if flag is None or set(side_of.values()) != {"start", "end"}:
        raise AnalysisError("R12e: cannot find the two branches that pick the pending insertion (prev_block...[-1] / next_block...[0]) with their labels; re-confirm the anchor by hand")

    def label_known(st, extra=()):
        out = []
        for e, pol in list(conditions_at(cfg, st)) + list(extra):
            if isinstance(e, ast.Compare) and len(e.ops) == 1 and isinstance(e.left, ast.Name) and e.left.id == flag and isinstance(e.comparators[0], ast.Constant):
                c0 = e.comparators[0].value
                if (isinstance(e.ops[0], ast.Eq) and pol):
                    out.append(c0)
                elif (isinstance(e.ops[0], ast.NotEq) and not pol):
                    out.append(c0)
                elif (isinstance(e.ops[0], ast.Eq) and not pol) or (isinstance(e.ops[0], ast.NotEq) and pol):
                    rest = [k for k in side_of if k != c0]
                    if len(rest) == 1:
                        out.append(rest[0])
        return sorted(set(out))

    def is_ws(e) -> bool:
        return any(isinstance(x, ast.Name) and "whitespace" in x.id for x in ast.walk(e))

    n = 0
    pairs: List[Tuple[str, str, ast.AST]] = []
    unknown: List[ast.AST] = []
    for st in walk_local(f):
        # fix.edit = [ws] + fix.edit   /   fix.edit = fix.edit + [ws]
        if isinstance(st, ast.Assign) and len(st.targets) == 1 and isinstance(st.targets[0], ast.Attribute) and st.targets[0].attr == "edit" and isinstance(st.value, ast.BinOp) and isinstance(st.value.op, ast.Add):
            l, r = st.value.left, st.value.right
            pos = "start" if is_ws(l) and not is_ws(r) else ("end" if is_ws(r) and not is_ws(l) else None)
            labs = label_known(st)
            if pos is None or len(labs) != 1:
                unknown.append(st)
            else:
                pairs.append((labs[0], pos, st))
        # fix.edit.insert(i, ws) / fix.edit.append(ws)
        elif isinstance(st, ast.Expr) and isinstance(st.value, ast.Call) and isinstance(st.value.func, ast.Attribute) and st.value.func.attr in ("insert", "append") \
                and isinstance(st.value.func.value, ast.Attribute) and st.value.func.value.attr == "edit" and any(is_ws(a) for a in st.value.args):
            c = st.value
            if c.func.attr == "append":
                labs = label_known(st)
                (pairs.append((labs[0], "end", st)) if len(labs) == 1 else unknown.append(st))
                continue
            idx = c.args[0]
            def pos_of(e):
                if isinstance(e, ast.Constant) and e.value == 0:
                    return "start"
                if isinstance(e, ast.Call) and isinstance(e.func, ast.Name) and e.func.id == "len":
                    return "end"
                return None
            if isinstance(idx, ast.IfExp):
                for arm, pol in ((idx.body, True), (idx.orelse, False)):
                    labs = label_known(st, extra=[(idx.test, pol)])
                    p_ = pos_of(arm)
                    (pairs.append((labs[-1], p_, st)) if labs and p_ else unknown.append(st))
            else:
                labs = label_known(st)
                p_ = pos_of(idx)
                (pairs.append((labs[0], p_, st)) if len(labs) == 1 and p_ else unknown.append(st))
    for lab, pos, st in pairs:
        n += 1
        chk.require(
            side_of.get(lab) == pos, "R12e", st,
            f"with the pending insertion at the {'end of the previous block' if side_of.get(lab) == 'end' else 'start of the next block'} (label {lab!r}) the added whitespace is put at the "
            f"{pos} of the fix's edit list: it ends up on the far side of the inserted segment, which is then glued to its neighbour (`a =NULL` -> `a  ISNULL`)",
            detail=f"respace: whitespace added on the gap side of a pending insertion ({lab})",
        )
    for st in unknown:
        chk.fail("R12e", st, f"cannot establish on which side of the pending insertion `{short(st, 60)}` puts the added whitespace", detail="respace: side of the added whitespace is decidable")
    chk.count("R12e.whitespace_additions_to_a_pending_fix", n)
    chk.require({lab for lab, _, _ in pairs} >= set(side_of), "R12e", f, "not every kind of pending insertion gets the added whitespace", detail="respace: both sides handled")


_R12F_KEEP = ("select", "children", "list", "tuple", "cast", "fromkeys", "filter_meta", "copy")


def _r12f_parity(cfg, e, at, depth: int = 0, seen=None) -> Set[int]:
    """Net number (mod 2) of order reversals between the tree and sequence expression ``e``, over all reaching values."""
    seen = seen if seen is not None else set()
    if e is None or depth > 8:
        return {0}
    if isinstance(e, ast.Name):
        out: Set[int] = set()
        for o in origins(cfg, e, at):
            if o.kind == "expr" and isinstance(o.expr, ast.AST) and not o.path and id(o.expr) not in seen:
                seen.add(id(o.expr))
                out |= _r12f_parity(cfg, o.expr, o.stmt if o.stmt is not None else at, depth + 1, seen)
        return out or {0}
    if isinstance(e, ast.Call):
        la = last_attr(e)
        if la == "reversed":
            inner = e.func.value if isinstance(e.func, ast.Attribute) else (e.args[0] if e.args else None)
            return {1 - p for p in _r12f_parity(cfg, inner, at, depth + 1, seen)}
        if la == "sorted":
            return {0}  # a new order altogether: not a reversal of the source order (judged elsewhere)
        if la in _R12F_KEEP:
            inner = e.func.value if isinstance(e.func, ast.Attribute) and la in ("select", "children", "copy") else (e.args[-1] if e.args else None)
            if la == "filter_meta" and e.args:
                inner = e.args[0]
            return _r12f_parity(cfg, inner, at, depth + 1, seen)
        return {0}
    if isinstance(e, ast.Subscript) and isinstance(e.slice, ast.Slice):
        st = e.slice.step
        neg = isinstance(st, ast.UnaryOp) and isinstance(st.op, ast.USub) and isinstance(st.operand, ast.Constant) and st.operand.value == 1
        ps = _r12f_parity(cfg, e.value, at, depth + 1, seen)
        return {1 - p for p in ps} if neg else ps
    if isinstance(e, (ast.List, ast.Tuple)):
        out = set()
        for x in e.elts:
            if isinstance(x, ast.Starred):
                out |= _r12f_parity(cfg, x.value, at, depth + 1, seen)
        return out or {0}
    if isinstance(e, ast.BinOp) and isinstance(e.op, ast.Add):
        return _r12f_parity(cfg, e.left, at, depth + 1, seen) | _r12f_parity(cfg, e.right, at, depth + 1, seen)
    if isinstance(e, ast.IfExp):
        return _r12f_parity(cfg, e.body, at, depth + 1, seen) | _r12f_parity(cfg, e.orelse, at, depth + 1, seen)
    if isinstance(e, (ast.ListComp, ast.GeneratorExp)):
        return _r12f_parity(cfg, e.generators[0].iter, at, depth + 1, seen)
    return {0}


def _r12f(chk, repo) -> None:
    from .. import editlists as _edits
    from ..index import qualname, short

    n = n_rev = 0
    for s in _edits.sites(repo):
        if s.arg is None:
            continue
        n += 1
        cfg = cfg_of(s.f)
        st = cfg.stmt_of(s.call)
        ps = _r12f_parity(cfg, s.arg, st) if st is not None else {0}
        if any(isinstance(x, ast.Call) and last_attr(x) == "reversed" for x in ast.walk(s.f)):
            n_rev += 1
        q = qualname(s.f)
        chk.require(
            1 not in ps, "R12f", s.call,
            f"{q} re-creates tree segments in reversed order: the edit `{short(s.arg, 60)}` derives from a backwards scan (.reversed() / reversed() / [::-1]) that is not turned round again, so e.g. "
            "an inline comment and the newline that ended it swap places and the comment swallows the code that follows when the fixed text is lexed again",
            detail=f"{q}: segments re-created in source order",
        )
    chk.count("R12f.edit_sites", n)
    chk.count("R12f.sites_in_functions_that_scan_backwards", n_rev)
    chk.floor("R12f.edit_sites", 60)


def run(chk) -> None:
    repo = chk.repo
    chk.rule("R12a", "for every dialect and every pair of fixed-text leaf tokens that the grammar lets follow each other with a gap and the default layout configuration asks to touch, the dialect's lexer table reads the joined text as the same two tokens (exhaustive over the serialised grammars, lexer tables and the default configuration)")
    chk.rule("R12b", "no grammar junction asks two keywords to touch (spacing_within/before/after = touch reaching both sides): every keyword pair of every such junction is read by the lexer table as the same two tokens")
    chk.rule("R12c", "the reflow code deletes whitespace only under touch-and-not-any, derives the constraints from spacing_after of the previous / spacing_before of the next block and spacing_within of the immediate common parent, never strips a newline next to a comment, claims parent spacing only at the parent's edges with own types last; the lexer takes the first matcher that matches")
    chk.rule("R12d", "every candidate text that the dialect's NakedIdentifierSegment entry admits (template fullmatch, IGNORECASE, minus anti_template, casefold-stable: what RF06 unquotes) is read by the dialect's lexer table as one token of the matcher that reads a plain word (ASCII characters exhaustively, alone and in word context; all strings up to length 3 over a representative alphabet)")
    chk.rule("R12e", "a space that respace adds to an already pending insertion goes on the side of the gap: after the inserted segment when that segment ends the previous block, before it when it starts the next block")
    _r12e(chk, repo)
    chk.rule("R12f", "segments taken from the tree and re-created by a create / replace fix keep their source order: on every value that reaches the edit list of a LintFix built in rules/ or utils/, backwards scans (.reversed(), reversed(), [::-1]) cancel out in pairs")
    _r12f(chk, repo)
    in_selftest = getattr(chk, "in_selftest", False)
    rf06 = _rf06_facts(repo)
    cfg = LayoutConfig.of_repo(repo)
    chk.count("layout.sections", cfg.n_sections)
    chk.count("layout.types_with_spacing", len(cfg.types))
    chk.floor("layout.sections", 30)
    chk.floor("layout.types_with_spacing", 20)
    touch_types = sorted(t for t, e in cfg.types.items() if any(spacing_class(v) == "T" for v in e.values()))
    chk.count("layout.types_with_touch", len(touch_types))
    chk.floor("layout.types_with_touch", 10)

    _r12c(chk, repo)

    g = load_grammar(repo, cache=not in_selftest, rebuild=(chk.tier == "thorough" and not in_selftest))
    kinds = Kinds(g)
    chk.note(f"grammar front-end: {len(g)} dialects, {g.n_nodes} nodes ({'cache' if g.from_cache else 'rebuilt'}); default layout: {cfg.n_sections} type sections, {len(touch_types)} with a touch constraint.")
    families: Dict[tuple, Family] = {}
    d_findings: List[dict] = []
    n_ok = 0
    unknown_raw: Set[str] = set()
    for label in sorted(g):
        d = g[label]
        if not d.ok or d.root is None or not d.lexer:
            chk.count("dialects_skipped")  # a dialect that does not load is C29's finding
            continue
        dc = DialectCheck(label, d, g, kinds, cfg)
        adj = dc.adj
        unknown_raw |= adj.unknown_raw_classes
        chk.count("dialects")
        chk.count("leaves", len(adj.leaves))
        chk.count("junctions_with_gap", adj.n_junctions)
        chk.count("junctions_without_gap", adj.n_gapless)
        chk.count("wild_nodes", adj.n_wild_nodes)
        n_pairs = n_fixed = n_unreal = n_var = n_kw = 0
        for a, b in adj.touch_pairs():
            n_pairs += 1
            if a.texts is None or b.texts is None:
                n_var += 1
                continue
            for ta in a.texts:
                for tb in b.texts:
                    n_fixed += 1
                    r = dc.relex(ta, tb)
                    if r is None:
                        n_unreal += 1
                    elif r[0]:
                        n_ok += 1
                    else:
                        key = ("R12a", ta, tb, r[1])
                        fam = families.get(key)
                        if fam is None:
                            fam = families[key] = Family(ta, tb, r[1], "R12a")
                        fam.add(label, f"{a.show()} {b.show()} @ {adj.explain(a, b)}")
        for x, y, owner, how, acls, bcls in adj.word_junctions:
            aw = sorted({t for t, c in adj.edge_words(x, False) if c in acls})[:MAX_JUNCTION_WORDS]
            bw = sorted({t for t, c in adj.edge_words(y, True) if c in bcls})[:MAX_JUNCTION_WORDS]
            if not aw or not bw:
                continue
            chk.count("keyword_junctions")
            on = adj.nodes[owner]
            site = adj.name_of(owner)
            where = adj.site(x, y, owner, how)
            bad = None
            for ta in aw:
                for tb in bw:
                    n_kw += 1
                    r = dc.relex(ta, tb)
                    if r is not None and not r[0] and bad is None:
                        bad = (ta, tb, r[1])
                    elif r is not None and r[0]:
                        n_ok += 1
            if bad is not None:
                key = ("R12b", site, tuple(m for _, m in bad[2]))
                fam = families.get(key)
                if fam is None:
                    fam = families[key] = Family(bad[0], bad[1], bad[2], "R12b")
                    fam.site = site
                    fam.home = (on.get("module"), on.get("line"))
                fam.add(label, where)
        _r12d_dialect(chk, repo, g, dc, rf06, d_findings)
        chk.count("touch_pairs", n_pairs)
        chk.count("fixed_text_pairs_evaluated", n_fixed)
        chk.count("fixed_text_pairs_not_tokens", n_unreal)
        chk.count("variable_text_pairs_not_decided", n_var)
        chk.count("keyword_pairs_evaluated", n_kw)
        chk.count("lexer_evaluations", dc.table.evaluations)
        if label in ("ansi", "postgres", "tsql"):
            ex = next(((a, b) for a, b in adj.touch_pairs() if a.texts and b.texts and a.origin == b.origin == "parser"), None)
            if ex:
                chk.sample({"rule": "R12a", "dialect": label, "pair": [ex[0].show(), ex[1].show()], "site": adj.explain(*ex),
                            "joined_reads_as": _show_tokens(dc.lex(ex[0].texts[0] + ex[1].texts[0]))})
    chk.obligations += n_ok
    chk.discharged += n_ok
    if unknown_raw:
        raise AnalysisError(f"raw segment classes without serialised class types: {sorted(unknown_raw)} (their layout types would be missed)")
    chk.floor("dialects", 20 if not in_selftest else 1)
    chk.floor("touch_pairs", 5000)
    chk.floor("fixed_text_pairs_evaluated", 5000)
    chk.exhaustive = True
    chk.note("R12a/R12b enumerate every touch pair of every dialect (an over-approximation of the real adjacency); pairs with a variable-text side "
             "(identifiers, literals, typed tokens with an infinite language) are counted as not decided.")

    for key in sorted(families, key=str):
        fam = families[key]
        labels = sorted(fam.dialects)
        sites = "; ".join(f"{lb}: {fam.dialects[lb][0]}" for lb in labels[:3])
        if fam.rule == "R12b":
            mod, line = fam.home
            construct = f"{mod or DIALECT_DIR}::{fam.site}"
            loc = f"{mod}:{line}" if mod else DIALECT_DIR
            detail = f"keywords of {fam.site} asked to touch -> {' '.join(m for _, m in fam.read) or '(nothing)'} (e.g. {fam.ta}+{fam.tb}); dialects: {', '.join(labels)}"
            msg = (f"the default layout asks keywords inside {fam.site} to touch ({sites}); e.g. {fam.ta!r} {fam.tb!r} "
                   f"becomes {fam.ta + fam.tb!r}, which the lexer table reads as {_show_tokens(fam.read)}")
        else:
            construct, loc = _matcher_home(repo, g, fam)
            detail = f"{fam.ta!r}+{fam.tb!r} -> {_show_tokens(fam.read)}; dialects: {', '.join(labels)}"
            msg = (f"the default layout deletes the whitespace between {fam.ta!r} and {fam.tb!r} ({len(labels)} dialect(s); {sites}); "
                   f"the joined text {fam.ta + fam.tb!r} is read as {_show_tokens(fam.read)} instead of the two tokens")
        # one finding per (pair, dialect): a known finding then covers exactly the dialects it was recorded for --
        # the same gluing appearing in another dialect, or remaining in some after a partial repair, keeps its own key
        base = detail.split("; dialects: ")[0]
        for lb in labels:
            chk.fail(fam.rule, None, msg + f" [dialect {lb}: {fam.dialects[lb][0]}]", detail=f"{base}; dialect={lb}", construct=construct, loc=loc,
                     extra={"dialect": lb, "sites": fam.dialects[lb][:3], "all_dialects": labels})


    chk.floor("R12d.dialects_evaluated", 20 if not in_selftest else 1)
    chk.floor("R12d.candidates_admitted", 2000 if not in_selftest else 50)
    for f_ in d_findings:
        chk.fail("R12d", None, f_["message"], detail=f_["detail"], construct=f_["construct"], loc=f_["loc"], extra=f_["extra"])


# -- R12d: what RF06 may unquote lexes back as one identifier token ---------------------------------------

RF06 = "src/sqlfluff/rules/references/RF06.py"
PROBE_ASCII = [chr(c) for c in range(33, 127)]
PROBE_OTHER = ["\u00e9", "\u00df", "\u00d8", "\u0416", "\u03bb", "\u4e2d", "\u0663", "\u00b2", "\u00aa", "\u0130", "\u017f", "\u212a"]
WORD_SEEDS = ("QZ", "qz", "Qz")
REP_CHARS = ("Q", "q", "E", "e", "0", "1", "_")


def _rf06_facts(repo) -> dict:
    """Which library entry RF06 consults, that it decides by fullmatch with IGNORECASE, and which
    dialects are exempt from the casefold test (all read from the rule's source)."""
    f = repo.fn(RF06, "Rule_RF06._eval")
    keys = []
    for n in ast.walk(f):
        if isinstance(n, ast.Subscript) and isinstance(n.value, ast.Attribute) and n.value.attr == "_library" and isinstance(const(n.slice), str):
            keys.append(const(n.slice))
    if len(set(keys)) != 1:
        raise AnalysisError(f"RF06._eval: expected one dialect._library[<name>] look-up, found {sorted(set(keys))}; read the rule again")
    fm = [c for c in calls_in(f) if last_attr(c) == "fullmatch"]
    reads = set()
    for c in fm:
        if len(c.args) < 2:
            continue
        flag = c.args[2] if len(c.args) > 2 else kwarg(c, "flags")
        if not (isinstance(flag, ast.Attribute) and flag.attr in ("IGNORECASE", "I")):
            raise AnalysisError("RF06._eval: a fullmatch without exactly regex.IGNORECASE; R12d evaluates the patterns with IGNORECASE")
        for a in ast.walk(c.args[0]):
            if isinstance(a, ast.Attribute) and a.attr in ("template", "anti_template"):
                reads.add(a.attr)
        if isinstance(c.args[0], ast.Name):
            cfg = cfg_of(f)
            for o in origins(cfg, c.args[0], cfg.stmt_of(c)):
                if isinstance(o.expr, ast.AST):
                    for a in ast.walk(o.expr):
                        if isinstance(a, ast.Attribute) and a.attr in ("template", "anti_template"):
                            reads.add(a.attr)
    if reads != {"template", "anti_template"}:
        raise AnalysisError(f"RF06._eval no longer decides by fullmatch of the parser's template and anti_template (found {sorted(reads)}); read the rule again")
    exempt: Set[str] = set()
    for n in ast.walk(f):
        if isinstance(n, ast.Compare) and len(n.ops) == 1 and isinstance(n.ops[0], ast.In) and isinstance(n.left, ast.Attribute) and n.left.attr == "name" \
                and isinstance(n.comparators[0], (ast.Tuple, ast.List, ast.Set)):
            vals = [const(e) for e in n.comparators[0].elts]
            if all(isinstance(v, str) for v in vals):
                exempt |= set(vals)
    return {"entry": keys[0], "casefold_exempt": exempt}


def _entry_home(repo, g, d, name: str) -> Tuple[str, str]:
    """The most derived dialect module of ``d``'s inheritance chain that sets library entry ``name``."""
    cur = d
    seen = set()
    while cur is not None and cur.label not in seen:
        seen.add(cur.label)
        if cur.module:
            try:
                m = repo.mod(cur.module)
            except AnalysisError:
                m = None
            if m is not None:
                for n in ast.walk(m.tree):
                    if isinstance(n, ast.keyword) and n.arg == name:
                        return f"{cur.module}::{name}", f"{cur.module}:{n.value.lineno}"
        parent = cur.inherits_from
        cur = next((x for x in g.values() if x.name == parent), None) if parent else None
    return f"{d.module or DIALECT_DIR}::{name}", d.module or DIALECT_DIR


def _r12d_dialect(chk, repo, g, dc: "DialectCheck", rf06: dict, out: List[dict]) -> None:
    import regex as rx_mod

    d = dc.d
    label = dc.label
    entry = rf06["entry"]
    i = d.library.get(entry)
    if i is None:
        chk.count("R12d.dialects_without_entry")
        return
    n = d.nodes[i]
    if not (dc.adj.g.kind_is(n["kind"], "RegexParser") and isinstance(n.get("template"), str)):
        chk.count("R12d.entry_not_a_regex_parser")
        return
    try:
        tm = rx_mod.compile(n["template"], rx_mod.IGNORECASE)
        anti = rx_mod.compile(n["anti_template"], rx_mod.IGNORECASE) if n.get("anti_template") else None
    except Exception:
        chk.count("R12d.patterns_unknown")
        return
    fold = None
    cf = str(n.get("casefold") or "")
    if label not in rf06["casefold_exempt"]:
        if "upper" in cf:
            fold = str.upper
        elif "lower" in cf:
            fold = str.lower
        elif cf:
            chk.count("R12d.casefold_unknown")
            return

    def admitted(s_: str) -> bool:
        if not tm.fullmatch(s_):
            return False
        if anti is not None and anti.fullmatch(s_):
            return False
        return fold is None or s_ == fold(s_)

    seeds = [w for w in WORD_SEEDS if admitted(w) and dc.single_token(w) is not None]
    if not seeds:
        chk.count("R12d.no_plain_word_admitted")
        return
    word = seeds[0]
    kinds_ok = {dc.single_token(w) for w in seeds}
    chk.count("R12d.dialects_evaluated")
    construct, loc = _entry_home(repo, g, d, entry)
    n_adm = 0
    bad_chars: Dict[tuple, Tuple[str, list, list]] = {}
    ok_symbols: List[str] = []

    def reading(s_: str):
        r = dc.lex(s_ + " ")
        if r and r[-1][0] == " ":
            r = r[:-1]
        elif r and r[-1][0].endswith(" "):
            r = r[:-1] + [(r[-1][0][:-1], r[-1][1])]
        return r

    # a single token of another matcher is still "one identifier token" unless some typed parser of the
    # grammar claims that token kind (numeric_literal ...): then the text changes kind
    claimed = {dc.adj.nodes[j].get("template") for j in dc.adj.reachable
               if dc.adj.role[j] == "parser" and dc.adj.g.kind_is(dc.adj.nodes[j]["kind"], "TypedParser")}

    def stable(s_: str) -> bool:
        m = dc.single_token(s_)
        if m is None:
            return False
        return m in kinds_ok or not (dc.adj.matcher_types.get(m, frozenset()) & claimed)

    def char_class(c_: str) -> str:
        if ord(c_) > 126:
            return "non-ASCII character"
        if c_.isdigit():
            return "digit"
        if c_.isalpha():
            return "letter"
        return f"character {c_!r}"

    for c in PROBE_ASCII + PROBE_OTHER:
        forms = [f_ for f_ in (c, word + c, c + word, word + c + word) if admitted(f_)]
        if fold is not None and not forms:
            c2 = fold(c)
            forms = [f_ for f_ in (c2, word + c2, c2 + word, word + c2 + word) if admitted(f_)]
        if not forms:
            continue
        chk.count("R12d.characters_admitted")
        n_adm += len(forms)
        failing = [f_ for f_ in forms if not stable(f_)]
        if failing:
            r_ = reading(failing[0])
            k_ = (char_class(c), tuple(m for _, m in r_))
            if k_ not in bad_chars:
                bad_chars[k_] = (failing[0], r_, [])
            bad_chars[k_][2].append(c)
        elif not c.isalnum() and c != "_" and ord(c) < 127:
            ok_symbols.append(c)
    shapes: Dict[tuple, Tuple[str, list]] = {}
    reps = list(REP_CHARS)
    cands = []
    for a in reps:
        cands.append(a)
        for b in reps:
            cands.append(a + b)
            for c in reps:
                cands.append(a + b + c)
    for y in ok_symbols:  # an admitted symbol in every position of a string of length <= 3
        cands.append(y)
        for a in reps:
            cands += [a + y, y + a]
            for b in reps:
                cands += [y + a + b, a + y + b, a + b + y]
    for s_ in cands:
        if not admitted(s_):
            continue
        n_adm += 1
        if stable(s_):
            chk.obligations += 1
            chk.discharged += 1
            continue
        r = reading(s_)
        shapes.setdefault(tuple(m for _, m in r), (s_, r))
    chk.count("R12d.candidates_admitted", n_adm)
    if label in ("ansi", "postgres", "tsql"):
        chk.sample({"rule": "R12d", "dialect": label, "entry": entry, "template": n["template"], "plain_word_matchers": sorted(k for k in kinds_ok if k),
                    "admitted_symbols_read_as_one_token": ok_symbols, "casefold": cf or None})
    for (cls_, shape_), (ex, r, chars_) in sorted(bad_chars.items()):
        out.append(dict(
            construct=construct, loc=loc,
            detail=f"{cls_} admitted by {entry} -> {' '.join(shape_) or '(nothing)'}; dialect={label}",
            message=(f"dialect {label}: {entry} (template {n['template']!r}) admits {ex!r}, so RF06 rewrites the quoted identifier to the bare text, "
                     f"but the lexer table reads it as {_show_tokens(r)} instead of one {'/'.join(sorted(k for k in kinds_ok if k))} token"),
            extra={"dialect": label, "example": ex, "reads": [list(x) for x in r]},
        ))
    char_shapes = {k_[1] for k_ in bad_chars}
    for shape, (ex, r) in sorted(shapes.items()):
        if shape in char_shapes:
            continue  # already reported for the character that causes it
        out.append(dict(
            construct=construct, loc=loc,
            detail=f"text admitted by {entry} -> {' '.join(shape) or '(nothing)'}; dialect={label}",
            message=(f"dialect {label}: {entry} (template {n['template']!r}) admits {ex!r}, so RF06 rewrites the quoted identifier to the bare text, "
                     f"but the lexer table reads it as {_show_tokens(r)} instead of one {'/'.join(sorted(k for k in kinds_ok if k))} token"),
            extra={"dialect": label, "example": ex, "reads": [list(x) for x in r]},
        ))


# -- R12c: the reflow / lexer code has the shape the model assumes -------------------------------------


def _param_index(func, cfg, e, at) -> Set[int]:
    """Indices of the function parameters a name may stand for at ``at``."""
    out: Set[int] = set()
    if not isinstance(e, ast.Name):
        return out
    params = [a.arg for a in func.args.posonlyargs + func.args.args]
    for o in origins(cfg, e, at):
        if o.kind == "param" and isinstance(o.expr, ast.arg) and o.expr.arg in params:
            out.add(params.index(o.expr.arg))
    return out


def _compare_facts(func, cfg, e, at) -> List[Tuple[str, str, Set[int]]]:
    """(operator, string constant, parameters compared) for ``"c" in [p, q]`` / ``p == "c"``."""
    out = []
    if isinstance(e, ast.Compare) and len(e.ops) == 1:
        op, left, right = e.ops[0], e.left, e.comparators[0]
        if isinstance(op, (ast.In, ast.NotIn)) and isinstance(const(left), str) and isinstance(right, (ast.List, ast.Tuple, ast.Set)):
            ps: Set[int] = set()
            for el in right.elts:
                ps |= _param_index(func, cfg, el, at)
            out.append(("in" if isinstance(op, ast.In) else "notin", const(left), ps))
        elif isinstance(op, (ast.Eq, ast.NotEq)):
            for c, v in ((left, right), (right, left)):
                if isinstance(const(c), str):
                    out.append(("eq" if isinstance(op, ast.Eq) else "ne", const(c), _param_index(func, cfg, v, at)))
    return out


def _spacing_reads(func, cfg, expr, at, _depth: int = 0) -> Set[Tuple[str, int]]:
    """(attribute, parameter index) for every ``<param>.spacing_*`` the value of ``expr`` is computed
    from, looking through local names (a constraint passed through a temporary)."""
    out: Set[Tuple[str, int]] = set()
    if _depth > 4 or not isinstance(expr, ast.AST):
        return out
    for a in ast.walk(expr):
        if isinstance(a, ast.Attribute) and a.attr.startswith("spacing_"):
            for i in _param_index(func, cfg, a.value, at) or {-1}:
                out.add((a.attr, i))
        elif isinstance(a, ast.Name) and isinstance(getattr(a, "ctx", None), ast.Load):
            for o in origins(cfg, a, at):
                # (a component of an unpacked call result is another value: not followed)
                if o.kind == "expr" and not o.path and isinstance(o.expr, ast.AST) and not isinstance(o.expr, ast.Name):
                    out |= _spacing_reads(func, cfg, o.expr, o.stmt or at, _depth + 1)
    return out


def _blocks_of_iter(func, cfg, comp_node, it: ast.AST, at) -> Set[int]:
    """Parameters whose ``.segments`` a comprehension clause iterates (``for seg in <p>.segments``,
    also ``for blk in (p, q) for seg in blk.segments``)."""
    out: Set[int] = set()
    for a in ast.walk(it):
        if isinstance(a, ast.Attribute) and a.attr == "segments":
            got = _param_index(func, cfg, a.value, at)
            if not got and isinstance(a.value, ast.Name):
                for g in comp_node.generators:
                    if isinstance(g.target, ast.Name) and g.target.id == a.value.id:
                        srcs = [g.iter]
                        if isinstance(g.iter, ast.Name):
                            srcs = [o.expr for o in origins(cfg, g.iter, at) if o.kind == "expr" and isinstance(o.expr, ast.AST)]
                        for src in srcs:
                            if isinstance(src, (ast.Tuple, ast.List)):
                                for el in src.elts:
                                    got |= _param_index(func, cfg, el, at)
            out |= got
    return out


def _is_delete_fix(call: ast.Call) -> bool:
    if norm(call.func).endswith("LintFix.delete"):
        return True
    if last_attr(call) == "LintFix" and call.args and const(call.args[0]) == "delete":
        return True
    return False


def _r12c(chk, repo) -> None:
    # (1) deletion only under touch and not any ------------------------------------------------
    f = repo.fn(RESPACE, "handle_respace__inline_with_space")
    cfg = cfg_of(f)
    sites = [c for c in calls_in(f) if _is_delete_fix(c)]
    chk.count("R12c.delete_sites", len(sites))
    chk.floor("R12c.delete_sites", 1)
    for c in sites:
        st = cfg.stmt_of(c)
        touch = False
        not_any: Set[int] = set()
        for e, pol in conditions_at(cfg, st):
            for op, k, ps in _compare_facts(f, cfg, e, cfg.stmt_of(e) or st):
                positive = (op in ("in", "eq")) == pol
                if k == "touch" and positive and ps & {0, 1}:
                    touch = True
                if k == "any" and not positive:
                    not_any |= ps
        chk.require(touch and {0, 1} <= not_any, "R12c", c,
                    "whitespace between two blocks is deleted on a path where it is not established that one constraint is "
                    "'touch' and neither is 'any' (the touch relation of R12a assumes deletion only under touch-and-not-any)",
                    detail="delete gate: touch" + ("" if touch else " MISSING") + ", not-any on " + (",".join(("pre", "post")[i] for i in sorted(not_any & {0, 1})) or "neither"))
    # (2) determine_constraints ---------------------------------------------------------------
    f = repo.fn(RESPACE, "determine_constraints")
    cfg = cfg_of(f)
    rets = [s for s in walk_local(f) if isinstance(s, ast.Return) and s.value is not None]
    chk.count("R12c.constraint_returns", len(rets))
    chk.floor("R12c.constraint_returns", 1)
    for r in rets:
        if not (isinstance(r.value, ast.Tuple) and len(r.value.elts) == 3):
            raise AnalysisError("determine_constraints no longer returns a (pre, post, strip_newlines) tuple; read the function again")
        for pos, (attr, other, pidx, what) in enumerate((("spacing_after", "spacing_before", 0, "before the gap"), ("spacing_before", "spacing_after", 1, "after the gap"))):
            good = bad = False
            forced_ok = True
            for o in origins(cfg, r.value.elts[pos], r):
                ex = o.expr
                if o.kind != "expr" or not isinstance(ex, ast.AST):
                    continue
                if isinstance(ex, ast.Constant):
                    if ex.value == "touch":
                        facts = []
                        for e, pol in conditions_at(cfg, o.stmt):
                            for op, k, ps in _compare_facts(f, cfg, e, cfg.stmt_of(e) or o.stmt):
                                facts.append((k, (op in ("in", "eq")) == pol))
                        if ("touch", True) not in facts or ("any", False) not in facts:
                            forced_ok = False
                    continue
                for got_attr, who in _spacing_reads(f, cfg, ex, o.stmt or r):
                    if got_attr not in (attr, other):
                        continue
                    if got_attr == attr and who == pidx:
                        good = True
                    else:
                        bad = True
            chk.require(good and not bad, "R12c", r,
                        f"the constraint {what} is not taken from {('prev', 'next')[pidx]}_block.{attr} alone",
                        detail=f"determine_constraints: constraint {what} <- {('prev', 'next')[pidx]}_block.{attr}")
            chk.require(forced_ok, "R12c", r,
                        f"the constraint {what} is forced to 'touch' on a path that does not establish spacing_within == 'touch' and the side != 'any'",
                        detail=f"determine_constraints: forced touch {what} only under within == touch and side != any")
    # within of the immediate common parent: <x>.stack_spacing_configs.get(common[-1], ..)
    gets = [c for c in calls_in(f) if last_attr(c) == "get" and isinstance(c.func, ast.Attribute)
            and isinstance(c.func.value, ast.Attribute) and c.func.value.attr == "stack_spacing_configs"]
    chk.count("R12c.within_lookups", len(gets))
    chk.floor("R12c.within_lookups", 1)
    for c in gets:
        key = c.args[0] if c.args else None
        ok = False
        cands = [key] if key is not None else []
        if isinstance(key, ast.Name):
            cands = [o.expr for o in origins(cfg, key, cfg.stmt_of(c)) if o.kind == "expr" and isinstance(o.expr, ast.AST)]
        for k in cands:
            if isinstance(k, ast.Subscript) and const(k.slice) == -1 or (isinstance(k, ast.Subscript) and isinstance(k.slice, ast.UnaryOp) and isinstance(k.slice.op, ast.USub) and const(k.slice.operand) == 1):
                srcs = origins(cfg, k.value, cfg.stmt_of(c)) if isinstance(k.value, ast.Name) else []
                if any(o.kind == "expr" and isinstance(o.expr, ast.Call) and last_attr(o.expr) == "common_with" for o in srcs) or (isinstance(k.value, ast.Call) and last_attr(k.value) == "common_with"):
                    ok = True
        chk.require(ok, "R12c", c, "spacing_within is not read for the last (innermost) common ancestor of the two blocks",
                    detail="determine_constraints: spacing_within of common_with(..)[-1]")
    # (3) no newline stripping next to a comment ---------------------------------------------------
    guards = []
    for st in walk_local(f):
        if not isinstance(st, ast.If):
            continue
        blocks: Set[int] = set()
        for c in [n for n in ast.walk(st.test) if isinstance(n, ast.Call) and last_attr(n) == "is_type" and any(const(a) == "comment" for a in n.args)]:
            gen = getattr(c, "_parent", None)
            while gen is not None and not isinstance(gen, (ast.GeneratorExp, ast.ListComp)) and gen is not st:
                gen = getattr(gen, "_parent", None)
            if isinstance(gen, (ast.GeneratorExp, ast.ListComp)):
                for comp in gen.generators:
                    blocks |= _blocks_of_iter(f, cfg, gen, comp.iter, st)
        # the test must hold as soon as ONE block has a comment: a bare test or a disjunction
        if blocks and not (isinstance(st.test, ast.BoolOp) and isinstance(st.test.op, ast.And)):
            guards.append((st, blocks))
    chk.count("R12c.comment_guards", len(guards))
    covered: Set[int] = set()
    falses = []
    for st, blocks in guards:
        for s_ in st.body:
            if isinstance(s_, ast.Assign) and len(s_.targets) == 1 and isinstance(s_.targets[0], ast.Name) and isinstance(s_.value, ast.Constant) and s_.value.value is False:
                covered |= blocks
                falses.append(s_)
    ok = {0, 1} <= covered and bool(falses)
    if ok:
        # what is switched off is what is returned, and nothing re-defines it on the way to a return
        for r in rets:
            os_ = origins(cfg, r.value.elts[2], r)
            if not all(any(o.stmt is s_ for o in os_) for s_ in falses):
                ok = False
            for o in os_:
                if o.stmt is not None and not any(o.stmt is s_ for s_ in falses) and any(cfg.reaches(s_, o.stmt) for s_ in falses):
                    ok = False
    chk.require(ok, "R12c", guards[0][0] if guards else f,
                "newline stripping is not switched off for every point with a comment on either side (a stripped newline after a '--' comment pulls the next token into the comment)",
                detail="determine_constraints: strip_newlines = False when prev or next block holds a comment",
                construct=f"{RESPACE}::determine_constraints")
    # (4) get_block_config ------------------------------------------------------------------------
    f = repo.fn(REFLOW_CONFIG, "ReflowConfig.get_block_config")
    cfg = cfg_of(f)
    inc = [c for c in calls_in(f) if last_attr(c) == "incorporate"]
    parent_calls = []
    own_calls = []
    for c in inc:
        kws = {k.arg for k in c.keywords}
        if "config" in kws or (c.args and not kws):
            own_calls.append(c)
        for side, attr, flag in (("before", "spacing_before", "start"), ("after", "spacing_after", "end")):
            v = kwarg(c, side)
            if v is None:
                continue
            parent_calls.append(c)
            reads = {const(a) for a in ast.walk(v) if isinstance(a, ast.Constant) and isinstance(a.value, str) and a.value.startswith("spacing_")}
            gated = False
            for e, pol in conditions_at(cfg, cfg.stmt_of(c)):
                if pol and isinstance(e, ast.Name):
                    # the flag is cleared when the position is not 'solo' / the matching edge
                    clears = [s for s in walk_local(f) if isinstance(s, ast.Assign) and any(isinstance(t, ast.Name) and t.id == e.id for t in s.targets)
                              and isinstance(s.value, ast.Constant) and s.value.value is False]
                    for s in clears:
                        for e2, pol2 in conditions_at(cfg, s):
                            if isinstance(e2, ast.Compare) and isinstance(e2.ops[0], (ast.NotIn, ast.In)):
                                vals = {const(x) for x in getattr(e2.comparators[0], "elts", [])}
                                neg = isinstance(e2.ops[0], ast.NotIn) == pol2
                                if neg and vals == {"solo", flag}:
                                    gated = True
            chk.require(reads == {attr} and gated, "R12c", c,
                        f"a parent's {attr} is claimed without the token being established as the {flag} (or solo) code element of every level up to that parent, or from another key",
                        detail=f"get_block_config: parent {attr} only at the parent's {flag}")
    chk.count("R12c.parent_claims", len(parent_calls))
    chk.floor("R12c.parent_claims", 2)
    chk.count("R12c.own_type_claims", len(own_calls))
    chk.floor("R12c.own_type_claims", 1)
    for c in own_calls:
        late = not any(cfg.reaches(cfg.stmt_of(c), cfg.stmt_of(p)) for p in parent_calls if cfg.stmt_of(p) is not cfg.stmt_of(c))
        chk.require(late, "R12c", c, "a parent's spacing can be incorporated after the token's own types (the own configured type must win)",
                    detail="get_block_config: own types incorporated last")
    # (5) lexer: first matcher wins, DOTALL only ------------------------------------------------------
    f = repo.fn(LEXER, "PyLexer.lex_match")
    cfg = cfg_of(f)
    loops = []
    for st in walk_local(f):
        if isinstance(st, ast.For) and isinstance(st.target, ast.Name) and _param_index(f, cfg, st.iter, st) == {1}:
            loops.append(st)
    chk.count("R12c.matcher_loops", len(loops))
    chk.floor("R12c.matcher_loops", 1)
    for lp in loops:
        calls = [c for c in ast.walk(lp) if isinstance(c, ast.Call) and last_attr(c) == "match" and isinstance(c.func, ast.Attribute)
                 and isinstance(c.func.value, ast.Name) and c.func.value.id == lp.target.id]
        breaks = [b for b in ast.walk(lp) if isinstance(b, ast.Break)]
        first = bool(calls) and bool(breaks)
        for b in breaks:
            conds = conditions_at(cfg, b)
            if not any(pol and isinstance(e, ast.Attribute) and e.attr == "elements" for e, pol in conds):
                first = False
        chk.require(first, "R12c", lp, "the matcher loop no longer stops at the first matcher that produced elements (the table simulation of R12a assumes first-match-wins in table order)",
                    detail="lex_match: first matcher with elements wins")
    post = repo.fn(LEXER, "RegexLexer.__post_init__")
    comp = [c for c in calls_in(post) if last_attr(c) == "compile"]
    chk.count("R12c.regex_compiles", len(comp))
    chk.floor("R12c.regex_compiles", 1)
    pcfg = cfg_of(post)
    for c in comp:
        fexpr = c.args[1] if len(c.args) > 1 else kwarg(c, "flags")
        exprs = [fexpr]
        if isinstance(fexpr, ast.Name):
            exprs = [o.expr for o in origins(pcfg, fexpr, pcfg.stmt_of(c)) if o.kind == "expr"]
        ok = bool(exprs) and all(isinstance(x, ast.Attribute) and x.attr in ("DOTALL", "S") for x in exprs)
        chk.require(ok, "R12c", c, "RegexLexer no longer compiles its template with exactly regex.DOTALL (the table simulation compiles with DOTALL)",
                    detail="RegexLexer: compile(template, DOTALL)")
    mt = repo.fn(LEXER, "RegexLexer._match")
    uses = [c for c in calls_in(mt) if last_attr(c) == "match"]
    chk.require(len(uses) == 1 and not any(last_attr(c) in ("search", "fullmatch") for c in calls_in(mt)), "R12c", mt,
                "RegexLexer._match no longer uses <compiled>.match (prefix match at the current position)",
                detail="RegexLexer._match: prefix match")


ANSI = "src/sqlfluff/dialects/dialect_ansi.py"

VARIANTS: List[Variant] = [
    Variant(
        "quiet-cv07-trailing-nodes-starred-into-the-edit", "src/sqlfluff/rules/convention/CV07.py",
        "                    fixes.append(LintFix.create_after(parent, list(trailing)))\n",
        "                    fixes.append(LintFix.create_after(parent, [*trailing]))\n",
        QUIET, None, "list() spelled as a starred display",
    ),
    Variant(
        "cv07-trailing-nodes-reversed-at-the-edit", "src/sqlfluff/rules/convention/CV07.py",
        "                    fixes.append(LintFix.create_after(parent, list(trailing)))\n",
        "                    fixes.append(LintFix.create_after(parent, list(reversed(trailing))))\n",
        "R12f", "Rule_CV07._eval", "a third reversal at the edit site",
    ),
    Variant(
        "cv07-leading-nodes-by-negative-step-slice", "src/sqlfluff/rules/convention/CV07.py",
        "                    fixes.append(LintFix.create_before(parent, list(leading)))\n",
        "                    fixes.append(LintFix.create_before(parent, list(leading)[::-1]))\n",
        "R12f", "Rule_CV07._eval", "reversal by slice",
    ),
    Variant(
        "cv07-trailing-nodes-lifted-in-scan-order", "src/sqlfluff/rules/convention/CV07.py",
        "                filtered_children.reversed()\n                .select(loop_while=to_lift_predicate)\n                .reversed()\n",
        "                filtered_children.reversed()\n                .select(loop_while=to_lift_predicate)\n",
        "R12f", "Rule_CV07._eval", "seeded C12-9: `-- c` and the newline after it swap, the comment swallows the terminator",
    ),
    Variant(
        "quiet-cv07-trailing-nodes-turned-round-by-slice", "src/sqlfluff/rules/convention/CV07.py",
        "            trailing = (\n                filtered_children.reversed()\n                .select(loop_while=to_lift_predicate)\n                .reversed()\n            )\n",
        "            trailing_rev = filtered_children.reversed().select(loop_while=to_lift_predicate)\n            trailing = trailing_rev.reversed()\n",
        QUIET, None, "second reversal through a local",
    ),
    Variant(
        "borrowed-space-on-the-far-side", "src/sqlfluff/utils/reflow/respace.py",
        '        if existing_fix == "before":\n            fix.edit = [cast(BaseSegment, added_whitespace)] + fix.edit\n        elif existing_fix == "after":\n            fix.edit = fix.edit + [cast(BaseSegment, added_whitespace)]\n',
        '        if existing_fix == "after":\n            fix.edit = [cast(BaseSegment, added_whitespace)] + fix.edit\n        elif existing_fix == "before":\n            fix.edit = fix.edit + [cast(BaseSegment, added_whitespace)]\n',
        "R12e", "handle_respace__inline_without_space", "seeded C12-4 (same effect): CV05 alone turns `a =NULL` into `a  ISNULL`",
    ),
    Variant(
        "quiet-borrowed-space-inserted-in-place", "src/sqlfluff/utils/reflow/respace.py",
        '        if existing_fix == "before":\n            fix.edit = [cast(BaseSegment, added_whitespace)] + fix.edit\n        elif existing_fix == "after":\n            fix.edit = fix.edit + [cast(BaseSegment, added_whitespace)]\n',
        '        fix.edit = list(fix.edit)\n        fix.edit.insert(0 if existing_fix == "before" else len(fix.edit), cast(BaseSegment, added_whitespace))\n',
        "QUIET", None, "R12e: one insert with the index chosen by the same label",
    ),

    # ---- lexer tables / grammars (R12a, R12b) --------------------------------------------------------
    Variant(
        "ansi-lexer-double-dot", ANSI,
        '        StringLexer("dot", ".", CodeSegment),\n',
        '        StringLexer("double_dot", "..", CodeSegment),\n        StringLexer("dot", ".", CodeSegment),\n',
        "R12a", "lexer:double_dot",
        "a '..' token (empty schema part, db..table) placed before '.': 'a . . b' inside free-form brackets is respaced to 'a..b' in every dialect that inherits the ansi table",
    ),
    Variant(
        "ansi-lexer-double-square", ANSI,
        '        StringLexer("start_square_bracket", "[", CodeSegment),\n',
        '        StringLexer("double_square_open", "[[", CodeSegment),\n        StringLexer("start_square_bracket", "[", CodeSegment),\n',
        "R12a", "lexer:double_square_open",
        "a '[[' token before '[': 'a[ [1, 2][0] ]' loses the space after the opening bracket (spacing_after = touch) and lexes as '[['",
    ),
    Variant(
        "ansi-lexer-question-colon", ANSI,
        '        StringLexer("question", "?", CodeSegment),\n',
        '        StringLexer("elvis", "?:", CodeSegment),\n        StringLexer("question", "?", CodeSegment),\n',
        "R12a", "lexer:elvis",
        "a '?:' token before '?': '? :' (colon.spacing_before = touch) inside free-form brackets is joined into it",
    ),
    Variant(
        "ansi-set-operator-typed-binary-operator", ANSI,
        '    type = "set_operator"\n    match_grammar: Matchable = OneOf(\n        Ref("UnionGrammar"),',
        '    type = "binary_operator"\n    match_grammar: Matchable = OneOf(\n        Ref("UnionGrammar"),',
        "R12b", "SetOperatorSegment",
        "set operators re-typed as binary operators inherit spacing_within = touch: 'UNION ALL' is respaced to 'UNIONALL', one identifier",
    ),
    # ---- reflow code (R12c) ----------------------------------------------------------------------
    Variant(
        "respace-touch-before-any", RESPACE,
        """    # Do we have either side set to "any"
    if "any" in [pre_constraint, post_constraint]:
        # In this instance - don't change anything.
        # e.g. this could mean there is a comment on one side.
        return segment_buffer, []

    # Do we have either side set to "touch"?
    if "touch" in [pre_constraint, post_constraint]:""",
        """    # Do we have either side set to "touch"?
    if "touch" in [pre_constraint, post_constraint]:""",
        "R12c", "handle_respace__inline_with_space",
        "the 'any' early return dropped: touch now wins over any (comments, placeholders, slash, pattern expressions) and their whitespace is deleted",
    ),
    Variant(
        "respace-delete-without-touch", RESPACE,
        '    if "touch" in [pre_constraint, post_constraint]:\n        # In this instance - no whitespace is correct, This',
        '    if "touch" in [pre_constraint, post_constraint] or prev_block is None:\n        # In this instance - no whitespace is correct, This',
        "R12c", "handle_respace__inline_with_space",
        "whitespace is deleted on a path where no side is touch",
    ),
    Variant(
        "constraints-within-touch-over-any", RESPACE,
        '        if pre_constraint != "any":\n            pre_constraint = "touch"',
        '        if pre_constraint:\n            pre_constraint = "touch"',
        "R12c", "determine_constraints",
        "spacing_within = touch overrides an 'any' after the previous block",
    ),
    Variant(
        "constraints-pre-from-spacing-before", RESPACE,
        'prev_block.spacing_after if prev_block else "single", strip_newlines',
        'prev_block.spacing_before if prev_block else "single", strip_newlines',
        "R12c", "determine_constraints",
        "the constraint before the gap is read from the previous block's spacing_before: touch moves to the wrong side of every comma / bracket",
    ),
    Variant(
        "constraints-within-of-outermost-ancestor", RESPACE,
        "prev_block.stack_spacing_configs.get(common[-1], None)",
        "prev_block.stack_spacing_configs.get(common[0], None)",
        "R12c", "determine_constraints",
        "spacing_within is read for the outermost common ancestor (the file) instead of the immediate parent",
    ),
    Variant(
        "constraints-comment-guard-next-only", RESPACE,
        """        if any(seg.is_type("comment") for seg in prev_block.segments) or any(
            seg.is_type("comment") for seg in next_block.segments
        ):""",
        """        if any(seg.is_type("comment") for seg in next_block.segments):""",
        "R12c", "determine_constraints",
        "newline stripping stays on after a comment: 'a -- c' + newline + '::int' is joined into the comment",
    ),
    Variant(
        "constraints-comment-guard-reset-later", RESPACE,
        """    # If segments are expected to be touch within. Then modify
    # constraints accordingly.
    if within_spacing == "touch":""",
        """    if within_spacing.endswith("e"):
        strip_newlines = True
    # If segments are expected to be touch within. Then modify
    # constraints accordingly.
    if within_spacing == "touch":""",
        "R12c", "determine_constraints",
        "the comment guard is overwritten by a later assignment on the way to the return",
    ),
    Variant(
        "block-config-claims-parent-before-at-end", REFLOW_CONFIG,
        'not in ("solo", "start"):',
        'not in ("solo", "start", "end"):',
        "R12c", "get_block_config",
        "a parent's spacing_before is claimed by its LAST token too: touch appears before the closing token of every function_contents",
    ),
    Variant(
        "block-config-parent-before-reads-after", REFLOW_CONFIG,
        'before=self._config_dict[seg_type].get("spacing_before")',
        'before=self._config_dict[seg_type].get("spacing_after")',
        "R12c", "get_block_config",
        "the first token of a parent takes the parent's spacing_after as its spacing_before",
    ),
    Variant(
        "lexer-regex-ignorecase", LEXER,
        "        flags = regex.DOTALL\n",
        "        flags = regex.DOTALL | regex.IGNORECASE\n",
        "R12c", "RegexLexer.__post_init__",
        "matcher patterns become case-insensitive: the table the check evaluates is no longer the table the lexer runs",
    ),
    # ---- behaviour-preserving edits ------------------------------------------------------------------
    Variant(
        "quiet-respace-tuple-membership", RESPACE,
        '    if "touch" in [pre_constraint, post_constraint]:\n        # In this instance - no whitespace is correct, This',
        '    if "touch" in (pre_constraint, post_constraint):\n        # In this instance - no whitespace is correct, This',
        QUIET, None, "a tuple instead of a list in the membership test",
    ),
    Variant(
        "quiet-respace-test-in-local", RESPACE,
        '    if "touch" in [pre_constraint, post_constraint]:\n        # In this instance - no whitespace is correct, This',
        '    wants_touch = "touch" in [pre_constraint, post_constraint]\n    if wants_touch:\n        # In this instance - no whitespace is correct, This',
        QUIET, None, "the touch test hoisted into a boolean local",
    ),
    Variant(
        "quiet-constraints-rename-local", RESPACE,
        "within_constraint", "parent_within", QUIET, None, "a local renamed", count=4,
    ),
    Variant(
        "quiet-constraints-key-through-local", RESPACE,
        "        within_constraint = prev_block.stack_spacing_configs.get(common[-1], None)\n",
        "        parent_hash = common[-1]\n        within_constraint = prev_block.stack_spacing_configs.get(parent_hash, None)\n",
        QUIET, None, "the immediate parent's hash passed through a local",
    ),
    Variant(
        "quiet-block-config-position-local", REFLOW_CONFIG,
        '                if depth_info.stack_positions[key].type not in ("solo", "start"):\n',
        '                pos_type = depth_info.stack_positions[key].type\n                if pos_type not in ("solo", "start"):\n',
        QUIET, None, "the stack position type read through a local",
    ),
    Variant(
        "quiet-ansi-lexer-harmless-matcher", ANSI,
        '        StringLexer("dot", ".", CodeSegment),\n',
        '        StringLexer("dot", ".", CodeSegment),\n        StringLexer("backslash", "\\\\", CodeSegment),\n',
        QUIET, None, "a new single-character token that no touch pair can produce by joining",
    ),
    Variant(
        "quiet-respace-if-elif", RESPACE,
        """        return segment_buffer, []

    # Do we have either side set to "touch"?
    if "touch" in [pre_constraint, post_constraint]:""",
        """        return segment_buffer, []
    elif "touch" in [pre_constraint, post_constraint]:""",
        QUIET, None, "early return followed by if  ->  if / elif",
    ),
    Variant(
        "quiet-constraints-unpack-through-temps", RESPACE,
        """    pre_constraint, strip_newlines = _unpack_constraint(
        prev_block.spacing_after if prev_block else "single", strip_newlines
    )""",
        """    before_gap = prev_block.spacing_after if prev_block else "single"
    unpacked = _unpack_constraint(before_gap, strip_newlines)
    pre_constraint, strip_newlines = unpacked""",
        QUIET, None, "the configured value and the unpacked pair passed through temporaries",
    ),
    Variant(
        "quiet-constraints-comment-guard-split", RESPACE,
        """        if any(seg.is_type("comment") for seg in prev_block.segments) or any(
            seg.is_type("comment") for seg in next_block.segments
        ):
            strip_newlines = False""",
        """        if any(seg.is_type("comment") for seg in prev_block.segments):
            strip_newlines = False
        if any(seg.is_type("comment") for seg in next_block.segments):
            strip_newlines = False""",
        QUIET, None, "the disjunction written as two ifs",
    ),
    Variant(
        "quiet-lexer-elements-local", LEXER,
        """                if res.elements:
                    # If we have new segments then whoop!""",
        """                found = res.elements
                if found:
                    # If we have new segments then whoop!""",
        QUIET, None, "the matched elements tested through a local",
    ),
    Variant(
        "quiet-ansi-lexer-swap-disjoint-matchers", ANSI,
        '        StringLexer("dot", ".", CodeSegment),\n        StringLexer("comma", ",", CodeSegment),\n',
        '        StringLexer("comma", ",", CodeSegment),\n        StringLexer("dot", ".", CodeSegment),\n',
        QUIET, None, "two single-character matchers that cannot match the same input swapped in the table",
    ),
    # ---- R12d: what RF06 unquotes lexes back as one identifier token -------------------------------
    Variant(
        "mysql-naked-identifier-admits-dollar", "src/sqlfluff/dialects/dialect_mysql.py",
        'r"([A-Z0-9_]*[A-Z][A-Z0-9_]*)|_",',
        'r"([A-Z0-9_$]*[A-Z][A-Z0-9_$]*)|_",',
        "R12d", "character '$'",
        "the naked-identifier pattern widened ('MySQL permits $ in unquoted identifiers') while the word matcher is left alone: RF06 unquotes `net$amount`, which lexes as 'net' + unlexable '$amount'",
    ),
    Variant(
        "postgres-word-matcher-loses-dollar", "src/sqlfluff/dialects/dialect_postgres.py",
        'RegexLexer("word", r"[\\p{L}_][\\p{L}\\p{N}_$]*", WordSegment),',
        'RegexLexer("word", r"[\\p{L}_][\\p{L}\\p{N}_]*", WordSegment),',
        "R12d", "character '$'",
        "the lexer's word class narrowed while NakedIdentifierSegment still admits '$': RF06 unquotes \"a$b\" into text that no longer lexes as one word",
    ),
    Variant(
        "quiet-mysql-naked-identifier-noncapturing", "src/sqlfluff/dialects/dialect_mysql.py",
        'r"([A-Z0-9_]*[A-Z][A-Z0-9_]*)|_",',
        'r"(?:[A-Z0-9_]*[A-Z][A-Z0-9_]*)|_",',
        QUIET, None, "the same language written with a non-capturing group",
    ),
    Variant(
        "quiet-rf06-template-through-local", "src/sqlfluff/rules/references/RF06.py",
        """        if not regex.fullmatch(
            naked_identifier_parser.template,
            identifier_contents,
            regex.IGNORECASE,
        ):""",
        """        naked_template = naked_identifier_parser.template
        if not regex.fullmatch(naked_template, identifier_contents, regex.IGNORECASE):""",
        QUIET, None, "the parser's template passed through a local",
    ),
    Variant(
        "quiet-rf06-short-flag-name", "src/sqlfluff/rules/references/RF06.py",
        "regex.IGNORECASE", "regex.I", QUIET, None, "regex.I is regex.IGNORECASE", count=2,
    ),
]
