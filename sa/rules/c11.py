"""C11 — fixing preserves untouched text byte-for-byte: the I/O envelope.

R11a  codec error handlers: the ``open()`` in the file loader whose ``read()``
      becomes the linted text uses ``errors`` absent/"strict" or
      "surrogateescape"; with "surrogateescape" the writer
      (``NamedTemporaryFile`` of the replacing function) passes the same
      handler; the writer never uses a lossy handler.  Any other reader
      handler (today: "backslashreplace") turns undecodable bytes into escape
      *text* that is written back -> reported.
R11b  the replacing function is called only under the truth of the 2nd
      component of ``fix_string()``, with the 1st component as buffer;
      ``fix_string`` computes the flag as ``fixed != self.templated_file
      .source_str`` and copies untouched slices from that same source string.
R11c  the string handed to the templater is ``<normaliser>(in_str parameter)``
      (normaliser found by role: ``regex.sub(<CR/CRLF pattern>, "\\n", s)``),
      the same normalised string is kept as ``RenderedFile.source_str``; the
      reader opens with universal newlines or ``newline=""``; the writer
      passes ``newline=""``.
R11d  def-use chain of the encoding: ``get_encoding`` value used by the
      reader's ``open(encoding=)`` is the one returned -> ``render_file`` ->
      ``render_string`` parameter -> ``RenderedFile.encoding`` ->
      ``lint_rendered`` -> ``lint_parsed(encoding=)`` -> ``LintedFile.encoding``
      -> persisting method passes ``self.encoding`` -> writer ``encoding=``;
      the runner only ever lints what ``render_file`` produced.

Spellings seen through (decided on ``origins()`` leaves, never on names of locals): a value read
through a local; a pair/triple unpacked or kept whole and read by constant index (``r = f();
r[1]``); a returned tuple / constructed ``RenderedFile`` / yielded value built in a local first;
the change flag or the normaliser's pattern and result held in a local; ``!=`` as ``not ==`` with
either operand order; ``self.templated_file`` / ``self.templater`` read through a local alias;
positional or keyword arguments (including ``open(file=...)``); ``read()`` / ``read(-1)``.
"""

from __future__ import annotations

import ast
from typing import List, Optional

from ..cfg import cfg_of, origins
from ..index import AnalysisError, arg_of, calls_in, const, enclosing_class, enclosing_function, kwarg, last_attr, norm, short, walk_local
from ..iohelpers import COMMON, LINTED_FILE, LINTER, RUNNER, Writer, all_calls, fq, is_self_attr, map_args, param_of, qual, returns_of

OK_READ = ("strict", "surrogateescape")
LOSSY = ("ignore", "replace", "backslashreplace", "xmlcharrefreplace", "namereplace")
NEWLINE_PATTERNS = {"\\r\\n|\\r", "\\r\\n?", "\\r|\\r\\n"}


def _fields(cls: ast.ClassDef) -> List[str]:
    return [s.target.id for s in cls.body if isinstance(s, ast.AnnAssign) and isinstance(s.target, ast.Name)]


def _ctor_arg(call: ast.Call, fields: List[str], name: str) -> Optional[ast.expr]:
    v = kwarg(call, name)
    if v is not None:
        return v
    if name in fields:
        i = fields.index(name)
        if i < len(call.args) and not any(isinstance(a, ast.Starred) for a in call.args[: i + 1]):
            return call.args[i]
    return None


def _leaves(cfg, e, at, _depth=0):
    """Origin leaves as (expr, path, stmt, kind) for any expression.

    Plain locals are expanded through reaching definitions.  A constant, non-negative subscript of
    a local that holds a value whole is the same selection as unpacking it: ``r = f(); r[1]`` and
    ``_, x = f(); x`` both give ``(f(), (1,))``."""
    if isinstance(e, ast.Name):
        out = []
        for o in origins(cfg, e, at):
            if o.kind == "expr" and isinstance(o.expr, ast.Subscript) and _depth < 6:
                out += [(x, p + o.path, s, k) for x, p, s, k in _leaves(cfg, o.expr, o.stmt, _depth + 1)]
            else:
                out.append((o.expr, o.path, o.stmt, o.kind))
        return out
    if (
        isinstance(e, ast.Subscript) and isinstance(e.value, ast.Name) and isinstance(e.slice, ast.Constant)
        and isinstance(e.slice.value, int) and not isinstance(e.slice.value, bool) and e.slice.value >= 0 and _depth < 6
    ):
        idx, out = e.slice.value, []
        for x, p, s, k in _leaves(cfg, e.value, at, _depth + 1):
            if k != "expr":
                return [(e, (), at, "expr")]
            if isinstance(x, (ast.Tuple, ast.List)) and not p and idx < len(x.elts) and not any(isinstance(y, ast.Starred) for y in x.elts):
                out += _leaves(cfg, x.elts[idx], s, _depth + 1)
            else:
                out.append((x, p + (idx,), s, k))
        return out
    return [(e, (), at, "expr")]


def _sole(cfg, e, at):
    """(expression, statement) a value is read from: a local stands for its single defining
    expression; (None, None) when it has several origins or is not a whole expression."""
    if e is None:
        return None, None
    lv = _leaves(cfg, e, at)
    if len(lv) == 1 and lv[0][3] == "expr" and not lv[0][1]:
        return lv[0][0], lv[0][2]
    return None, None


def _const_of(cfg, e, at):
    """Constant value of an expression, read through a local if need be (None when it is none)."""
    x, _ = _sole(cfg, e, at)
    return const(x) if x is not None else None


def _tuple_of(cfg, e, at):
    """(tuple display, statement) when ``e`` is one or a local holding exactly one."""
    x, st = _sole(cfg, e, at)
    return (x, st) if isinstance(x, ast.Tuple) else (None, None)


def _self_chain(cfg, e, at):
    """('templated_file', 'source_str') for ``self.templated_file.source_str`` -- also when a prefix
    of the chain sits in a local (``t = self.templated_file; t.source_str``); None otherwise."""
    tail = []
    for _ in range(8):
        while isinstance(e, ast.Attribute):
            tail.append(e.attr)
            e = e.value
        if not isinstance(e, ast.Name):
            return None
        os_ = origins(cfg, e, at)
        if len(os_) == 1 and os_[0].kind == "expr" and not os_[0].path and isinstance(os_[0].expr, ast.Attribute):
            e, at = os_[0].expr, os_[0].stmt
            continue
        if e.id == "self" and os_ and all(o.kind == "param" for o in os_):
            return tuple(reversed(tail))
        return None
    return None


def run(chk) -> None:
    repo = chk.repo
    chk.rule("R11a", "decode error handler of the reader and encode handler of the writer round-trip every byte (strict or surrogateescape pair)")
    chk.rule("R11b", "a file is rewritten only if fix_string() reports fixed != source, and untouched slices are copied from that source")
    chk.rule("R11c", "newlines are normalised on the way to the templater, the same string is kept as the source, and the writer does not translate newlines")
    chk.rule("R11d", "the encoding used to read a file is the encoding used to write it (def-use chain loader -> RenderedFile -> LintedFile -> writer)")
    W = Writer(repo)
    if W.fn is None or W.temp is None or W.with_stmt is None:
        raise AnalysisError("C11: replacing function / temp-file writer of LintedFile not found by role (see C26)")
    L = repo.fn(LINTER, "Linter.load_raw_file_and_config")
    _r11a(chk, repo, W, L)
    _r11b(chk, repo, W)
    _r11c(chk, repo, W, L)
    _r11d(chk, repo, W, L)
    chk.rule("R11f", "text given as a string (stdin, the simple API) reaches render_string as it was given: every lint_string_wrapped / lint_string / parse_string / render_string call of the fix route passes its caller's own unmodified parameter, or the unbounded read of stdin")
    _r11f(chk, repo)
    chk.rule("R11e", "encoding autodetection looks at the whole file: the bytes it judges come from an unbounded read() of the file named by its parameter")
    _r11e(chk, repo)
    chk.rule("R11g", "the detector's verdict is replaced by a constant codec only when there is none: in get_encoding every `return <constant>` after the detector call is guarded by the falsity of the detected encoding and by nothing else (no confidence threshold, no allow-list) -- a file decoded with another codec than the one that fits has its untouched non-ASCII bytes rewritten by the lossy error handler")
    _r11g(chk, repo)


STRING_ENTRY = {"lint_string_wrapped": "string", "lint_string": "in_str", "parse_string": "in_str", "render_string": "in_str"}
STRING_CALLERS = (LINTER, "src/sqlfluff/cli/commands.py", "src/sqlfluff/api/simple.py")


def _r11f(chk, repo) -> None:
    """The string a caller hands in is the string whose untouched parts are written back."""
    n = n_param = n_stdin = 0
    for rel in STRING_CALLERS:
        for q, g in repo.mod(rel).functions():
            cs = [c for c in calls_in(g) if isinstance(c.func, ast.Attribute) and c.func.attr in STRING_ENTRY]
            if not cs:
                continue
            cfg = cfg_of(g)
            for c in cs:
                kw = STRING_ENTRY[c.func.attr]
                a = kwarg(c, kw) or (c.args[0] if c.args and not isinstance(c.args[0], ast.Starred) else None)
                if a is None:
                    continue
                n += 1
                st = cfg.stmt_of(c)
                if param_of(cfg, a, st) is not None:
                    n_param += 1
                    ok = True
                else:
                    lv = _leaves(cfg, a, st)
                    def raw_read(e):
                        # <stream>.read() with no bound, or the loader's text component
                        return isinstance(e, ast.Call) and last_attr(e) == "read" and not e.args and not e.keywords
                    ok = bool(lv) and all(k == "expr" and ((raw_read(e) and not p) or (isinstance(e, ast.Call) and last_attr(e) == "load_raw_file_and_config" and p == (0,))) for e, p, at, k in lv)
                    n_stdin += ok
                chk.require(
                    ok, "R11f", c,
                    f"{c.func.attr}() receives {short(a, 50)}, which is not the caller's own parameter as given (nor an unbounded read of the input): "
                    "the text is changed on the way in, so characters no fix touches differ in what is written back",
                    detail=f"{q}: {c.func.attr}() gets the text as given",
                )
    chk.count("R11f.string_entry_calls", n)
    chk.count("R11f.from_own_parameter", n_param)
    chk.count("R11f.from_raw_read", n_stdin)
    chk.floor("R11f.string_entry_calls", 8)


def _r11g(chk, repo) -> None:
    from ..idioms import branch_atoms, expanded

    G = repo.fn("src/sqlfluff/core/helpers/file.py", "get_encoding")
    cfg = cfg_of(G)
    dets = [c for c in walk_local(G) if isinstance(c, ast.Call) and last_attr(c) == "detect"]
    chk.count("R11g.detector_calls", len(dets))
    if len(dets) != 1:
        raise AnalysisError("R11g: get_encoding no longer holds exactly one detector call (<x>.detect(..)); re-confirm the anchor by hand")
    dst = cfg.stmt_of(dets[0])

    def is_verdict(e, at) -> bool:
        t = norm(expanded(cfg, e, at))
        return "detect(" in t and "encoding" in t

    for r in [r for r in walk_local(G) if isinstance(r, ast.Return) and isinstance(r.value, ast.Constant) and isinstance(r.value.value, str)]:
        if not cfg.dominates(dst, r):
            continue
        chk.count("R11g.constant_fallbacks")
        guards = [g for g in cfg.guards(r) if g.stmt is dst or cfg.dominates(dst, g.stmt)]
        ok = bool(guards)
        for g in guards:
            ats = branch_atoms(cfg, g)
            ok = ok and bool(ats) and all(pol is False and is_verdict(e, g.stmt) for e, pol in ats)
        chk.require(
            ok, "R11g", r,
            f"get_encoding answers the constant {r.value.value!r} after the detector ran under a condition other than 'the detector named no encoding' "
            f"(`{short(guards[-1].stmt.test, 80) if guards and hasattr(guards[-1].stmt, 'test') else 'unguarded'}`): a file whose detected codec is discarded is decoded with one that does not fit, and the "
            "error handler turns the bytes no fix touches into escape text when the file is written back",
            detail="get_encoding: constant fallback only without a verdict",
        )


def _r11e(chk, repo) -> None:
    """The detected encoding decides how EVERY byte of the file is decoded (with a lossy error
    handler, see R11a): a verdict reached on a prefix ('ascii' for an ASCII head) silently
    rewrites later non-ASCII bytes as escape text once any fix is applied."""
    G = repo.fn("src/sqlfluff/core/helpers/file.py", "get_encoding")
    cfg = cfg_of(G)
    n = 0
    for w in walk_local(G):
        if not isinstance(w, ast.With):
            continue
        for it in w.items:
            c = it.context_expr
            if not (isinstance(c, ast.Call) and fq(c) == "open" and param_of(cfg, arg_of(c, 0, "file"), w) is not None and isinstance(it.optional_vars, ast.Name)):
                continue
            handle = it.optional_vars.id
            for r in calls_in(w):
                if not (isinstance(r.func, ast.Attribute) and r.func.attr in ("read", "read1", "readline", "peek") and isinstance(r.func.value, ast.Name) and r.func.value.id == handle):
                    continue
                n += 1
                size = r.args[0] if r.args else kwarg(r, "size")
                unbounded = r.func.attr == "read" and (size is None or (isinstance(size, ast.Constant) and size.value in (None, -1)) or _is_minus_one(size))
                in_loop = any(isinstance(p, (ast.While, ast.For)) for p in _ancestors_until(r, G))
                chk.require(
                    unbounded or in_loop, "R11e", r,
                    f"get_encoding judges the encoding from `{short(r, 50)}` -- a bounded prefix of the file: content after it is decoded with an "
                    "encoding it was never checked against, and written back that way by any fix",
                    detail="autodetect reads the whole file",
                )
    chk.count("R11e.detector_reads", n)
    chk.floor("R11e.detector_reads", 1)
    # the bytes read are judged whole: no verdict is computed on a slice (or islice) of them
    reads = {id(r) for r in calls_in(G) if isinstance(r.func, ast.Attribute) and r.func.attr == "read"}
    n_use = 0
    for node in walk_local(G):
        base = None
        if isinstance(node, ast.Subscript) and isinstance(node.slice, ast.Slice):
            base = node.value
        elif isinstance(node, ast.Call) and last_attr(node) == "islice" and node.args:
            base = node.args[0]
        if base is None:
            continue
        st = cfg.stmt_of(node)
        lv = _leaves(cfg, base, st) if isinstance(base, ast.Name) else [(base, (), st, "expr")]
        if any(id(e) in reads for e, p_, at, k in lv):
            n_use += 1
            chk.fail(
                "R11e", node,
                f"get_encoding judges `{short(node, 50)}`, a part of the bytes it read: the verdict (e.g. 'ascii' for an ASCII head) then decides how the "
                "whole file is decoded, and later bytes are written back as escape text by any fix",
                detail="autodetect judges the bytes it read whole",
            )
    chk.count("R11e.partial_views_of_the_read_bytes", n_use)


def _is_minus_one(e) -> bool:
    """``-1`` is parsed as a unary minus applied to the constant 1."""
    return isinstance(e, ast.UnaryOp) and isinstance(e.op, ast.USub) and isinstance(e.operand, ast.Constant) and e.operand.value == 1


def _ancestors_until(node, stop):
    p = getattr(node, "_parent", None)
    while p is not None and p is not stop:
        yield p
        p = getattr(p, "_parent", None)


# ---------------------------------------------------------------------------


def _reader_opens(L):
    """open() calls of the loader on its file-name parameter whose read() is returned as the text."""
    cfg = cfg_of(L)
    out = []
    for n in walk_local(L):
        if isinstance(n, ast.With):
            for it in n.items:
                c = it.context_expr
                if isinstance(c, ast.Call) and fq(c) == "open" and param_of(cfg, arg_of(c, 0, "file"), n) is not None:
                    out.append((n, c, it.optional_vars.id if isinstance(it.optional_vars, ast.Name) else None))
    # which of them is returned as component 0?
    flowing = []
    for r in returns_of(L):
        tup, tst = _tuple_of(cfg, r.value, r)
        if tup is not None and tup.elts:
            for e, p, at, k in _leaves(cfg, tup.elts[0], tst):
                if isinstance(e, ast.Call) and last_attr(e) == "read" and isinstance(e.func, ast.Attribute) and isinstance(e.func.value, ast.Name):
                    for o in origins(cfg, e.func.value, at):
                        for wst, c, var in out:
                            if o.kind == "with" and o.stmt is wst and o.expr is c and (wst, c, var) not in flowing:
                                flowing.append((wst, c, var))
    return flowing


def _r11a(chk, repo, W, L) -> None:
    readers = _reader_opens(L)
    chk.count("R11a.reader_opens", len(readers))
    chk.floor("R11a.reader_opens", 1)
    we = kwarg(W.temp, "errors")
    wv = "strict" if we is None else const(we)
    chk.require(isinstance(wv, str) and wv not in LOSSY, "R11a", W.temp,
                f"the writer encodes with errors={wv!r}: characters that cannot be encoded are silently altered on write", detail=f"writer errors={wv!r}")
    for wst, c, var in readers:
        e = kwarg(c, "errors")
        rv = "strict" if e is None else const(e)
        chk.sample({"rule": "R11a", "site": f"{LINTER}:{c.lineno}", "reader_errors": rv, "writer_errors": wv})
        if not isinstance(rv, str):
            chk.fail("R11a", c, "the reader's errors= handler is not a constant", detail="reader open errors=<dynamic>")
            continue
        if rv not in OK_READ:
            chk.fail(
                "R11a", c,
                f"linted files are decoded with errors={rv!r}: an undecodable byte becomes escape text in the source string and that text "
                f"(not the byte) is written back by any fix; only 'strict' (refuse) or 'surrogateescape' paired with the writer round-trips",
                detail=f"reader open errors={rv!r}",
            )
            continue
        if rv == "surrogateescape":
            chk.require(wv == "surrogateescape", "R11a", W.temp, "reader uses surrogateescape but the writer does not: lone surrogates make the write fail or change bytes",
                        detail="writer pairs surrogateescape")
        else:
            chk.ok("R11a", qual(L), "reader open errors='strict'")
        m = const(arg_of(c, 1, "mode"))
        chk.require(m is None or (isinstance(m, str) and "b" not in m and not any(x in m for x in "wax+")), "R11a", c, "the reader must open in text read mode", detail="reader text mode")


# ---------------------------------------------------------------------------


def _r11b(chk, repo, W) -> None:
    f = W.fn
    cfg_f = W.cfg
    # which parameter of the replacing function is written to the temp file?
    buf = None
    for c in calls_in(f):
        if last_attr(c) == "write" and isinstance(c.func, ast.Attribute) and W.is_tmp(c.func.value, cfg_f.stmt_of(c)) and c.args:
            buf = param_of(cfg_f, c.args[0], cfg_f.stmt_of(c)) or buf
    chk.count("R11b.replace_call_sites", len([1 for pf, _ in W.callers if pf in W.persist]))
    chk.floor("R11b.replace_call_sites", 1)
    fix_fns = []
    for pf, call in W.callers:
        if pf not in W.persist:
            continue
        cfg = cfg_of(pf)
        st = cfg.stmt_of(call)
        flag_call = None
        for e, pol in cfg.conditions(st):
            if pol and isinstance(e, (ast.Name, ast.Subscript)):
                os_ = _leaves(cfg, e, cfg.stmt_of(e))
                if os_ and all(k == "expr" and isinstance(x, ast.Call) and pth == (1,) and isinstance(x.func, ast.Attribute) and is_self_attr(x.func, x.func.attr) for x, pth, at, k in os_):
                    calls = {id(x): x for x, pth, at, k in os_}
                    if len(calls) == 1:
                        flag_call = next(iter(calls.values()))
        if not chk.require(flag_call is not None, "R11b", call, "the file is rewritten although nothing may have changed: the call is not dominated by the truth of the change flag returned by fix_string()",
                           detail="rewrite dominated by change flag"):
            continue
        a_buf = map_args(call, f).get(buf) if buf else None
        same = a_buf is not None and all(e is flag_call and p == (0,) for e, p, at, k in _leaves(cfg, a_buf, st))
        chk.require(bool(same), "R11b", call, "the text written is not the first component of the same fix_string() call that produced the change flag", detail="buffer is fix_string()[0]")
        m = W.repo.lookup_method(W.mod, W.cls, flag_call.func.attr)
        if m and m[1] not in fix_fns:
            fix_fns.append(m[1])
    for fs in fix_fns:
        cfg = cfg_of(fs)
        rets = [r for r in returns_of(fs) if r.value is not None]
        chk.count("R11b.fix_string_returns", len(rets))
        for r in rets:
            ok = False
            why = "return value is not a (text, flag) pair"
            v, vat = _tuple_of(cfg, r.value, r)
            if v is not None and len(v.elts) == 2:
                text, flag = v.elts
                why = "flag is not `fixed != original source`"
                neg = False
                fat = vat  # statement the flag expression is evaluated at (it may sit in a boolean local)
                for _ in range(4):
                    if isinstance(flag, ast.Name):
                        x, xat = _sole(cfg, flag, fat)
                        if x is None or x is flag:
                            break
                        flag, fat = x, xat
                    elif isinstance(flag, ast.UnaryOp) and isinstance(flag.op, ast.Not):
                        flag, neg = flag.operand, not neg
                    else:
                        break
                if isinstance(flag, ast.Compare) and len(flag.ops) == 1 and (
                    (isinstance(flag.ops[0], ast.NotEq) and not neg) or (isinstance(flag.ops[0], ast.Eq) and neg)
                ):
                    sides = [flag.left, flag.comparators[0]]
                    t_l = {(id(e), p) for e, p, at, k in _leaves(cfg, text, vat)}
                    is_text = [{(id(e), p) for e, p, at, k in _leaves(cfg, s, fat)} == t_l for s in sides]
                    is_src = [all(k == "expr" and not p and _self_chain(cfg, e, at) == ("templated_file", "source_str") for e, p, at, k in _leaves(cfg, s, fat)) for s in sides]
                    ok = (is_text[0] and is_src[1]) or (is_text[1] and is_src[0])
            chk.require(ok, "R11b", r, f"fix_string(): {why}; an unchanged file would be rewritten (or a changed one not)", detail="flag = fixed != templated_file.source_str")
        # untouched slices are copied from the very string the result is compared with
        n = 0
        for c in calls_in(fs):
            if isinstance(c.func, ast.Attribute) and is_self_attr(c.func, c.func.attr):
                m = W.repo.lookup_method(W.mod, W.cls, c.func.attr)
                if not m:
                    continue
                ps = [a.arg for a in m[1].args.args]
                if ps and ps[-1] == "raw_source_string":
                    n += 1
                    a_src = map_args(c, m[1]).get("raw_source_string")
                    src_ok = a_src is not None and all(
                        k == "expr" and not p and _self_chain(cfg, e, at) == ("templated_file", "source_str") for e, p, at, k in _leaves(cfg, a_src, cfg.stmt_of(c))
                    )
                    chk.require(src_ok, "R11b", c, "the raw string untouched slices are copied from is not templated_file.source_str", detail=f"{c.func.attr}: raw source is source_str")
        chk.count("R11b.raw_source_consumers", n)
    if fix_fns:
        chk.floor("R11b.fix_string_returns", 1)


# ---------------------------------------------------------------------------


def _normalisers(repo):
    """Functions of linter.py whose whole effect is ``regex.sub(<pattern>, "\\n", s)``."""
    out = []
    for q, f in repo.mod(LINTER).functions():
        rets = [r for r in returns_of(f) if r.value is not None]
        if len(rets) != 1:
            continue
        cfg = cfg_of(f)
        c, _ = _sole(cfg, rets[0].value, rets[0])
        if isinstance(c, ast.Call) and fq(c) in ("regex.sub", "re.sub") and len(c.args) >= 3:
            if _const_of(cfg, c.args[1], cfg.stmt_of(c)) == "\n":
                out.append((f, c))
    return out


def _r11c(chk, repo, W, L) -> None:
    norms = _normalisers(repo)
    chk.count("R11c.normaliser_functions", len(norms))
    chk.floor("R11c.normaliser_functions", 1)
    names = set()
    for f, c in norms:
        names.add(f.name)
        pcfg = cfg_of(f)
        pat = _const_of(pcfg, c.args[0], pcfg.stmt_of(c))
        chk.require(pat in NEWLINE_PATTERNS and param_of(pcfg, c.args[2], pcfg.stmt_of(c)) is not None, "R11c", c,
                    f"newline normaliser pattern {pat!r} does not map both CRLF and lone CR to LF", detail="normaliser maps CRLF and CR to LF")
    # templater entry calls in linter.py
    rcls = repo.cls(COMMON, "RenderedFile")
    rfields = _fields(rcls)
    n_t = 0
    for q, g in repo.mod(LINTER).functions():
        tcalls = [c for c in calls_in(g) if last_attr(c) in ("process", "process_with_variants") and isinstance(c.func, ast.Attribute)]
        if not tcalls:
            continue
        cfg = cfg_of(g)
        tcalls = [c for c in tcalls if _self_chain(cfg, c.func.value, cfg.stmt_of(c)) == ("templater",)]
        for c in tcalls:
            n_t += 1
            st = cfg.stmt_of(c)
            a = kwarg(c, "in_str")
            lv = _leaves(cfg, a, st) if a is not None else []
            ncalls = [e for e, p, at, k in lv if isinstance(e, ast.Call) and last_attr(e) in names and e.args]
            good = bool(lv) and len(ncalls) == len(lv) and all(param_of(cfg, e.args[0], cfg.stmt_of(e)) is not None for e in ncalls)
            chk.require(good, "R11c", c, "the templater does not receive <normaliser>(in_str parameter): CR/CRLF reach the templater (slices and fixes are computed on a different string than the one compared and written)",
                        detail="templater input is normalised once")
            # the source string recorded for the file is the same normalised string
            for r in returns_of(g):
                rv, rat = _sole(cfg, r.value, r)
                if isinstance(rv, ast.Call) and last_attr(rv) == rcls.name:
                    s = _ctor_arg(rv, rfields, "source_str")
                    slv = _leaves(cfg, s, rat) if s is not None else []
                    same = bool(slv) and {id(e) for e, p, at, k in slv} == {id(e) for e in ncalls}
                    chk.require(same, "R11c", rv, "RenderedFile.source_str is not the normalised string that was templated", detail="source_str is the templated input")
    chk.count("R11c.templater_entry_calls", n_t)
    chk.floor("R11c.templater_entry_calls", 1)
    # reader: universal newlines (default) or no translation; writer: no translation
    for wst, c, var in _reader_opens(L):
        nl = kwarg(c, "newline")
        chk.require(nl is None or const(nl) in (None, ""), "R11c", c, "the reader splits lines on a fixed terminator: other line endings are kept raw in some files and translated in others", detail="reader newline mode")
    nl = kwarg(W.temp, "newline")
    chk.require(nl is not None and const(nl) == "", "R11c", W.temp, 'the writer must pass newline="" (otherwise "\\n" is translated to os.linesep on write)', detail='writer newline=""')
    # the buffer is written as is
    for c in calls_in(W.fn):
        if last_attr(c) == "write" and isinstance(c.func, ast.Attribute) and W.is_tmp(c.func.value, W.cfg.stmt_of(c)):
            chk.require(bool(c.args) and param_of(W.cfg, c.args[0], W.cfg.stmt_of(c)) is not None, "R11c", c, "the writer transforms the buffer before writing it", detail="buffer written verbatim")


# ---------------------------------------------------------------------------


def _r11d(chk, repo, W, L) -> None:
    lm = repo.mod(LINTER)
    repo.cls(LINTER, "Linter")  # anchor
    hops = 0
    # 1. loader: returned encoding is the one used by the reader
    cfgL = cfg_of(L)
    rets = [(t, st) for t, st in (_tuple_of(cfgL, r.value, r) for r in returns_of(L)) if t is not None and len(t.elts) == 3]
    chk.count("R11d.loader_returns", len(rets))
    chk.floor("R11d.loader_returns", 1)
    ret_src = set()
    for t, st in rets:
        for e, p, at, k in _leaves(cfgL, t.elts[2], st):
            ret_src.add((id(e), p))
    for wst, c, var in _reader_opens(L):
        enc = kwarg(c, "encoding")
        used = {(id(e), p) for e, p, at, k in _leaves(cfgL, enc, wst)} if enc is not None else set()
        chk.require(bool(used) and used == ret_src, "R11d", c, "the encoding the loader reports is not the encoding it decoded the file with", detail="loader: returned encoding = open(encoding=)")
        hops += 1
    # 3. render_string-like: functions returning RenderedFile(...)
    rcls = repo.cls(COMMON, "RenderedFile")
    rfields = _fields(rcls)
    makers = {}
    for m in repo.modules.values():
        for c in all_calls(m):
            if last_attr(c) == rcls.name and isinstance(c.func, ast.Name):
                g = enclosing_function(c)
                cfg = cfg_of(g)
                a = _ctor_arg(c, rfields, "encoding")
                p = param_of(cfg, a, cfg.stmt_of(c)) if a is not None else None
                chk.require(p is not None, "R11d", c, "RenderedFile.encoding is not the encoding parameter of the rendering function", detail="RenderedFile.encoding = encoding parameter")
                if p is not None:
                    makers[g.name] = (g, p)
                hops += 1
                chk.count("R11d.renderedfile_constructions")
    chk.floor("R11d.renderedfile_constructions", 1)
    # 2. render_file-like: callers of the loader that pass its 3rd result on as that parameter
    n_rf = 0
    render_file_names = set()
    for q, g in lm.functions():
        lcalls = [c for c in calls_in(g) if last_attr(c) == L.name]
        mcalls = [c for c in calls_in(g) if last_attr(c) in makers and isinstance(c.func, ast.Attribute) and isinstance(c.func.value, ast.Name) and c.func.value.id == "self"]
        if not lcalls or not mcalls:
            continue
        cfg = cfg_of(g)
        for c in mcalls:
            mk, p = makers[last_attr(c)]
            a = map_args(c, mk).get(p)
            lv = _leaves(cfg, a, cfg.stmt_of(c)) if a is not None else []
            ok = bool(lv) and all(e in lcalls and pth == (2,) for e, pth, at, k in lv)
            chk.require(ok, "R11d", c, "the encoding handed to the renderer is not the one the loader read the file with", detail=f"{g.name}: encoding from loader result [2]")
            n_rf += 1
            hops += 1
            render_file_names.add(g.name)
    chk.count("R11d.render_file_like", n_rf)
    if makers:
        chk.floor("R11d.render_file_like", 1)
    # 5. LintedFile(...) constructions: encoding = parameter
    fcls = W.cls
    ffields = _fields(fcls)
    lf_makers = {}
    for m in repo.modules.values():
        for c in all_calls(m):
            if last_attr(c) == fcls.name and isinstance(c.func, ast.Name) and repo.resolve_name(m, fcls.name) and repo.resolve_name(m, fcls.name)[1] is fcls:
                g = enclosing_function(c)
                if g is None:
                    continue
                cfg = cfg_of(g)
                a = _ctor_arg(c, ffields, "encoding")
                p = param_of(cfg, a, cfg.stmt_of(c)) if a is not None else None
                chk.require(p is not None, "R11d", c, "LintedFile.encoding is not the encoding parameter of the linting function", detail="LintedFile.encoding = encoding parameter")
                if p is not None:
                    lf_makers[g.name] = (g, p)
                hops += 1
                chk.count("R11d.lintedfile_constructions")
    chk.floor("R11d.lintedfile_constructions", 1)
    # 4. lint_rendered-like: pass <RenderedFile parameter>.encoding to that parameter
    lint_rendered_names = set()
    for q, g in lm.functions():
        ps = [a for a in g.args.args if a.annotation is not None and norm(a.annotation).strip("'\"") == rcls.name]
        if not ps:
            continue
        cfg = cfg_of(g)
        for c in calls_in(g):
            if last_attr(c) in lf_makers and isinstance(c.func, ast.Attribute):
                mk, p = lf_makers[last_attr(c)]
                a = map_args(c, mk).get(p)
                lv = _leaves(cfg, a, cfg.stmt_of(c)) if a is not None else []
                ok = bool(lv) and all(
                    k == "expr" and not p and isinstance(e, ast.Attribute) and e.attr == "encoding" and isinstance(e.value, ast.Name) and param_of(cfg, e.value, at) in [x.arg for x in ps]
                    for e, p, at, k in lv
                )
                chk.require(ok, "R11d", c, "the encoding of the rendered file is not forwarded to the LintedFile (a default such as utf8 would be used to write the file back)",
                            detail=f"{g.name}: encoding=<rendered>.encoding")
                lint_rendered_names.add(g.name)
                hops += 1
    chk.count("R11d.lint_rendered_like", len(lint_rendered_names))
    if lf_makers:
        chk.floor("R11d.lint_rendered_like", 1)
    # 6. persisting method passes self.encoding
    for pf, call in W.callers:
        if pf in W.persist:
            a = map_args(call, W.fn).get(W.enc_param) if W.enc_param else None
            cfg = cfg_of(pf)
            ok = a is not None and all(is_self_attr(e, "encoding") for e, p, at, k in _leaves(cfg, a, cfg.stmt_of(call)))
            chk.require(bool(ok), "R11d", call, "the file is not written with the LintedFile's own encoding", detail="writer receives self.encoding")
            hops += 1
    # 7. writer encoding= is that parameter
    chk.require(W.enc_param is not None, "R11d", W.temp, "the temp file is not opened with the encoding parameter", detail="writer encoding= is the parameter")
    hops += 1
    # 8. the runner lints only what render_file produced
    rm = repo.mod(RUNNER)
    n_sites = 0
    for q, g in rm.functions():
        cfg = None
        for n in walk_local(g):
            if isinstance(n, ast.Attribute) and n.attr in lint_rendered_names:
                par = getattr(n, "_parent", None)
                if not isinstance(par, ast.Call):
                    continue
                if par.func is n:
                    arg0 = par.args[0] if par.args else None  # direct call
                elif fq(par) == "functools.partial" and par.args and par.args[0] is n:
                    arg0 = par.args[1] if len(par.args) > 1 else None
                else:
                    continue
                cfg = cfg or cfg_of(g)
                n_sites += 1
                st = cfg.stmt_of(par)
                ok = arg0 is not None and all(_is_render_result(repo, rm, g, cfg, e, p, at, k, render_file_names) for e, p, at, k in _leaves(cfg, arg0, st))
                chk.require(bool(ok), "R11d", par, "the runner lints a RenderedFile that does not come from render_file (its encoding is not the one the file was read with)",
                            detail=f"{g.name}: lints render_file result")
                hops += 1
    chk.count("R11d.runner_lint_sites", n_sites)
    if lint_rendered_names:
        chk.floor("R11d.runner_lint_sites", 2)
    chk.count("R11d.chain_hops", hops)
    chk.sample({"rule": "R11d", "render_file_like": sorted(render_file_names), "renderers": sorted(makers), "lint_rendered_like": sorted(lint_rendered_names), "linters": sorted(lf_makers)})


def _is_render_result(repo, rm, g, cfg, e, p, at, kind, render_file_names) -> bool:
    if isinstance(e, ast.Call) and last_attr(e) in render_file_names and not p:
        return True
    # for fname, rendered in self.iter_xxx(...): follow into the generator's yields
    if kind == "for" and isinstance(e, ast.Name):
        e = _sole(cfg, e, at)[0]  # the iterable held in a local
    if kind == "for" and isinstance(e, ast.Call) and isinstance(e.func, ast.Attribute) and isinstance(e.func.value, ast.Name) and e.func.value.id == "self" and len(p) == 1:
        cls = enclosing_class(g)
        m = repo.lookup_method(rm, cls, e.func.attr) if cls is not None else None
        if not m:
            return False
        gen = m[1]
        ys = [n for n in walk_local(gen) if isinstance(n, ast.Yield)]
        if not ys or any(isinstance(n, ast.YieldFrom) for n in walk_local(gen)):
            return False
        gcfg = cfg_of(gen)
        for y in ys:
            v, vat = _tuple_of(gcfg, y.value, gcfg.stmt_of(y)) if y.value is not None else (None, None)
            if not (v is not None and isinstance(p[0], int) and p[0] < len(v.elts)):
                return False
            lv = _leaves(gcfg, v.elts[p[0]], vat)
            if not lv or not all(k2 == "expr" and not p2 and isinstance(x, ast.Call) and last_attr(x) in render_file_names for x, p2, at2, k2 in lv):
                return False
        return True
    return False


from ..selftest import Variant  # noqa: E402

VARIANTS = [
    Variant(
        "r11g-low-confidence-verdict-discarded", "src/sqlfluff/core/helpers/file.py",
        "    detected_encoding = chardet.detect(data).get(\"encoding\")\n    if not detected_encoding:\n",
        "    detected = chardet.detect(data)\n    detected_encoding = detected.get(\"encoding\")\n    if not detected_encoding or detected.get(\"confidence\", 1.0) < 0.5:\n",
        "R11g", "get_encoding", "seeded C11-9",
    ),
    Variant(
        "r11g-verdict-allow-list", "src/sqlfluff/core/helpers/file.py",
        "    if not detected_encoding:\n        return \"utf-8\"\n",
        "    if not detected_encoding:\n        return \"utf-8\"\n    if detected_encoding.lower() not in (\"utf-8\", \"utf-16\", \"utf-32\"):\n        return \"utf-8\"\n",
        "R11g", "get_encoding", "single-byte verdicts replaced by utf-8",
    ),
    Variant(
        "quiet-r11g-verdict-through-locals", "src/sqlfluff/core/helpers/file.py",
        "    detected_encoding = chardet.detect(data).get(\"encoding\")\n    if not detected_encoding:\n",
        "    detected = chardet.detect(data)\n    detected_encoding = detected.get(\"encoding\")\n    no_verdict = not detected_encoding\n    if no_verdict:\n",
        "QUIET", None, "R11g: verdict and test through locals",
    ),
    Variant(
        "quiet-r11g-none-test", "src/sqlfluff/core/helpers/file.py",
        "    if not detected_encoding:\n        return \"utf-8\"\n    return detected_encoding\n",
        "    if detected_encoding:\n        return detected_encoding\n    return \"utf-8\"\n",
        "QUIET", None, "R11g: arms swapped",
    ),
    # behaviour-preserving refactors: must stay quiet
    Variant(
        "quiet-autodetect-chunked-read", "src/sqlfluff/core/helpers/file.py",
        "        data = f.read()\n",
        "        data = b\"\"\n        while True:\n            chunk = f.read(65536)\n            if not chunk:\n                break\n            data += chunk\n",
        "QUIET", None, "whole file read in chunks",
    ),
    Variant(
        "quiet-autodetect-open-by-keyword", "src/sqlfluff/core/helpers/file.py",
        "    with open(fname, \"rb\") as f:\n        data = f.read()\n",
        "    with open(file=fname, mode=\"rb\") as f:\n        data = f.read(-1)\n",
        "QUIET", None, "R11e: open() arguments by keyword, read(-1) is the unbounded read",
    ),
    Variant(
        "quiet-loader-open-by-keyword-result-in-local", LINTER,
        "        with open(fname, encoding=encoding, errors=\"backslashreplace\") as target_file:\n"
        "            raw_file = target_file.read()\n"
        "        # Scan the raw file for config commands.\n"
        "        file_config.process_raw_file_for_config(raw_file, fname)\n"
        "        # Return the raw file and config\n"
        "        return raw_file, file_config, encoding\n",
        "        with open(file=fname, mode=\"r\", encoding=encoding, errors=\"backslashreplace\") as target_file:\n"
        "            raw_file = target_file.read()\n"
        "        # Scan the raw file for config commands.\n"
        "        file_config.process_raw_file_for_config(raw_file, fname)\n"
        "        # Return the raw file and config\n"
        "        loaded = (raw_file, file_config, encoding)\n"
        "        return loaded\n",
        "QUIET", None, "R11a/R11c/R11d: reader opened by keyword with the default mode spelled out; the result tuple returned through a local",
    ),
    Variant(
        "quiet-persist-fix-result-indexed", LINTED_FILE,
        "            write_buff, success = self.fix_string()\n",
        "            fix_result = self.fix_string()\n            write_buff = fix_result[0]\n            success = fix_result[1]\n",
        "QUIET", None, "R11b: the (text, flag) pair kept whole and read by index",
    ),
    Variant(
        "quiet-persist-fail-arm-first", LINTED_FILE,
        "            if success:\n"
        "                fname = self.path\n"
        "                # If there is a suffix specified, then use it.s\n"
        "                if suffix:\n"
        "                    root, ext = os.path.splitext(fname)\n"
        "                    fname = root + suffix + ext\n"
        "                self._safe_create_replace_file(\n"
        "                    self.path, fname, write_buff, self.encoding\n"
        "                )\n"
        "                result_label = \"FIXED\"\n"
        "            else:  # pragma: no cover\n"
        "                result_label = \"FAIL\"\n",
        "            changed = success\n"
        "            if not changed:  # pragma: no cover\n"
        "                result_label = \"FAIL\"\n"
        "            else:\n"
        "                fname = self.path\n"
        "                # If there is a suffix specified, then use it.s\n"
        "                if suffix:\n"
        "                    root, ext = os.path.splitext(fname)\n"
        "                    fname = root + suffix + ext\n"
        "                file_encoding = self.encoding\n"
        "                self._safe_create_replace_file(\n"
        "                    input_path=self.path, output_path=fname, write_buff=write_buff, encoding=file_encoding\n"
        "                )\n"
        "                result_label = \"FIXED\"\n",
        "QUIET", None, "R11b/R11d: arms swapped under the negated flag (read through a local); keyword arguments; encoding through a local",
    ),
    Variant(
        "quiet-fix-string-flag-in-local-source-alias", LINTED_FILE,
        "        original_source = self.templated_file.source_str\n",
        "        templated_file = self.templated_file\n        original_source = templated_file.source_str\n",
        "QUIET", None, "R11b: self.templated_file read through a local alias before .source_str",
    ),
    Variant(
        "quiet-fix-string-flag-hoisted", LINTED_FILE,
        "        fixed_source_string = self._build_up_fixed_source_string(\n"
        "            slice_buff, filtered_source_patches, self.templated_file.source_str\n"
        "        )\n"
        "\n"
        "        # The success metric here is whether anything ACTUALLY changed.\n"
        "        return fixed_source_string, fixed_source_string != original_source\n",
        "        fixed_source_string = self._build_up_fixed_source_string(\n"
        "            slice_buff, filtered_source_patches, raw_source_string=original_source\n"
        "        )\n"
        "\n"
        "        # The success metric here is whether anything ACTUALLY changed.\n"
        "        changed = original_source != fixed_source_string\n"
        "        return fixed_source_string, changed\n",
        "QUIET", None, "R11b: change flag hoisted into a boolean local (operands swapped); raw source passed by keyword through the existing local",
    ),
    Variant(
        "quiet-normaliser-pattern-and-result-in-locals", LINTER,
        "        return regex.sub(r\"\\r\\n|\\r\", \"\\n\", string)\n",
        "        pattern = r\"\\r\\n|\\r\"\n        normalised = regex.sub(pattern, \"\\n\", string)\n        return normalised\n",
        "QUIET", None, "R11c: the normaliser's pattern and result pass through locals",
    ),
    Variant(
        "quiet-rendered-file-by-keyword-through-local", LINTER,
        "        return RenderedFile(\n"
        "            templated_variants,\n"
        "            templater_violations,\n"
        "            config,\n"
        "            time_dict,\n"
        "            fname,\n"
        "            encoding,\n"
        "            in_str,\n"
        "        )\n",
        "        rendered_file = RenderedFile(\n"
        "            templated_variants=templated_variants,\n"
        "            templater_violations=templater_violations,\n"
        "            config=config,\n"
        "            time_dict=time_dict,\n"
        "            fname=fname,\n"
        "            source_str=in_str,\n"
        "            encoding=encoding,\n"
        "        )\n"
        "        return rendered_file\n",
        "QUIET", None, "R11c/R11d: RenderedFile built with keywords (in another order) and returned through a local",
    ),
    Variant(
        "quiet-render-file-result-indexed", LINTER,
        "        raw_file, config, encoding = self.load_raw_file_and_config(fname, root_config)\n"
        "        # Render the file\n"
        "        return self.render_string(raw_file, fname, config, encoding)\n",
        "        loaded = self.load_raw_file_and_config(fname, root_config)\n"
        "        # Render the file\n"
        "        return self.render_string(loaded[0], fname, loaded[1], encoding=loaded[2])\n",
        "QUIET", None, "R11d: the loader's result kept whole and read by index",
    ),
    Variant(
        "quiet-lint-rendered-encoding-in-local", LINTER,
        "        parsed = cls.parse_rendered(rendered)\n"
        "        return cls.lint_parsed(\n"
        "            parsed,\n"
        "            rule_pack=rule_pack,\n"
        "            fix=fix,\n"
        "            formatter=formatter,\n"
        "            encoding=rendered.encoding,\n"
        "        )\n",
        "        parsed = cls.parse_rendered(rendered)\n"
        "        file_encoding = rendered.encoding\n"
        "        return cls.lint_parsed(\n"
        "            parsed,\n"
        "            rule_pack=rule_pack,\n"
        "            fix=fix,\n"
        "            formatter=formatter,\n"
        "            encoding=file_encoding,\n"
        "        )\n",
        "QUIET", None, "R11d: rendered.encoding forwarded through a local",
    ),
    Variant(
        "quiet-runner-yields-rendered-through-local", RUNNER,
        "                yield fname, self.linter.render_file(fname, self.config)\n",
        "                rendered_file = self.linter.render_file(fname, self.config)\n                yield fname, rendered_file\n",
        "QUIET", None, "R11d: the generator yields the render_file result through a local",
    ),
    Variant(
        "quiet-fix-string-returns-pair-through-local", LINTED_FILE,
        "        return fixed_source_string, fixed_source_string != original_source\n",
        "        outcome = (fixed_source_string, not (fixed_source_string == original_source))\n        return outcome\n",
        "QUIET", None, "R11b: the (text, flag) pair built in a local; != spelled as not ==",
    ),
    Variant(
        "quiet-runner-iterates-rendered-through-local", RUNNER,
        "        for fname, rendered in self.iter_rendered(fnames):\n",
        "        rendered_files = self.iter_rendered(fnames)\n        for fname, rendered in rendered_files:\n",
        "QUIET", None, "R11d: the generator of rendered files held in a local before the loop",
    ),
    Variant(
        "quiet-templater-through-local", LINTER,
        "            for variant, templater_errs in self.templater.process_with_variants(\n",
        "            templater = self.templater\n            for variant, templater_errs in templater.process_with_variants(\n",
        "QUIET", None, "R11c: self.templater read through a local before the templater entry call",
    ),
    Variant(
        "quiet-writer-writes-through-wrapper", LINTED_FILE,
        "                tmp.file.write(write_buff)\n",
        "                text = write_buff\n                tmp.write(text)\n",
        "QUIET", None, "R11c: buffer through a local, written through the temp-file wrapper (delegates to .file)",
    ),
    # breaking edits: must be reported
    Variant(
        "autodetect-sniffs-head-only", "src/sqlfluff/core/helpers/file.py",
        "        data = f.read()\n",
        "        data = f.read(8192)\n",
        "R11e", "get_encoding", "seeded C11-2: ASCII head, UTF-8 tail -> tail rewritten as backslash escapes",
    ),
    Variant("reader-ignores-undecodable", LINTER, 'errors="backslashreplace"', 'errors="ignore"', "R11a", "load_raw_file_and_config", "a different lossy handler (distinct finding key)"),
    Variant("writer-replaces-unencodable", LINTED_FILE, "                delete=False,\n", '                delete=False,\n                errors="replace",\n', "R11a", "_safe_create_replace_file"),
    Variant("reader-surrogateescape-unpaired", LINTER, 'errors="backslashreplace"', 'errors="surrogateescape"', "R11a", "_safe_create_replace_file", "reader fixed without pairing the writer"),
    Variant("rewrite-even-if-unchanged", LINTED_FILE, "            if success:\n                fname = self.path\n", "            if True:\n                fname = self.path\n", "R11b", "persist_tree"),
    Variant("flag-always-true", LINTED_FILE, "return fixed_source_string, fixed_source_string != original_source", "return fixed_source_string, True", "R11b", "fix_string"),
    Variant("flag-compares-templated", LINTED_FILE, "        original_source = self.templated_file.source_str\n", "        original_source = self.templated_file.templated_str\n", "R11b", "fix_string"),
    Variant(
        "untouched-from-templated", LINTED_FILE,
        "            slice_buff, filtered_source_patches, self.templated_file.source_str\n",
        "            slice_buff, filtered_source_patches, self.templated_file.templated_str\n",
        "R11b", "fix_string",
    ),
    Variant(
        "bom-stripped-from-string-input", LINTER,
        "        result = LintingResult()\n        linted_path = LintedDir(fname)\n        if stdin_filename:\n",
        "        string = string.lstrip(\"\\ufeff\")\n        result = LintingResult()\n        linted_path = LintedDir(fname)\n        if stdin_filename:\n",
        "R11f", "lint_string_wrapped", "seeded C11-4 (same shape): the fixed string is rebuilt from the stripped text, the first character is lost",
    ),
    Variant(
        "stdin-fix-strips-trailing-whitespace", "src/sqlfluff/cli/commands.py",
        "    stdin = sys.stdin.read()\n\n    result = linter.lint_string_wrapped(\n        stdin, fname=\"stdin\", fix=True,",
        "    stdin = sys.stdin.read()\n\n    result = linter.lint_string_wrapped(\n        stdin.rstrip() + \"\\n\", fname=\"stdin\", fix=True,",
        "R11f", "_stdin_fix",
    ),
    Variant(
        "quiet-stdin-text-through-locals", "src/sqlfluff/cli/commands.py",
        "    stdin = sys.stdin.read()\n\n    result = linter.lint_string_wrapped(\n        stdin, fname=\"stdin\", fix=True,",
        "    stdin = sys.stdin.read()\n    text_in = stdin\n\n    result = linter.lint_string_wrapped(\n        string=text_in, fname=\"stdin\", fix=True,",
        "QUIET", None, "R11f: the text through a second local, passed by keyword",
    ),
    Variant(
        "detector-gets-a-bounded-sample", "src/sqlfluff/core/helpers/file.py",
        "    detected_encoding = chardet.detect(data).get(\"encoding\")\n",
        "    sample = data[:8192]\n    detected_encoding = chardet.detect(sample).get(\"encoding\")\n",
        "R11e", "get_encoding", "seeded C26-3 (same shape): the whole file is read but chardet sees the head only",
    ),
    Variant("normalisation-dropped", LINTER, "        in_str = self._normalise_newlines(in_str)\n", "", "R11c", "render_string"),
    Variant("normaliser-misses-lone-cr", LINTER, 'regex.sub(r"\\r\\n|\\r", "\\n", string)', 'regex.sub(r"\\r\\n", "\\n", string)', "R11c", "_normalise_newlines"),
    Variant("reader-fixed-line-terminator", LINTER, 'with open(fname, encoding=encoding, errors="backslashreplace") as', 'with open(fname, encoding=encoding, errors="backslashreplace", newline="\\r\\n") as', "R11c", "load_raw_file_and_config"),
    Variant("writer-translates-newlines", LINTED_FILE, '                newline="",  # NOTE: No newline conversion. Write as read.\n', '                newline=None,\n', "R11c", "_safe_create_replace_file"),
    Variant("lint-rendered-drops-encoding", LINTER, "            encoding=rendered.encoding,\n", "", "R11d", "lint_rendered"),
    Variant("render-file-hardcodes-encoding", LINTER, "return self.render_string(raw_file, fname, config, encoding)", 'return self.render_string(raw_file, fname, config, "utf-8")', "R11d", "render_file"),
    Variant("persist-hardcodes-encoding", LINTED_FILE, "self.path, fname, write_buff, self.encoding\n", 'self.path, fname, write_buff, "utf-8"\n', "R11d", "persist_tree"),
    Variant("loader-decodes-with-config-value", LINTER, "with open(fname, encoding=encoding, errors=", "with open(fname, encoding=config_encoding, errors=", "R11d", "load_raw_file_and_config"),
    Variant("lintedfile-default-encoding", LINTER, "            encoding=encoding,\n            source_patches=merged_source_patches,\n", '            encoding="utf8",\n            source_patches=merged_source_patches,\n', "R11d", "lint_parsed"),
    Variant("renderedfile-fields-swapped", LINTER, "            fname,\n            encoding,\n            in_str,\n", "            encoding,\n            fname,\n            in_str,\n", "R11d", "render_"),
    # breaking edits written in the refactored spellings the rules now see through
    Variant(
        "indexed-fix-result-flag-is-the-text", LINTED_FILE,
        "            write_buff, success = self.fix_string()\n",
        "            fix_result = self.fix_string()\n            write_buff = fix_result[0]\n            success = fix_result[0]\n",
        "R11b", "persist_tree", "wrong component read as the change flag (non-empty text is always true)",
    ),
    Variant(
        "hoisted-flag-compares-templated", LINTED_FILE,
        "        return fixed_source_string, fixed_source_string != original_source\n",
        "        changed = fixed_source_string != self.templated_file.templated_str\n        return fixed_source_string, changed\n",
        "R11b", "fix_string",
    ),
    Variant(
        "aliased-templated-file-other-string", LINTED_FILE,
        "        original_source = self.templated_file.source_str\n",
        "        templated_file = self.templated_file\n        original_source = templated_file.templated_str\n",
        "R11b", "fix_string",
    ),
    Variant(
        "normaliser-local-pattern-misses-lone-cr", LINTER,
        "        return regex.sub(r\"\\r\\n|\\r\", \"\\n\", string)\n",
        "        pattern = r\"\\r\\n\"\n        normalised = regex.sub(pattern, \"\\n\", string)\n        return normalised\n",
        "R11c", "_normalise_newlines",
    ),
    Variant(
        "indexed-loader-result-wrong-component", LINTER,
        "        raw_file, config, encoding = self.load_raw_file_and_config(fname, root_config)\n"
        "        # Render the file\n"
        "        return self.render_string(raw_file, fname, config, encoding)\n",
        "        loaded = self.load_raw_file_and_config(fname, root_config)\n"
        "        # Render the file\n"
        "        return self.render_string(loaded[0], fname, loaded[1], encoding=loaded[0])\n",
        "R11d", "render_file",
    ),
    Variant(
        "lint-rendered-local-encoding-constant", LINTER,
        "        parsed = cls.parse_rendered(rendered)\n"
        "        return cls.lint_parsed(\n"
        "            parsed,\n"
        "            rule_pack=rule_pack,\n"
        "            fix=fix,\n"
        "            formatter=formatter,\n"
        "            encoding=rendered.encoding,\n",
        "        parsed = cls.parse_rendered(rendered)\n"
        "        file_encoding = \"utf-8\"\n"
        "        return cls.lint_parsed(\n"
        "            parsed,\n"
        "            rule_pack=rule_pack,\n"
        "            fix=fix,\n"
        "            formatter=formatter,\n"
        "            encoding=file_encoding,\n",
        "R11d", "lint_rendered",
    ),
    Variant(
        "runner-yields-other-render-through-local", RUNNER,
        "                yield fname, self.linter.render_file(fname, self.config)\n",
        "                rendered_file = self.linter.render_string(\"\", fname, self.config, \"utf-8\")\n                yield fname, rendered_file\n",
        "R11d", "iter_partials",
    ),
]
