"""C17 — fix and format are idempotent (partial claim).

Idempotence as a whole is a fixpoint property of the composition of all enabled rules over
run-time trees plus re-lex / re-parse stability of the written text (C12, C02); that is NOT
decided.  What is decided is the structural half without which it fails for every rule set
that needs more than one pass: *the fix loop hands back a tree only after a complete pass
over the rules that adopted nothing* (or hands back the untouched tree it saved).

Roles are found by def-use, never by name: the *rules loop* is the ``for`` whose variable
receives the ``.crawl(..)`` call of ``Linter.lint_fix_parsed``; the *pass loop* is the loop
around it; the *working tree* is the local passed as first argument to ``crawl``; an
*adoption* is any statement inside the pass loop that (re)binds the working tree; the *fix
switch* is the parameter handed to ``crawl(fix=..)``.

R17a  fixpoint exit.  Every way out of the pass loop that can be reached from an adoption
      without starting another pass — a ``break`` of the pass loop, a ``return`` inside it
      that hands back the working tree — is conditioned on a *flag* (``not <flag>``,
      ``<flag> == 0`` ..) such that (i) every path of the pass through the adoption to that exit passes
      an assignment giving the flag the opposite truth value (before or after the adoption), and (ii) no other assignment of
      the flag lies between such an assignment and the exit within the same pass.  A
      ``return`` that hands back a tree never rebound in the loop (the rollback of C18 R18b)
      needs no flag.  Exhaustion of the pass loop (the loop limit) while fixing never falls
      through to the normal return: every path from the exhausted loop to the function's
      normal exit passes a ``return`` of the loop's ``else`` arm or the false branch of the
      fix switch, and every adoption happens under the fix switch, which is never rebound.
R17b  complete passes.  Inside the rules loop every path from the start of an iteration to
      the next one passes the ``crawl`` call or a branch on which ``<rule>.is_fix_compatible``
      is known false (a rule that cannot fix cannot disturb the fixpoint); a ``break`` of the
      rules loop is accepted only after an assignment that marks an adoption (the pass is
      then repeated anyway).  The set of rules a pass iterates over does not depend on
      anything computed inside the pass loop (a filter on "what fixed last time" would let
      the final pass skip the rule the previous one enabled).

Not decided (value level, stated in the manifest): that rules do not undo each other; the
three safeguards that *stop* the loop early without a fixpoint (same fixes twice in a row,
tree text seen before, unparsable result) — each leaves a fix pending that a second run
applies, by design; that ``post`` phase fixes never re-enable a ``main`` phase rule (today
every pass of the main phase crawls the whole pack because the first-pass rebinding of the
rule list persists, so the post phase finds nothing left to do — the comment above the
phases says otherwise); ``is_fix_compatible`` being declared by every rule that fixes (the
rule test harness asserts it); re-lexing/re-parsing of the written text (C12/C02); that
the written text is the final tree's text (C30 R30a-c, C11 R11b, C26).
"""

from __future__ import annotations

import ast
from typing import List, Optional, Set, Tuple

from ..cfg import Branch, atoms, cfg_of, defs_of_stmt, origins
from ..flowutil import branch_of, for_origin, param_origin
from ..index import AnalysisError, arg_of, calls_in, last_attr, short, walk_local
from ..tmpl import leaves

LINTER = "src/sqlfluff/core/linter/linter.py"
RBASE = "src/sqlfluff/core/rules/base.py"
FN = "Linter.lint_fix_parsed"
CANNOT_FIX = "is_fix_compatible"
CON = f"{LINTER}::{FN}"


# ---------------------------------------------------------------------------
# helpers
# ---------------------------------------------------------------------------
def _inside(node, anc) -> bool:
    p = node
    while p is not None:
        if p is anc:
            return True
        p = getattr(p, "_parent", None)
    return False


def _in_block(node, block) -> bool:
    return any(_inside(node, s) for s in block)


def _innermost_loop(node, stop):
    p = getattr(node, "_parent", None)
    while p is not None and p is not stop:
        if isinstance(p, (ast.For, ast.While, ast.AsyncFor)):
            # a statement in the ``else`` arm of a loop belongs to the surrounding loop
            if _in_block(node, p.body):
                return p
        p = getattr(p, "_parent", None)
    return None


def _flag_atom(e: ast.AST, pol: bool) -> Optional[Tuple[str, bool]]:
    """(flag name, truth value the flag is known to have) for one path atom."""
    if isinstance(e, ast.Name):
        return e.id, pol
    if isinstance(e, ast.Compare) and len(e.ops) == 1 and isinstance(e.left, ast.Name) and isinstance(e.comparators[0], ast.Constant):
        c, op = e.comparators[0].value, e.ops[0]
        if c is None or isinstance(c, str):
            return None
        if isinstance(op, (ast.Eq, ast.Is)):
            return e.left.id, (bool(c) if pol else not bool(c))
        if isinstance(op, (ast.NotEq, ast.IsNot)):
            return e.left.id, (not bool(c) if pol else bool(c))
        if isinstance(op, ast.Gt) and c == 0:
            return e.left.id, pol
        if isinstance(op, ast.GtE) and c == 1:
            return e.left.id, pol
        if isinstance(op, ast.Lt) and c == 1:
            return e.left.id, not pol
        if isinstance(op, ast.LtE) and c == 0:
            return e.left.id, not pol
    return None


def _xatoms(cfg, test: ast.AST, pol: bool, at, depth: int = 0):
    """Path atoms of ``test`` with polarity ``pol``; a plain local that holds the value of one
    boolean expression (``skip = a and not b``) is looked through.  Yields
    (expr, polarity, point) where ``point`` is the statement at which the atom was evaluated."""
    for e, p in atoms(test, pol):
        yield e, p, at
        if isinstance(e, ast.Name) and depth < 3:
            os_ = origins(cfg, e, at)
            if len(os_) == 1 and os_[0].kind == "expr" and not os_[0].path and isinstance(os_[0].expr, (ast.BoolOp, ast.UnaryOp, ast.Compare, ast.Attribute, ast.Name)):
                yield from _xatoms(cfg, os_[0].expr, p, os_[0].stmt, depth + 1)


def _conditions(cfg, stmt):
    out = []
    for g in cfg.guards(stmt):
        if isinstance(g.stmt, (ast.If, ast.While)):
            out += list(_xatoms(cfg, g.stmt.test, g.polarity, g.stmt))
    return out


def _assigned_truth(stmt, name: str) -> Optional[bool]:
    """Truth value ``stmt`` gives local ``name`` when it binds it to a constant (or adds a
    positive constant to it); None when it binds it to something else / does not bind it."""
    out = None
    for d in defs_of_stmt(stmt):
        if d.name != name:
            continue
        v, path = d.value, d.path
        while path and isinstance(v, (ast.Tuple, ast.List)) and isinstance(path[0], int) and path[0] < len(v.elts):
            v, path = v.elts[path[0]], path[1:]
        if not path and d.kind == "assign" and isinstance(v, ast.BinOp) and isinstance(v.op, ast.Add):
            # ``n = n + 1`` / ``n = 1 + n``: the same fact as ``n += 1``
            sides = [(v.left, v.right), (v.right, v.left)]
            if any(isinstance(a, ast.Name) and a.id == name and isinstance(b, ast.Constant) and isinstance(b.value, (int, float)) and not isinstance(b.value, bool) and b.value > 0 for a, b in sides):
                out = True
                continue
        if path or not isinstance(v, ast.Constant):
            return None
        if d.kind == "aug":
            if isinstance(stmt, ast.AugAssign) and isinstance(stmt.op, ast.Add) and isinstance(v.value, (int, float)) and v.value > 0:
                out = True
                continue
            return None
        if d.kind not in ("assign", "walrus"):
            return None
        out = bool(v.value)
    return out


def _defines(stmt, name: str) -> bool:
    return isinstance(stmt, ast.stmt) and any(d.name == name for d in defs_of_stmt(stmt))


class Roles:
    def __init__(self, f, cfg, crawls, rules_loop, pass_loop, tree, fix_param):
        self.f, self.cfg, self.crawls, self.rules_loop, self.pass_loop, self.tree, self.fix_param = f, cfg, crawls, rules_loop, pass_loop, tree, fix_param
        self.adoptions: List[ast.stmt] = []


def _roles(chk, repo) -> Roles:
    f = repo.fn(LINTER, FN)
    cfg = cfg_of(f)
    crawls = [c for c in calls_in(f) if last_attr(c) == "crawl" and isinstance(c.func, ast.Attribute)]
    chk.count("R17.crawl_calls", len(crawls))
    chk.floor("R17.crawl_calls", 1)
    loops = []
    for c in crawls:
        fo = for_origin(cfg, c.func.value, cfg.stmt_of(c))
        if fo is None or not isinstance(fo[0], ast.For):
            raise AnalysisError(f"C17: the receiver of {short(c, 50)} is not the variable of a loop over rules (fix loop restructured; re-read it)")
        loops.append(fo[0])
    if len({id(x) for x in loops}) != 1:
        raise AnalysisError("C17: crawl is called from more than one rules loop (fix loop restructured; re-read it)")
    rules_loop = loops[0]
    pass_loop = _innermost_loop(rules_loop, f)
    if pass_loop is None:
        raise AnalysisError("C17: the rules loop is not inside a pass loop (fix loop restructured; re-read it)")
    trees = set()
    fixes = set()
    for c in crawls:
        a0 = arg_of(c, 0, "tree")
        if not isinstance(a0, ast.Name):
            raise AnalysisError(f"C17: the tree handed to crawl is not a plain local ({short(c, 60)})")
        trees.add(a0.id)
        fx = arg_of(c, 2, "fix")
        p = param_origin(cfg, fx, cfg.stmt_of(c)) if fx is not None else None
        fixes.add(p)
    if len(trees) != 1:
        raise AnalysisError(f"C17: crawl calls are handed different working trees: {sorted(trees)}")
    fix_param = next(iter(fixes)) if len(fixes) == 1 else None
    if fix_param is None:
        raise AnalysisError("C17: crawl(fix=..) is not given an unmodified parameter: the fix switch cannot be identified")
    r = Roles(f, cfg, crawls, rules_loop, pass_loop, next(iter(trees)), fix_param)
    for s in walk_local(pass_loop):
        if isinstance(s, ast.stmt) and _in_block(s, pass_loop.body) and not isinstance(s, (ast.For, ast.AsyncFor, ast.With)) and _defines(s, r.tree):
            r.adoptions.append(s)
    r.adoptions.sort(key=lambda s: s.lineno)
    chk.count("R17a.adoption_sites", len(r.adoptions))
    chk.floor("R17a.adoption_sites", 1)
    return r


# ---------------------------------------------------------------------------
# R17a
# ---------------------------------------------------------------------------
def _returns_working_tree(r: Roles, ret: ast.Return) -> bool:
    if ret.value is None:
        return False
    v = ret.value.elts[0] if isinstance(ret.value, ast.Tuple) and ret.value.elts else ret.value
    rd = r.cfg.reaching()
    for n in ast.walk(v):
        if isinstance(n, ast.Name) and isinstance(n.ctx, ast.Load):
            if any(d.stmt in r.adoptions for d in rd.defs_at(ret, n.id)):
                return True
    return False


def _mark_sets(r: Roles, flag: str, truth: bool) -> List[ast.stmt]:
    return [s for s in walk_local(r.pass_loop) if isinstance(s, ast.stmt) and _in_block(s, r.pass_loop.body) and _defines(s, flag) and _assigned_truth(s, flag) is truth]


def _r17a(chk, r: Roles) -> Set[int]:
    cfg, loop = r.cfg, r.pass_loop
    head = lambda n: n is loop  # noqa: E731
    bt = branch_of(cfg, loop, True)
    leaves_: List[ast.stmt] = []
    for s in walk_local(loop):
        if not (isinstance(s, ast.stmt) and _in_block(s, loop.body)):
            continue
        if isinstance(s, ast.Break) and _innermost_loop(s, r.f) is loop:
            leaves_.append(s)
        elif isinstance(s, ast.Return) and _returns_working_tree(r, s):
            leaves_.append(s)
    leaves_.sort(key=lambda s: s.lineno)
    chk.count("R17a.pass_loop_exits", len(leaves_))
    marks_used: Set[int] = set()
    n_pairs = 0
    for a in r.adoptions:
        # adoption and flag bound together from a helper's result: nothing to decide here
        for lv in leaves_:
            if not cfg.paths_avoiding(a, lv, head):
                continue
            n_pairs += 1
            kind = "break" if isinstance(lv, ast.Break) else "return"
            cands = []
            for e, pol, at in _conditions(cfg, lv):
                fa = _flag_atom(e, pol)
                if fa is not None:
                    # the flag's value is known where the test was evaluated: at the guard itself, or
                    # where a local holding the test was computed
                    cands.append((fa[0], fa[1], at if isinstance(at, ast.stmt) and not isinstance(at, (ast.If, ast.While)) else lv))
            ok, why = False, "the exit is not conditioned on a flag"
            for flag, truth, point in cands:
                marks = _mark_sets(r, flag, not truth)
                if not marks:
                    others = [s for s in walk_local(loop) if isinstance(s, ast.stmt) and _in_block(s, loop.body) and _defines(s, flag)]
                    if any(s is a for s in others):
                        raise AnalysisError(f"C17: the working tree and the flag '{flag}' are bound by one statement ({short(a, 60)}): adoption moved into a helper; re-read the loop")
                    why = f"nothing in the pass loop gives '{flag}' the value that blocks the exit"
                    continue
                mids = {id(m) for m in marks}
                if point is not lv and cfg.paths_avoiding(a, lv, lambda n: n is loop or n is point):
                    why = f"the test on '{flag}' is evaluated ({short(point, 40)}) on a path before the adoption"
                    continue
                blocked = lambda n: n is loop or id(n) in mids  # noqa: E731
                marked_before = bt is not None and not cfg.paths_avoiding(bt, a, blocked)
                if id(a) not in mids and not marked_before and cfg.paths_avoiding(a, point, blocked):
                    why = f"a path through the adoption to the exit sets no '{flag}'"
                    continue
                resets = [s for s in walk_local(loop) if isinstance(s, ast.stmt) and _in_block(s, loop.body) and _defines(s, flag) and id(s) not in mids]
                bad = [d for d in resets for m in marks if cfg.paths_avoiding(m, d, head) and cfg.paths_avoiding(d, point, head)]
                if bad:
                    why = f"'{flag}' is assigned again ({short(bad[0], 40)}) between the adoption and the exit within the same pass"
                    continue
                ok = True
                marks_used |= mids
                break
            chk.require(
                ok, "R17a", lv,
                f"after a fixed tree was adopted ({short(a, 50)}) the pass loop can be left by this {kind} without another complete pass over the rules: {why}; "
                "the returned tree is then not a fixpoint and a second run changes the file again",
                detail=f"fixpoint exit: {kind} after '{short(a, 50)}' needs a pass that adopted nothing", construct=CON,
            )
            chk.sample({"rule": "R17a", "adoption": f"{LINTER}:{a.lineno}", "exit": f"{kind} at line {lv.lineno}", "flags": [f"{n}={t}" for n, t, _ in cands], "proved": ok})
    chk.count("R17a.adoption_exit_pairs", n_pairs)
    chk.require(
        n_pairs >= 1, "R17a", loop,
        "no exit of the pass loop is reachable from an adoption without another pass: the loop can only end by exhaustion, so nothing is ever fixed",
        detail="a fixpoint exit exists", construct=CON,
    )

    # ---- exhaustion of the pass loop -------------------------------------------------------
    fixp = r.fix_param
    rebound = [s for s in walk_local(r.f) if isinstance(s, ast.stmt) and _defines(s, fixp)]
    chk.require(not rebound, "R17a", rebound[0] if rebound else r.f, f"the fix switch '{fixp}' is rebound inside lint_fix_parsed: paths under it are no longer comparable", detail="fix switch never rebound", construct=CON)
    for a in r.adoptions:
        under = any(pol and isinstance(e, ast.Name) and param_origin(cfg, e, at) == fixp for e, pol, at in _conditions(cfg, a))
        chk.require(under, "R17a", a, f"the working tree is rebound ({short(a, 50)}) on a path on which the fix switch is not known to be set", detail=f"adoption under the fix switch: {short(a, 50)}", construct=CON)
    bf = branch_of(cfg, loop, False)
    if bf is not None and cfg.reachable(bf):
        def stops(n) -> bool:
            if isinstance(n, ast.Return) and _in_block(n, loop.orelse):
                return True
            if isinstance(n, Branch) and isinstance(n.stmt, ast.If) and _in_block(n.stmt, loop.orelse):
                return any(not pol and isinstance(e, ast.Name) and param_origin(cfg, e, at) == fixp for e, pol, at in _xatoms(cfg, n.stmt.test, n.polarity, n.stmt))
            return False

        falls = cfg.paths_avoiding(bf, cfg.exit, stops)
        chk.require(
            not falls, "R17a", loop,
            "when the pass loop is exhausted (loop limit) while fixing, control can reach the normal return with the working tree of an unfinished pass",
            detail="loop-limit exhaustion never falls through while fixing", construct=CON,
        )
        chk.count("R17a.exhaustion_arms", 1)
    return marks_used


# ---------------------------------------------------------------------------
# R17b
# ---------------------------------------------------------------------------
def _r17b(chk, repo, r: Roles, marks: Set[int]) -> None:
    cfg, rl = r.cfg, r.rules_loop
    base = repo.cls(RBASE, "BaseRule")
    declared = any(isinstance(s, (ast.Assign, ast.AnnAssign)) and any(isinstance(t, ast.Name) and t.id == CANNOT_FIX for t in (s.targets if isinstance(s, ast.Assign) else [s.target])) for s in base.body)
    if not declared:
        raise AnalysisError(f"C17: BaseRule no longer declares {CANNOT_FIX}")
    var = r.crawls[0].func.value.id
    crawl_stmts = {id(cfg.stmt_of(c)) for c in r.crawls}
    bt = branch_of(cfg, rl, True)
    if bt is None:
        raise AnalysisError("C17: rules loop has no body branch")

    def cannot_fix_branch(n) -> bool:
        if not (isinstance(n, Branch) and isinstance(n.stmt, (ast.If, ast.While)) and _inside(n.stmt, rl)):
            return False
        for e, pol, at in _xatoms(cfg, n.stmt.test, n.polarity, n.stmt):
            if not pol and isinstance(e, ast.Attribute) and e.attr == CANNOT_FIX and isinstance(e.value, ast.Name) and e.value.id == var:
                fo = for_origin(cfg, e.value, at)
                if fo is not None and fo[0] is rl:
                    return True
        return False

    skips = cfg.paths_avoiding(bt, rl, lambda n: id(n) in crawl_stmts or cannot_fix_branch(n))
    chk.require(
        not skips, "R17b", rl,
        f"an iteration of the rules loop can reach the next rule without crawling and without '{var}.{CANNOT_FIX}' being false: a rule that can fix is left out of a pass, "
        "so a pass that 'changed nothing' is not a fixpoint of the rule set",
        detail="every fix-capable rule is crawled in every pass", construct=CON,
    )
    n_skip = sum(1 for n in cfg.nodes if cannot_fix_branch(n))
    chk.count("R17b.cannot_fix_skips", n_skip)
    # breaks of the rules loop
    brs = [s for s in walk_local(rl) if isinstance(s, ast.Break) and _innermost_loop(s, r.f) is rl]
    chk.count("R17b.rules_loop_breaks", len(brs))
    for b in brs:
        cut = cfg.paths_avoiding(bt, b, lambda n: id(n) in marks)
        chk.require(
            not cut, "R17b", b,
            "the rules loop can be left before every rule was crawled without an adoption having been flagged: the cut-short pass counts as a complete one",
            detail=f"break of the rules loop only after a flagged adoption ({short(cfg.stmt_of(b) or b, 40)})", construct=CON,
        )
    # the iterated rule list does not depend on per-pass state
    rd = cfg.reaching()
    n_leaves = 0
    for l in _rule_list_leaves(cfg, rl.iter, rl):
        n_leaves += 1
        if l.kind == "param":
            chk.ok("R17b", CON, f"rule list <- parameter {l.expr.arg}")
            continue
        bound = set()
        for n in ast.walk(l.expr):
            if isinstance(n, ast.comprehension):
                bound |= {x.id for x in ast.walk(n.target) if isinstance(x, ast.Name)}
        dep = []
        for n in ast.walk(l.expr):
            if isinstance(n, ast.Name) and isinstance(n.ctx, ast.Load) and n.id not in bound:
                for d in rd.defs_at(l.stmt, n.id) if l.stmt is not None else ():
                    if d.stmt is not None and (d.stmt is r.pass_loop or _in_block(d.stmt, r.pass_loop.body)):
                        dep.append(n.id)
        chk.require(
            not dep, "R17b", l.stmt if isinstance(l.stmt, ast.AST) else rl,
            f"the list of rules a pass iterates over ({short(l.expr, 60)}) depends on {sorted(set(dep))}, computed inside the pass loop: "
            "a later pass can leave out a rule that an earlier fix enabled",
            detail=f"rule list independent of per-pass state: {short(l.expr, 70)}", construct=CON,
        )
    chk.count("R17b.rule_list_origins", n_leaves)
    chk.floor("R17b.rule_list_origins", 1)


def _rule_list_leaves(cfg, e, at, depth: int = 0):
    """Origins of the iterated rule list; plain-function wrappers that take the sequence as
    their first argument (progress bars, ``list``, ``tuple``, ``sorted``) are looked through."""
    out = []
    for l in leaves(cfg, e, at):
        x = l.expr
        if l.kind == "expr" and not l.path and isinstance(x, ast.Call) and isinstance(x.func, ast.Name) and x.args and depth < 4:
            out += _rule_list_leaves(l.cfg, x.args[0], l.stmt, depth + 1)
        else:
            out.append(l)
    return out


# (relative path, qualified function) -> (number of reads reviewed, why a source position is right / harmless there)
R17C_REVIEWED = {
    ("src/sqlfluff/rules/aliasing/AL08.py", "Rule_AL08._eval"): (1, "text of the violation message only"),
    ("src/sqlfluff/rules/convention/CV03.py", "Rule_CV03._eval"): (2, "identity test: is this comma the same token as the trailing one (same source position), not a layout decision"),
    ("src/sqlfluff/utils/reflow/reindent.py", "_lint_line_buffer_indents"): (1, "debug log"),
    ("src/sqlfluff/utils/reflow/reindent.py", "_revise_skipped_source_lines"): (1, "debug log"),
    ("src/sqlfluff/utils/reflow/reindent.py", "_revise_templated_lines"): (1, "debug log"),
    ("src/sqlfluff/utils/reflow/respace.py", "_determine_aligned_inline_spacing"): (6, "explicit, opt-in `use_source_positions` mode of alignment; every read is the source-arm of a conditional whose other arm is the working position"),
}


def _r17c(chk, repo) -> None:
    """Within one fix run every pass works on a tree whose WORKING positions are recomputed after each
    adopted fix, while source positions keep pointing into the original file.  A layout decision taken on
    source line/column ('is this segment still on the line of the violation?') comes out differently
    in the run that produced the text and in the run that reads it back -- the second run then changes
    the file again."""
    n = 0
    seen = {}
    for pre in ("src/sqlfluff/rules/", "src/sqlfluff/utils/reflow/", "src/sqlfluff/utils/functional/", "src/sqlfluff/utils/analysis/"):
        for m in repo.iter_modules(pre):
            for q, f in m.functions():
                for node in walk_local(f):
                    hit = None
                    if isinstance(node, ast.Attribute) and node.attr in ("line_no", "line_pos") and isinstance(node.value, ast.Attribute) and node.value.attr == "pos_marker":
                        hit = node
                    if isinstance(node, ast.Call) and isinstance(node.func, ast.Attribute) and node.func.attr in ("source_position", "to_source_dict", "to_source_string"):
                        hit = node
                    if hit is not None:
                        n += 1
                        seen.setdefault((m.relpath, q), []).append(hit)
    for key, nodes in sorted(seen.items()):
        allowed, why = R17C_REVIEWED.get(key, (0, ""))
        for i, node in enumerate(sorted(nodes, key=lambda x: (x.lineno, x.col_offset))):
            chk.require(
                i < allowed, "R17c", node,
                f"{key[1]} reads a source position (`{short(node, 50)}`) "
                + (f"beyond the {allowed} reviewed read(s) of this function" if allowed else "and is not a reviewed site")
                + ": after an earlier fix of the same run the source line/column no longer says where the segment is, so the decision differs between the run that "
                "writes the text and the run that reads it back (use working_line_no / working_loc)",
                detail=f"{key[1]}: source-position read #{i + 1}",
            )
    chk.count("R17c.source_position_reads", n)
    chk.floor("R17c.source_position_reads", 6)


def _str_tuple(node) -> Optional[Set[str]]:
    if isinstance(node, (ast.Tuple, ast.List, ast.Set)) and all(isinstance(x, ast.Constant) and isinstance(x.value, str) for x in node.elts):
        return {x.value for x in node.elts}
    return None


def _lit_strs(node, lookup, depth: int = 0) -> Optional[Set[str]]:
    """The set of names a literal sequence of strings holds: a tuple/list/set display, a sum of such, ``tuple(..)`` /
    ``frozenset(..)`` of one, or a name that ``lookup`` resolves to the expression it was bound to (once)."""
    if depth > 4 or node is None:
        return None
    got = _str_tuple(node)
    if got is not None:
        return got
    if isinstance(node, ast.BinOp) and isinstance(node.op, (ast.Add, ast.BitOr)):
        l, r = _lit_strs(node.left, lookup, depth + 1), _lit_strs(node.right, lookup, depth + 1)
        return None if l is None or r is None else l | r
    if isinstance(node, ast.Call) and isinstance(node.func, ast.Name) and node.func.id in ("tuple", "list", "set", "frozenset", "sorted") and len(node.args) == 1 and not node.keywords:
        return _lit_strs(node.args[0], lookup, depth + 1)
    if isinstance(node, (ast.Name, ast.Attribute)):
        return _lit_strs(lookup(node), lookup, depth + 1)
    return None


def _class_lookup(cls_node, mod_tree):
    """Resolver for names used in a class body / ``self.X`` reads: the single binding of the name in the class body,
    else at module level."""
    def find(body, name):
        vals = []
        for st in body:
            tg = st.target if isinstance(st, ast.AnnAssign) else (st.targets[0] if isinstance(st, ast.Assign) and len(st.targets) == 1 else None)
            if isinstance(tg, ast.Name) and tg.id == name and st.value is not None:
                vals.append(st.value)
        return vals[0] if len(vals) == 1 else None

    def lookup(node):
        if isinstance(node, ast.Attribute):
            if isinstance(node.value, ast.Name) and node.value.id in ("self", "cls", cls_node.name):
                return find(cls_node.body, node.attr)
            return None
        return find(cls_node.body, node.id) or find(mod_tree.body, node.id)

    return lookup


_IS_TYPE = ("is_type", "class_is_type")


def _r17d(chk, repo) -> None:
    """The keyword rule and the datatype rule never own the same token (two policies -> a fix each run).

    Spellings seen through: the excluded types as a literal tuple/list, a sum of literals or a named class/module
    constant; read in ``_eval`` directly or through a local, by ``is_type(*ts)`` / ``class_is_type(*ts)`` or
    ``any(p.is_type(t) for t in ts)``; in CP05 the container test on ``context.segment`` directly or through a local,
    held in a boolean local or as an early exit, its type names literal or a starred local/class tuple; the children
    loop as a ``for``, a comprehension, or inside a nested helper called under the test."""
    from ..idioms import conditions_at

    CP01 = "src/sqlfluff/rules/capitalisation/CP01.py"
    CP05 = "src/sqlfluff/rules/capitalisation/CP05.py"
    c1 = repo.cls(CP01, "Rule_CP01")
    look1 = _class_lookup(c1, repo.mod(CP01).tree)
    excl = _lit_strs(ast.Attribute(value=ast.Name(id="self"), attr="_exclude_parent_types"), look1)
    if excl is None:
        raise AnalysisError("R17d: Rule_CP01._exclude_parent_types is no longer a literal tuple of type names (anchor refactored)")
    e1 = repo.fn(CP01, "Rule_CP01._eval")
    cfg1 = cfg_of(e1)

    def is_excl(e, at) -> bool:
        if isinstance(e, ast.Attribute):
            return e.attr == "_exclude_parent_types"
        if isinstance(e, ast.Name):
            os_ = origins(cfg1, e, at)
            return bool(os_) and all(o.kind == "expr" and not o.path and isinstance(o.expr, ast.Attribute) and o.expr.attr == "_exclude_parent_types" for o in os_)
        return False

    uses = []
    for c in calls_in(e1):
        at = cfg1.stmt_of(c)
        if last_attr(c) in _IS_TYPE and any(isinstance(a, ast.Starred) and is_excl(a.value, at) for a in c.args):
            uses.append(c)
        elif isinstance(c.func, ast.Name) and c.func.id == "any" and len(c.args) == 1 and isinstance(c.args[0], (ast.GeneratorExp, ast.ListComp)):
            g = c.args[0]
            if len(g.generators) == 1 and not g.generators[0].ifs and isinstance(g.generators[0].target, ast.Name) and is_excl(g.generators[0].iter, at):
                v = g.generators[0].target.id
                if isinstance(g.elt, ast.Call) and last_attr(g.elt) in _IS_TYPE and len(g.elt.args) == 1 and isinstance(g.elt.args[0], ast.Name) and g.elt.args[0].id == v:
                    uses.append(c)
    if not uses:
        raise AnalysisError("R17d: Rule_CP01._eval no longer tests the parent against _exclude_parent_types (anchor refactored)")

    c5 = repo.cls(CP05, "Rule_CP05")
    look5 = _class_lookup(c5, repo.mod(CP05).tree)
    e5 = repo.fn(CP05, "Rule_CP05._eval")
    cfg5 = cfg_of(e5)

    def fn_of(node):
        p = getattr(node, "_parent", None)
        while p is not None and not isinstance(p, (ast.FunctionDef, ast.AsyncFunctionDef, ast.Lambda)):
            p = getattr(p, "_parent", None)
        return p

    def stmt_in(node, fn):
        """The statement of ``fn`` (directly, not of a nested def) that contains ``node``."""
        p, last = node, None
        while p is not None and p is not fn:
            if isinstance(p, ast.stmt):
                last = p
                if fn_of(p) is fn:
                    return p
            p = getattr(p, "_parent", None)
        return last

    # the places where raw children of a segment are handed to _handle_segment
    loops = []
    for x in ast.walk(e5):
        if isinstance(x, ast.For) and isinstance(x.iter, ast.Attribute) and x.iter.attr == "segments" and any(last_attr(c) == "_handle_segment" for c in calls_in(x)):
            loops.append(x)
        elif isinstance(x, (ast.GeneratorExp, ast.ListComp, ast.SetComp)) and any(isinstance(g.iter, ast.Attribute) and g.iter.attr == "segments" for g in x.generators) and any(last_attr(c) == "_handle_segment" for c in calls_in(x)):
            loops.append(x)

    def is_context_segment(e, cfg, at) -> bool:
        if isinstance(e, ast.Attribute):
            return e.attr == "segment"
        if isinstance(e, ast.Name):
            os_ = origins(cfg, e, at)
            return bool(os_) and all(o.kind == "expr" and not o.path and isinstance(o.expr, ast.Attribute) and o.expr.attr == "segment" for o in os_)
        return False

    def type_args(call, cfg, at) -> Set[str]:
        out: Set[str] = set()
        for a in call.args:
            if isinstance(a, ast.Constant) and isinstance(a.value, str):
                out.add(a.value)
                continue
            got = None
            if isinstance(a, ast.Starred):
                v = a.value
                if isinstance(v, ast.Name):
                    os_ = origins(cfg, v, at)
                    if len(os_) == 1 and os_[0].kind == "expr" and not os_[0].path:
                        got = _lit_strs(os_[0].expr, look5)
                    elif len(os_) == 1 and os_[0].kind == "unknown":
                        got = _lit_strs(v, look5)
                else:
                    got = _lit_strs(v, look5)
            if got is None:
                raise AnalysisError("R17d: CP05's container test is no longer a list of literal type names")
            out |= got
        return out

    def guards_at(node, depth=0):
        """is_type tests on the crawled segment known to hold where ``node`` runs (through callers of a nested helper)."""
        fn = fn_of(node)
        cfg = cfg5 if fn is e5 else cfg_of(fn)
        st = stmt_in(node, fn)
        out = []
        for e, pol in conditions_at(cfg, st):
            if pol and isinstance(e, ast.Call) and last_attr(e) in _IS_TYPE and isinstance(e.func, ast.Attribute) and is_context_segment(e.func.value, cfg, cfg.stmt_of(e) or st):
                out.append(type_args(e, cfg, cfg.stmt_of(e) or st))
        if fn is not e5 and isinstance(fn, ast.FunctionDef) and depth < 3:
            for c in calls_in(e5):
                if isinstance(c.func, ast.Name) and c.func.id == fn.name and fn_of(c) is not fn:
                    out += guards_at(c, depth + 1)
        return out

    containers: Set[str] = set()
    n = 0
    for l in loops:
        gs = guards_at(l)
        if not gs:
            continue
        ts = set().union(*gs)
        containers |= ts
        n += 1
    chk.count("R17d.cp05_container_loops", n)
    if not containers:
        raise AnalysisError("R17d: Rule_CP05._eval no longer re-cases the raw children of container types (anchor refactored)")
    missing = sorted(containers - excl)
    chk.require(
        not missing, "R17d", c1,
        f"CP05 re-cases every raw child (keywords included) of {sorted(containers)} under its own policy, but CP01 does not leave the children of {missing} alone (_exclude_parent_types = "
        f"{sorted(excl)}): a keyword there belongs to both rules, and with different keyword / datatype policies each run of fix flips it again (`TIMESTAMP WITH TIME ZONE` in postgres)",
        detail="CP01 leaves the children of every container CP05 re-cases",
    )


def run(chk) -> None:
    repo = chk.repo
    chk.rule("R17a", "every exit of the fix pass loop reachable from an adoption of a fixed tree is blocked by a flag that the adoption sets and nothing resets within the pass; loop-limit exhaustion never falls through to the normal return while fixing")
    chk.rule("R17b", "every iteration of the rules loop crawls the rule unless it cannot fix; the rules loop is cut short only after a flagged adoption; the iterated rule list does not depend on per-pass state")
    r = _roles(chk, repo)
    marks = _r17a(chk, r)
    _r17b(chk, repo, r, marks)
    chk.rule("R17c", "rule and reflow code decides on working positions: reads of a segment's SOURCE line/column (stale once an earlier fix of the same run has moved text) occur only at the reviewed sites")
    _r17c(chk, repo)
    chk.rule("R17d", "the keyword-capitalisation rule and the datatype-capitalisation rule own disjoint tokens: every container type whose raw children CP05 re-cases is in CP01's _exclude_parent_types (a token owned by two rules with independent policies is changed by every run)")
    _r17d(chk, repo)
    chk.sample({"rules_loop": f"{LINTER}:{r.rules_loop.lineno}", "pass_loop": f"{LINTER}:{r.pass_loop.lineno}", "working_tree": r.tree, "fix_switch": r.fix_param, "adoptions": [a.lineno for a in r.adoptions]})
    chk.note(
        "Partial claim: decides that the fix loop returns only after a complete pass that adopted nothing (or returns the saved tree). "
        "NOT decided: that rules do not undo each other (one structural instance is: R17d, token ownership of CP01 vs CP05); the early-stop safeguards (same fixes twice, text seen before, unparsable result) which by design leave a fix pending; "
        "post-phase fixes re-enabling main-phase rules; is_fix_compatible declarations; re-lex/re-parse stability of the written text (C12/C02). "
        "The rollback arm is decided by C18 R18b, adoption validity by C13 R13a, the written text by C30/C11/C26."
    )


from ..selftest import Variant  # noqa: E402

_RET = "tree, initial_linting_errors, ignore_mask, rule_timings"

# One pass of the fix loop, from the reset of the flag to the exit test: for variants that re-spell the flag
# at all three sites at once (stale as soon as any line of the pass changes; the single-site variants stay).
_PASS_SPAN = r'''                changed = False

                if is_first_linter_pass():
                    # In order to compute initial_linting_errors correctly, need
                    # to run all rules on the first loop of the main phase.
                    rules_this_phase = rule_pack.rules
                progress_bar_crawler = tqdm(
                    rules_this_phase,
                    desc="lint by rules",
                    leave=False,
                    disable=progress_bar_configuration.disable_progress_bar,
                )

                for crawler in progress_bar_crawler:
                    # Performance: After first loop pass, skip rules that don't
                    # do fixes. Any results returned won't be seen by the user
                    # anyway (linting errors ADDED by rules changing SQL, are
                    # not reported back to the user - only initial linting errors),
                    # so there's absolutely no reason to run them.
                    if (
                        fix
                        and not is_first_linter_pass()
                        and not crawler.is_fix_compatible
                    ):
                        continue

                    progress_bar_crawler.set_description(f"rule {crawler.code}")
                    t0 = time.monotonic()

                    # fixes should be a dict {} with keys edit, delete, create
                    # delete is just a list of segments to delete
                    # edit and create are list of tuples. The first element is
                    # the "anchor", the segment to look for either to edit or to
                    # insert BEFORE. The second is the element to insert or create.
                    linting_errors, _, fixes, _ = crawler.crawl(
                        tree,
                        dialect=config.get("dialect_obj"),
                        fix=fix,
                        templated_file=templated_file,
                        ignore_mask=ignore_mask,
                        fname=fname,
                        config=config,
                    )
                    if is_first_linter_pass():
                        initial_linting_errors += linting_errors

                    if fix and fixes:
                        linter_logger.info(f"Applying Fixes [{crawler.code}]: {fixes}")
                        # Do some sanity checks on the fixes before applying.
                        anchor_info = compute_anchor_edit_info(fixes)
                        if any(
                            not info.is_valid for info in anchor_info.values()
                        ):  # pragma: no cover
                            message = (
                                f"Rule {crawler.code} returned conflicting "
                                "fixes with the same anchor. This is only "
                                "supported for create_before+create_after, so "
                                "the fixes will not be applied. "
                            )
                            for uuid, info in anchor_info.items():
                                if not info.is_valid:
                                    message += f"\n{uuid}:"
                                    for _fix in info.fixes:
                                        message += f"\n    {_fix}"
                            cls._report_conflicting_fixes_same_anchor(message)
                            for lint_result in linting_errors:
                                lint_result.fixes = []
                        elif fixes == last_fixes:
                            # If we generate the same fixes two times in a row,
                            # that means we're in a loop, and we want to stop.
                            # (Fixes should address issues, hence different
                            # and/or fewer fixes next time.)
                            # This is most likely because fixes could not be safely
                            # applied last time, so we should stop gracefully.
                            linter_logger.debug(
                                f"Fixes generated for {crawler.code} are the same as "
                                "the previous pass. Assuming that we cannot apply them "
                                "safely. Passing gracefully."
                            )
                        else:
                            # This is the happy path. We have fixes, now we want to
                            # apply them.
                            last_fixes = fixes
                            new_tree, _, _, _valid = apply_fixes(
                                tree,
                                config.get("dialect_obj"),
                                crawler.code,
                                anchor_info,
                                fix_even_unparsable=config.get("fix_even_unparsable"),
                                max_parse_depth=config.get("max_parse_depth"),
                                max_parse_nodes=config.get("max_parse_nodes"),
                            )

                            # Check for infinite loops. We use a combination of the
                            # fixed templated file and the list of source fixes to
                            # apply.
                            loop_check_tuple = (
                                new_tree.raw,
                                tuple(new_tree.source_fixes),
                            )
                            # Was anything actually applied? If not, then the fixes we
                            # had cannot be safely applied and we should stop trying.
                            if loop_check_tuple == (tree.raw, tuple(tree.source_fixes)):
                                linter_logger.debug(
                                    f"Fixes for {crawler.code} could not be safely be "
                                    "applied. Likely due to initially unparsable file."
                                )
                            elif not _valid:
                                # The fixes result in an invalid file. Don't apply
                                # the fix and skip onward. Show a warning.
                                linter_logger.warning(
                                    f"Fixes for {crawler.code} not applied, as it "
                                    "would result in an unparsable file. Please "
                                    "report this as a bug with a minimal query "
                                    "which demonstrates this warning."
                                )
                            elif loop_check_tuple not in previous_versions:
                                # We've not seen this version of the file so
                                # far. Continue.
                                tree = new_tree
                                previous_versions.add(loop_check_tuple)
                                changed = True
                                continue
                            else:
                                # Applying these fixes took us back to a state
                                # which we've seen before. We're in a loop, so
                                # we want to stop.
                                cls._warn_unfixable(crawler.code)

                    # Record rule timing
                    rule_timings.append(
                        (crawler.code, crawler.name, time.monotonic() - t0)
                    )

                if fix and not changed:
'''


def _respell(span: str, *pairs) -> str:
    for old, new in pairs:
        assert span.count(old) == 1, old
        span = span.replace(old, new)
    return span


VARIANTS: List[Variant] = [
    Variant(
        "cp01-also-owns-datetime-type-keywords", "src/sqlfluff/rules/capitalisation/CP01.py",
        '        "datetime_type_identifier",\n',
        "",
        "R17d", "Rule_CP01", "seeded C17-7",
    ),
    Variant(
        "cp05-recases-children-of-a-new-container", "src/sqlfluff/rules/capitalisation/CP05.py",
        '            "primitive_type", "datetime_type_identifier", "data_type"\n        ):\n            for seg in',
        '            "primitive_type", "datetime_type_identifier", "data_type", "array_type"\n        ):\n            for seg in',
        "R17d", "Rule_CP01", "the other side of the same pair: CP05 starts owning children CP01 still owns",
    ),
    # behaviour-preserving refactors: must stay quiet (R17d sweep)
    Variant(
        "quiet-cp01-excluded-parents-from-a-named-constant", "src/sqlfluff/rules/capitalisation/CP01.py",
        '    _exclude_parent_types: tuple[str, ...] = (\n        "data_type",\n        "datetime_type_identifier",\n        "primitive_type",\n    )\n',
        '    _DATATYPE_CONTAINERS = ("data_type", "datetime_type_identifier", "primitive_type")\n    _exclude_parent_types: tuple[str, ...] = _DATATYPE_CONTAINERS\n',
        "QUIET", None, "R17d: the tuple through a named class-level constant",
    ),
    Variant(
        "quiet-cp01-excluded-parents-as-a-sum-of-lists", "src/sqlfluff/rules/capitalisation/CP01.py",
        '    _exclude_parent_types: tuple[str, ...] = (\n        "data_type",\n        "datetime_type_identifier",\n        "primitive_type",\n    )\n',
        '    _exclude_parent_types = ("primitive_type", "data_type") + (\n        "datetime_type_identifier",\n    )\n',
        "QUIET", None, "R17d: same three names, reordered, as a sum of two tuples, no annotation",
    ),
    Variant(
        "quiet-cp01-excluded-parents-through-a-local", "src/sqlfluff/rules/capitalisation/CP01.py",
        "        if context.segment.is_type(*self._exclude_types) or parent.is_type(\n            *self._exclude_parent_types\n        ):\n            return [LintResult(memory=context.memory)]\n",
        "        skipped_parents = self._exclude_parent_types\n        if context.segment.is_type(*self._exclude_types):\n            return [LintResult(memory=context.memory)]\n        parent_is_skipped = parent.is_type(*skipped_parents)\n        if parent_is_skipped:\n            return [LintResult(memory=context.memory)]\n",
        "QUIET", None, "R17d: the tuple through a local, the `or` as two early returns, the test in a boolean local",
    ),
    Variant(
        "quiet-cp01-excluded-parents-tested-one-by-one", "src/sqlfluff/rules/capitalisation/CP01.py",
        "        if context.segment.is_type(*self._exclude_types) or parent.is_type(\n            *self._exclude_parent_types\n        ):\n",
        "        if context.segment.is_type(*self._exclude_types) or any(\n            parent.is_type(t) for t in self._exclude_parent_types\n        ):\n",
        "QUIET", None, "R17d: is_type(*ts) is any(is_type(t) for t in ts)",
    ),
    Variant(
        "quiet-cp01-excluded-parents-class-is-type", "src/sqlfluff/rules/capitalisation/CP01.py",
        "        if context.segment.is_type(*self._exclude_types) or parent.is_type(\n            *self._exclude_parent_types\n        ):\n",
        "        if context.segment.is_type(*self._exclude_types) or parent.class_is_type(\n            *self._exclude_parent_types\n        ):\n",
        "QUIET", None, "R17d: is_type is defined as class_is_type",
    ),
    Variant(
        "quiet-cp05-container-segment-through-a-local", "src/sqlfluff/rules/capitalisation/CP05.py",
        '        if context.segment.is_type(\n            "primitive_type", "datetime_type_identifier", "data_type"\n        ):\n            for seg in context.segment.segments:\n',
        '        container = context.segment\n        is_container = container.is_type(\n            "primitive_type", "datetime_type_identifier", "data_type"\n        )\n        if is_container:\n            for seg in container.segments:\n',
        "QUIET", None, "R17d: the segment and the test through locals",
    ),
    Variant(
        "quiet-cp05-container-types-in-a-local-tuple", "src/sqlfluff/rules/capitalisation/CP05.py",
        '        if context.segment.is_type(\n            "primitive_type", "datetime_type_identifier", "data_type"\n        ):\n            for seg in context.segment.segments:\n',
        '        container_types = ("primitive_type", "datetime_type_identifier", "data_type")\n        if context.segment.is_type(*container_types):\n            for child in context.segment.segments:\n                seg = child\n',
        "QUIET", None, "R17d: the type names in a local tuple, the loop variable renamed",
    ),
    Variant(
        "quiet-cp05-children-recased-in-a-comprehension", "src/sqlfluff/rules/capitalisation/CP05.py",
        '            for seg in context.segment.segments:\n                # We don\'t want to edit symbols, quoted things, identifiers\n                # or comments if they appear.\n                if seg.is_type(\n                    "symbol", "identifier", "quoted_literal", "comment"\n                ) or not seg.is_type("raw"):\n                    continue\n                res = self._handle_segment(seg, context)\n                if res:\n                    results.append(res)\n',
        '            handled = [\n                self._handle_segment(seg, context)\n                for seg in context.segment.segments\n                if seg.is_type("raw")\n                and not seg.is_type("symbol", "identifier", "quoted_literal", "comment")\n            ]\n            results.extend(res for res in handled if res)\n',
        "QUIET", None, "R17d: the loop as a comprehension (same order of calls, same filter)",
    ),
    Variant(
        "quiet-cp05-children-recased-by-a-method", "src/sqlfluff/rules/capitalisation/CP05.py",
        '            for seg in context.segment.segments:\n                # We don\'t want to edit symbols, quoted things, identifiers\n                # or comments if they appear.\n                if seg.is_type(\n                    "symbol", "identifier", "quoted_literal", "comment"\n                ) or not seg.is_type("raw"):\n                    continue\n                res = self._handle_segment(seg, context)\n                if res:\n                    results.append(res)\n',
        '            def _recase_children(container):\n                for seg in container.segments:\n                    if seg.is_type(\n                        "symbol", "identifier", "quoted_literal", "comment"\n                    ) or not seg.is_type("raw"):\n                        continue\n                    res = self._handle_segment(seg, context)\n                    if res:\n                        results.append(res)\n\n            _recase_children(context.segment)\n',
        "QUIET", None, "R17d: the loop in a nested helper called under the same test",
    ),
    # breaking twins of the spellings above
    Variant(
        "cp01-named-constant-misses-datetime", "src/sqlfluff/rules/capitalisation/CP01.py",
        '    _exclude_parent_types: tuple[str, ...] = (\n        "data_type",\n        "datetime_type_identifier",\n        "primitive_type",\n    )\n',
        '    _DATATYPE_CONTAINERS = ("data_type", "primitive_type")\n    _exclude_parent_types: tuple[str, ...] = _DATATYPE_CONTAINERS\n',
        "R17d", "Rule_CP01", "named-constant twin of seeded C17-7",
    ),
    Variant(
        "cp01-sum-of-tuples-misses-primitive", "src/sqlfluff/rules/capitalisation/CP01.py",
        '    _exclude_parent_types: tuple[str, ...] = (\n        "data_type",\n        "datetime_type_identifier",\n        "primitive_type",\n    )\n',
        '    _exclude_parent_types = ("data_type",) + (\n        "datetime_type_identifier",\n    )\n',
        "R17d", "Rule_CP01", "sum twin",
    ),
    Variant(
        "cp05-local-tuple-gains-a-container", "src/sqlfluff/rules/capitalisation/CP05.py",
        '        if context.segment.is_type(\n            "primitive_type", "datetime_type_identifier", "data_type"\n        ):\n            for seg in context.segment.segments:\n',
        '        container_types = ("primitive_type", "datetime_type_identifier", "data_type", "array_type")\n        if context.segment.is_type(*container_types):\n            for seg in context.segment.segments:\n',
        "R17d", "Rule_CP01", "local-tuple twin",
    ),
    Variant(
        "cp05-boolean-local-gains-a-container", "src/sqlfluff/rules/capitalisation/CP05.py",
        '        if context.segment.is_type(\n            "primitive_type", "datetime_type_identifier", "data_type"\n        ):\n            for seg in context.segment.segments:\n',
        '        container = context.segment\n        is_container = container.is_type(\n            "primitive_type", "datetime_type_identifier", "data_type", "struct_type"\n        )\n        if is_container:\n            for seg in container.segments:\n',
        "R17d", "Rule_CP01", "boolean-local twin",
    ),
    Variant(
        "cp05-comprehension-under-a-wider-test", "src/sqlfluff/rules/capitalisation/CP05.py",
        '        if context.segment.is_type(\n            "primitive_type", "datetime_type_identifier", "data_type"\n        ):\n            for seg in context.segment.segments:\n                # We don\'t want to edit symbols, quoted things, identifiers\n                # or comments if they appear.\n                if seg.is_type(\n                    "symbol", "identifier", "quoted_literal", "comment"\n                ) or not seg.is_type("raw"):\n                    continue\n                res = self._handle_segment(seg, context)\n                if res:\n                    results.append(res)\n',
        '        if context.segment.is_type(\n            "primitive_type", "datetime_type_identifier", "data_type", "array_type"\n        ):\n            handled = [\n                self._handle_segment(seg, context)\n                for seg in context.segment.segments\n                if seg.is_type("raw")\n                and not seg.is_type("symbol", "identifier", "quoted_literal", "comment")\n            ]\n            results.extend(res for res in handled if res)\n',
        "R17d", "Rule_CP01", "comprehension twin",
    ),
    Variant(
        "cp05-nested-helper-called-under-a-wider-test", "src/sqlfluff/rules/capitalisation/CP05.py",
        '        if context.segment.is_type(\n            "primitive_type", "datetime_type_identifier", "data_type"\n        ):\n            for seg in context.segment.segments:\n                # We don\'t want to edit symbols, quoted things, identifiers\n                # or comments if they appear.\n                if seg.is_type(\n                    "symbol", "identifier", "quoted_literal", "comment"\n                ) or not seg.is_type("raw"):\n                    continue\n                res = self._handle_segment(seg, context)\n                if res:\n                    results.append(res)\n',
        '        def _recase_children(container):\n            for seg in container.segments:\n                if seg.is_type(\n                    "symbol", "identifier", "quoted_literal", "comment"\n                ) or not seg.is_type("raw"):\n                    continue\n                res = self._handle_segment(seg, context)\n                if res:\n                    results.append(res)\n\n        if context.segment.is_type(\n            "primitive_type", "datetime_type_identifier", "data_type", "array_type"\n        ):\n            _recase_children(context.segment)\n',
        "R17d", "Rule_CP01", "nested-helper twin: the helper defined outside the test and called under a wider one",
    ),
    Variant(
        "lt05-comment-scan-bounded-by-the-source-line", "src/sqlfluff/rules/layout/LT05.py",
        "                    if (\n                        seg.pos_marker.working_line_no\n                        != res.anchor.pos_marker.working_line_no\n                    ):\n",
        "                    if seg.pos_marker.line_no != res.anchor.pos_marker.line_no:\n",
        "R17c", "LT05", "seeded C17-1: a long line split by LT09 in the same run is only broken by LT05 in the next run", count=2,
    ),
    Variant(
        "quiet-lt05-working-line-through-locals", "src/sqlfluff/rules/layout/LT05.py",
        "                    if (\n                        seg.pos_marker.working_line_no\n                        != res.anchor.pos_marker.working_line_no\n                    ):\n",
        "                    seg_line = seg.pos_marker.working_line_no\n                    anchor_line = res.anchor.pos_marker.working_line_no\n                    if seg_line != anchor_line:\n",
        "QUIET", None, "working lines through locals", count=2,
    ),
    # ---- behaviour-preserving edits: the check must stay quiet -------------------------------
    Variant(
        "quiet-flag-renamed", LINTER, "changed", "applied_any", "QUIET", None,
        "the flag local renamed at its three occurrences", count=3,
    ),
    Variant(
        "quiet-adoption-and-flag-in-one-tuple-assignment", LINTER,
        "                                tree = new_tree\n                                previous_versions.add(loop_check_tuple)\n                                changed = True\n",
        "                                previous_versions.add(loop_check_tuple)\n                                tree, changed = new_tree, True\n",
        "QUIET", None, "tree and flag bound by one tuple assignment, order of independent statements swapped",
    ),
    Variant(
        "quiet-exit-test-inverted-with-continue", LINTER,
        "                if fix and not changed:\n                    # We did not change the file.",
        "                if not fix or changed:\n                    continue\n                if True:\n                    # We did not change the file.",
        "QUIET", None, "exit test inverted into an early continue of the pass loop",
    ),
    Variant(
        "quiet-exit-test-through-flag-local", LINTER,
        "                if fix and not changed:\n",
        "                stable = not changed\n                if fix and stable:\n",
        "QUIET", None, "the negated flag kept in a local computed after the rules loop",
    ),
    Variant(
        "quiet-skip-test-through-local", LINTER,
        "                    if (\n                        fix\n                        and not is_first_linter_pass()\n                        and not crawler.is_fix_compatible\n                    ):\n                        continue\n",
        "                    cannot_matter = not crawler.is_fix_compatible and not is_first_linter_pass()\n                    if fix and cannot_matter:\n                        continue\n",
        "QUIET", None, "skip test hoisted into a local, conjuncts reordered",
    ),
    Variant(
        "quiet-restart-pass-after-each-adoption", LINTER,
        "                                changed = True\n                                continue\n",
        "                                changed = True\n                                break\n",
        "QUIET", None, "the rules loop is left right after a flagged adoption: the pass is repeated anyway (property preserving)",
    ),
    Variant(
        "quiet-first-pass-rule-list-copied", LINTER,
        "                    rules_this_phase = rule_pack.rules\n                progress_bar_crawler",
        "                    every_rule = list(rule_pack.rules)\n                    rules_this_phase = every_rule\n                progress_bar_crawler",
        "QUIET", None, "first-pass rule list through list() and a temp",
    ),
    Variant(
        "quiet-adoption-arm-inverted-flag-set-first", LINTER,
        "                            elif loop_check_tuple not in previous_versions:\n                                # We've not seen this version of the file so\n                                # far. Continue.\n                                tree = new_tree\n                                previous_versions.add(loop_check_tuple)\n                                changed = True\n                                continue\n                            else:\n                                # Applying these fixes took us back to a state\n                                # which we've seen before. We're in a loop, so\n                                # we want to stop.\n                                cls._warn_unfixable(crawler.code)\n",
        "                            elif loop_check_tuple in previous_versions:\n                                cls._warn_unfixable(crawler.code)\n                            else:\n                                previous_versions.add(loop_check_tuple)\n                                changed = True\n                                tree = new_tree\n                                continue\n",
        "QUIET", None, "membership test inverted, arms swapped, the flag set just before the tree is rebound",
    ),
    # behaviour-preserving refactors: must stay quiet
    Variant(
        "quiet-exit-test-as-nested-ifs", LINTER,
        "                if fix and not changed:\n                    # We did not change the file. Either the file is clean (no\n                    # fixes), or any fixes which are present will take us back\n                    # to a previous state.\n                    linter_logger.info(\n                        f\"Fix loop complete for {phase} phase. Stability \"\n                        f\"achieved after {loop}/{loop_limit} loops.\"\n                    )\n                    break\n",
        "                if fix:\n                    if not changed:\n                        linter_logger.info(\n                            f\"Fix loop complete for {phase} phase. Stability \"\n                            f\"achieved after {loop}/{loop_limit} loops.\"\n                        )\n                        break\n",
        "QUIET", None, "the conjunction of the exit test as two nested ifs",
    ),
    Variant(
        "quiet-exit-test-flag-is-false", LINTER,
        "                if fix and not changed:\n", "                if fix and changed is False:\n",
        "QUIET", None, "the flag only ever holds True/False: `changed is False` is `not changed`",
    ),
    Variant(
        "quiet-skip-test-as-nested-ifs", LINTER,
        "                    if (\n                        fix\n                        and not is_first_linter_pass()\n                        and not crawler.is_fix_compatible\n                    ):\n                        continue\n",
        "                    if fix and not is_first_linter_pass():\n                        if not crawler.is_fix_compatible:\n                            continue\n",
        "QUIET", None, "skip test split into nested ifs",
    ),
    Variant(
        "quiet-skip-test-first-pass-in-a-local", LINTER,
        "                    if (\n                        fix\n                        and not is_first_linter_pass()\n                        and not crawler.is_fix_compatible\n                    ):\n                        continue\n",
        "                    first_pass = is_first_linter_pass()\n                    can_fix = crawler.is_fix_compatible\n                    if fix and not first_pass and not can_fix:\n                        continue\n",
        "QUIET", None, "both operands of the skip test read into locals first",
    ),
    Variant(
        "quiet-skip-test-as-if-else-around-the-crawl", LINTER,
        "                    if (\n                        fix\n                        and not is_first_linter_pass()\n                        and not crawler.is_fix_compatible\n                    ):\n                        continue\n",
        "                    if not fix or is_first_linter_pass() or crawler.is_fix_compatible:\n                        pass\n                    else:\n                        continue\n",
        "QUIET", None, "De Morgan: the skip is the else arm of the negated test",
    ),
    Variant(
        "quiet-rules-loop-variable-renamed", LINTER, "crawler", "rule_obj", "QUIET", None,
        "loop variable of the rules loop (and the progress bar local) renamed", count=16,
    ),
    Variant(
        "quiet-crawl-positional-arguments", LINTER,
        "                    linting_errors, _, fixes, _ = crawler.crawl(\n                        tree,\n                        dialect=config.get(\"dialect_obj\"),\n                        fix=fix,\n                        templated_file=templated_file,\n                        ignore_mask=ignore_mask,\n                        fname=fname,\n                        config=config,\n                    )\n",
        "                    crawled = crawler.crawl(\n                        tree, config.get(\"dialect_obj\"), fix, templated_file, ignore_mask, fname, config\n                    )\n                    linting_errors, fixes = crawled[0], crawled[2]\n",
        "QUIET", None, "crawl called positionally, its result kept whole and indexed",
    ),
    Variant(
        "quiet-crawl-tree-by-keyword", LINTER,
        "                    linting_errors, _, fixes, _ = crawler.crawl(\n                        tree,\n                        dialect=config.get(\"dialect_obj\"),\n",
        "                    linting_errors, _, fixes, _ = crawler.crawl(\n                        tree=tree,\n                        dialect=config.get(\"dialect_obj\"),\n",
        "QUIET", None, "the working tree handed to crawl by keyword",
    ),
    Variant(
        "quiet-exhaustion-arm-inverted", LINTER,
        "                if fix:\n                    # The linter loop hit the limit",
        "                if not fix:\n                    pass\n                else:\n                    # The linter loop hit the limit",
        "QUIET", None, "the loop-limit arm as the else of `if not fix`",
    ),
    Variant(
        "quiet-pass-count-in-a-local", LINTER,
        "            for loop in range(loop_limit if phase == \"main\" else 2):\n",
        "            passes = loop_limit if phase == \"main\" else 2\n            for loop in range(passes):\n",
        "QUIET", None, "bound of the pass loop through a local",
    ),
    Variant(
        "quiet-phase-rule-list-built-by-a-loop", LINTER,
        "                rules_this_phase = [\n                    rule for rule in rule_pack.rules if rule.lint_phase == phase\n                ]\n",
        "                rules_this_phase = []\n                for rule in rule_pack.rules:\n                    if rule.lint_phase == phase:\n                        rules_this_phase.append(rule)\n",
        "QUIET", None, "comprehension as an append loop (outside the pass loop)",
    ),
    Variant(
        "quiet-first-pass-rule-list-by-conditional-expression", LINTER,
        "                if is_first_linter_pass():\n                    # In order to compute initial_linting_errors correctly, need\n                    # to run all rules on the first loop of the main phase.\n                    rules_this_phase = rule_pack.rules\n",
        "                rules_this_phase = rule_pack.rules if is_first_linter_pass() else rules_this_phase\n",
        "QUIET", None, "the first-pass rebinding as a conditional expression that keeps the list otherwise",
    ),
    Variant(
        "quiet-adoption-through-a-local", LINTER,
        "                                tree = new_tree\n                                previous_versions.add(loop_check_tuple)\n",
        "                                adopted = new_tree\n                                tree = adopted\n                                previous_versions.add(loop_check_tuple)\n",
        "QUIET", None, "the adopted tree through one more local",
    ),
    Variant(
        "quiet-log-line-between-flag-and-continue", LINTER,
        "                                changed = True\n                                continue\n",
        "                                changed = True\n                                linter_logger.debug(\"adopted fixes of %s\", crawler.code)\n                                continue\n",
        "QUIET", None, "a log line between the flag and the continue",
    ),
    Variant(
        "quiet-rules-loop-over-enumerate", LINTER,
        "                for crawler in progress_bar_crawler:\n",
        "                for _rule_no, crawler in enumerate(progress_bar_crawler):\n",
        "QUIET", None, "the rules loop numbered with enumerate (index unused)",
    ),
    Variant(
        "quiet-cv03-comparison-operands-swapped", "src/sqlfluff/rules/convention/CV03.py",
        "                            elif seg.pos_marker.source_position() == comma_pos:\n",
        "                            elif comma_pos == seg.pos_marker.source_position():\n",
        "QUIET", None, "operands of the reviewed identity test swapped",
    ),
    Variant(
        "quiet-al08-previous-alias-renamed", "src/sqlfluff/rules/aliasing/AL08.py",
        "previous", "earlier_alias", "QUIET", None, "local renamed in a reviewed function", count=3,
    ),
    Variant(
        "quiet-respace-source-arm-as-if-else", "src/sqlfluff/utils/reflow/respace.py",
        "        ws_line = (\n            whitespace_seg.pos_marker.line_no\n            if use_source_positions\n            else whitespace_seg.pos_marker.working_line_no\n        )\n",
        "        if use_source_positions:\n            ws_line = whitespace_seg.pos_marker.line_no\n        else:\n            ws_line = whitespace_seg.pos_marker.working_line_no\n",
        "QUIET", None, "conditional expression of a reviewed read as an if/else statement",
    ),
    Variant(
        "quiet-flag-spelled-stable-with-inverse-polarity", LINTER, _PASS_SPAN,
        _respell(_PASS_SPAN, ("                changed = False\n", "                stable = True\n"), ("                                changed = True\n", "                                stable = False\n"), ("                if fix and not changed:\n", "                if fix and stable:\n")),
        "QUIET", None, "the flag with the opposite polarity: reset to True, cleared by the adoption, exit when still set",
    ),
    Variant(
        "quiet-flag-as-counter", LINTER, _PASS_SPAN,
        _respell(_PASS_SPAN, ("                changed = False\n", "                n_adopted = 0\n"), ("                                changed = True\n", "                                n_adopted += 1\n"), ("                if fix and not changed:\n", "                if fix and n_adopted == 0:\n")),
        "QUIET", None, "adoptions counted, exit when the count is zero",
    ),
    Variant(
        "quiet-flag-as-counter-spelled-x-plus-1", LINTER, _PASS_SPAN,
        _respell(_PASS_SPAN, ("                changed = False\n", "                n_adopted = 0\n"), ("                                changed = True\n", "                                n_adopted = n_adopted + 1\n"), ("                if fix and not changed:\n", "                if fix and not n_adopted:\n")),
        "QUIET", None, "the count spelled `n = n + 1` instead of `n += 1`",
    ),
    Variant(
        "quiet-first-pass-test-evaluated-once-per-pass", LINTER, _PASS_SPAN,
        _respell(
            _PASS_SPAN, ("                changed = False\n", "                changed = False\n                first_pass = is_first_linter_pass()\n"),
            ("                        and not is_first_linter_pass()\n", "                        and not first_pass\n"),
            ("                if is_first_linter_pass():\n                    # In order", "                if first_pass:\n                    # In order"),
            ("                    if is_first_linter_pass():\n                        initial_linting_errors += linting_errors", "                    if first_pass:\n                        initial_linting_errors += linting_errors"),
        ),
        "QUIET", None, "the closure called once per pass and its value kept in a local",
    ),
    # ---- breaking edits -------------------------------------------------------------------------
    Variant(
        "counter-spelled-x-plus-1-bumped-in-the-wrong-arm", LINTER, _PASS_SPAN,
        _respell(_PASS_SPAN, ("                changed = False\n", "                n_adopted = 0\n"), ("                                changed = True\n                                continue\n", "                                continue\n"), ("                                cls._warn_unfixable(crawler.code)\n", "                                cls._warn_unfixable(crawler.code)\n                                n_adopted = n_adopted + 1\n"), ("                if fix and not changed:\n", "                if fix and not n_adopted:\n")),
        "R17a", "lint_fix_parsed", "twin of quiet-flag-as-counter-spelled-x-plus-1: the count is bumped where nothing was adopted and not where the tree was",
    ),
    Variant(
        "counter-exit-tolerates-one-adoption", LINTER, _PASS_SPAN,
        _respell(_PASS_SPAN, ("                changed = False\n", "                n_adopted = 0\n"), ("                                changed = True\n", "                                n_adopted = n_adopted + 1\n"), ("                if fix and not changed:\n", "                if fix and n_adopted <= 1:\n")),
        "R17a", "lint_fix_parsed", "twin: the exit also fires after a pass with one adoption",
    ),
    Variant(
        "flag-not-set-on-adoption", LINTER,
        "                                previous_versions.add(loop_check_tuple)\n                                changed = True\n",
        "                                previous_versions.add(loop_check_tuple)\n",
        "R17a", "lint_fix_parsed", "the loop stops after the first pass although fixes were applied: a second run applies the rest (SELECT a,b  from  t needs two passes)",
    ),
    Variant(
        "exit-not-conditioned-on-flag", LINTER,
        "                if fix and not changed:\n", "                if fix:\n",
        "R17a", "lint_fix_parsed", "one pass only",
    ),
    Variant(
        "exit-with-pass-budget-escape", LINTER,
        "                if fix and not changed:\n", "                if fix and (not changed or loop >= 3):\n",
        "R17a", "lint_fix_parsed", "gives up quietly after four passes and returns the half-fixed tree",
    ),
    Variant(
        "flag-reset-for-every-rule", LINTER,
        "                for crawler in progress_bar_crawler:\n",
        "                for crawler in progress_bar_crawler:\n                    changed = False\n",
        "R17a", "lint_fix_parsed", "only the last rule's adoption keeps the loop going",
    ),
    Variant(
        "flag-cleared-when-later-rule-has-no-fixes", LINTER,
        "                    if fix and fixes:\n                        linter_logger.info(f\"Applying Fixes",
        "                    if not fixes:\n                        changed = False\n                    if fix and fixes:\n                        linter_logger.info(f\"Applying Fixes",
        "R17a", "lint_fix_parsed",
    ),
    Variant(
        "early-return-on-last-pass", LINTER,
        "                                changed = True\n                                continue\n",
        "                                changed = True\n                                if loop + 1 == loop_limit:\n                                    return " + _RET + "\n                                continue\n",
        "R17a", "lint_fix_parsed", "avoids the rollback by returning the working tree of an unfinished pass",
    ),
    Variant(
        "loop-limit-falls-through", LINTER,
        "                    return save_tree, initial_linting_errors, ignore_mask, rule_timings\n",
        "                    tree = save_tree\n",
        "R17a", "lint_fix_parsed", "after exhausting the main phase the post phase goes on and the normal return is reached",
    ),
    Variant(
        "post-rules-skipped-in-main-passes", LINTER,
        "                        and not crawler.is_fix_compatible\n",
        "                        and (not crawler.is_fix_compatible or crawler.lint_phase != phase)\n",
        "R17b", "lint_fix_parsed", "a fix-capable rule is left out of later passes ('make the code match the comment')",
    ),
    Variant(
        "pass-cut-short-when-a-rule-has-no-fixes", LINTER,
        "                    if fix and fixes:\n                        linter_logger.info(f\"Applying Fixes",
        "                    if fix and not fixes and not is_first_linter_pass():\n                        break\n                    if fix and fixes:\n                        linter_logger.info(f\"Applying Fixes",
        "R17b", "lint_fix_parsed", "the remaining rules are never asked; 'changed nothing' is then not a fixpoint",
    ),
    Variant(
        "rule-list-narrowed-by-pass-number", LINTER,
        "                if is_first_linter_pass():\n                    # In order to compute",
        "                if loop > 1:\n                    rules_this_phase = [r for r in rules_this_phase if r.code.startswith(\"LT\")]\n                if is_first_linter_pass():\n                    # In order to compute",
        "R17b", "lint_fix_parsed", "later passes only re-run layout rules",
    ),
    Variant(
        "skip-also-when-rule-fixed-nothing-before", LINTER,
        "                    progress_bar_crawler.set_description(f\"rule {crawler.code}\")\n",
        "                    if fix and loop > 0 and crawler.code not in {f.anchor.get_type() for f in (last_fixes or [])}:\n                        continue\n                    progress_bar_crawler.set_description(f\"rule {crawler.code}\")\n",
        "R17b", "lint_fix_parsed", "a second skip that does not depend on the rule being unable to fix",
    ),
]
