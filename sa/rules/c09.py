"""C09 — python-format and placeholder templaters render faithfully.

The property relates run-time strings (rendered SQL == ``str.format`` of the source,
placeholder == source with every parameter replaced); what is decided here are the
structural conditions without which it fails on some input.

R09a  dotted-name rewrite (``{a.b}`` -> ``{sqlfluff[a.b]}``) of the python templater's
      render function, by regex AST (``re._parser``):
        .1 every consuming atom of the group that lands inside ``sqlfluff[..]`` admits
           neither ``{`` nor ``}`` — otherwise a match that starts at an escaped brace
           swallows the text up to a later dotted field (``SELECT '{{' , {a.b}``);
        .2 the opening ``{`` of the field cannot be the second brace of an escaped
           ``{{``: either a negative look-behind for ``{`` stands before it, or the
           pattern is an alternation whose earlier alternative consumes ``{{`` and the
           replacement is a callable (a template would blank the unmatched groups);
        .3 what follows the field name (the format spec) does not repeat greedily over a
           class that admits ``}`` — otherwise ``{a.b:s}.{c.d:s}`` is matched up to the
           *last* brace (a lazy repeat or a class without ``}`` is accepted).
      Accepted without a regex: a rewrite driven by ``string.Formatter`` (``.parse`` /
      a ``Formatter`` subclass) — then there is nothing to check.  A pattern the stdlib
      parser rejects or whose shape is not one of the above is *unknown* (counted).
R09b  every value returned by the render function is ``<rewritten>.format(**ctx)`` /
      ``.format_map(ctx)`` / ``Formatter().vformat(<rewritten>, .., ctx)`` where
      ``<rewritten>`` is the dotted-name rewrite of the function's *unmodified*
      parameter and ``ctx`` is the value of ``self.get_context(fname, config)``; a
      context that merely *derives* from it (fallback wrapper that invents values for
      missing keys) is only allowed under the ``ignore = templating`` switch.
R09c  ``KNOWN_STYLES`` (found by role: the module-level dict of compiled patterns that
      ``get_context`` indexes) is well formed: keys are distinct constants, every
      pattern compiles (or is *unknown*), cannot match the empty string, names no
      group other than ``param_name`` / ``quotation``, has ``param_name`` whenever it
      captures anything (a capture without it would silently be numbered
      positionally), ``param_name`` is non-empty and takes part in every match, and a
      ``quotation`` group is back-referenced after the name (closing = opening quote).
R09d  ``PlaceholderTemplater.process`` by def-use.  Abstract positions: START / END of
      the current match (``m.span()[i]``, ``m.start()``, ``m.end()``, tuple unpacking),
      PREV = {0, END of the previous match} (the loop-carried variable), LEN.
        * the loop runs ``<context[...]>.finditer(<source parameter>)``;
        * the rendered text is built only from ``source[PREV:START]`` followed by the
          replacement inside the loop and ``source[PREV:]`` after it;
        * the replacement is ``str(context[name])`` or ``name`` (optionally wrapped in
          the same ``quotation`` group on both sides) where ``name`` is the
          ``param_name`` group of the current match or ``str(counter)``; the counter
          starts at 1 and is advanced exactly on the paths that used it;
        * the slice records use the same bounds as the copied text:
          ``RawFileSlice(raw=source[a:b], source_idx=a)``, literal
          ``TemplatedFileSlice(source_slice=slice(PREV, START))``, templated
          ``slice(START, END)``, tail ``slice(PREV, LEN)``.
      Positions the evaluator cannot classify are *unknown* (counted, never reported).
R09e  python templater wiring: ``process`` hands the same unmodified ``in_str`` to
      ``slice_file`` and to ``TemplatedFile(source_str=)``, and ``templated_str`` is the
      third component of that ``slice_file`` call; in ``slice_file`` the render function
      and the raw slicer both receive the unmodified ``raw_str`` parameter and the
      returned text derives from ``render_func(raw_str)`` through pass-through /
      trimming helpers only.

Not decided: equality with ``str.format`` for every string (format-spec group of the
rewrite, ``!conversion``), templated offsets (C07), which parameters a style matches.
"""

from __future__ import annotations

import ast
import re
from typing import Dict, List, Optional, Set, Tuple

from .. import rx
from ..cfg import Branch, cfg_of, origins
from ..flow import bind_args, cone, concat_operands, is_method_bound
from ..index import AnalysisError, FuncNode, call_name, calls_in, const, kwarg, last_attr, module_of, norm, short, walk_local
from ..report import construct_of
from ..tmpl import BASE, Leaf, RegexCall, ctor_arg, ctor_fields, is_param, leaves, method_of, pattern_text, regex_call, regex_module, resolves_to_class

PY = "src/sqlfluff/core/templaters/python.py"
PH = "src/sqlfluff/core/templaters/placeholder.py"
MAGIC = "sqlfluff["
FORMATTERS = ("format", "format_map", "vformat")


# ---------------------------------------------------------------------------
# shared: locating things by role
# ---------------------------------------------------------------------------


def _templated_returns(repo, fn) -> List[Tuple[ast.Return, ast.Call]]:
    """(return stmt, TemplatedFile(...) call) for every return of ``fn`` whose value
    (or first tuple element) is a TemplatedFile construction."""
    cfg = cfg_of(fn)
    out = []
    for r in walk_local(fn):
        if not (isinstance(r, ast.Return) and r.value is not None):
            continue
        v = r.value.elts[0] if isinstance(r.value, ast.Tuple) and r.value.elts else r.value
        for l in leaves(cfg, v, r):
            if l.kind == "expr" and isinstance(l.expr, ast.Call) and resolves_to_class(repo, l.expr, "TemplatedFile"):
                out.append((r, l.expr))
    return out


def _is_get_context(call: ast.AST) -> bool:
    return isinstance(call, ast.Call) and isinstance(call.func, ast.Attribute) and call.func.attr == "get_context" and isinstance(call.func.value, (ast.Name, ast.Call))


def _nested_defs(cfg, e: ast.AST, at) -> List[ast.AST]:
    return [l.expr for l in leaves(cfg, e, at) if l.kind == "def" and isinstance(l.expr, FuncNode)]


# ---------------------------------------------------------------------------
# R09a
# ---------------------------------------------------------------------------


def _repl_introduces_magic(cfg, repl: ast.AST, at) -> Tuple[bool, Optional[ast.AST]]:
    """(replacement introduces ``sqlfluff[``, callable body or None for a template)."""
    if isinstance(repl, ast.Constant) and isinstance(repl.value, str):
        return MAGIC in repl.value, None
    body = None
    if isinstance(repl, ast.Lambda):
        body = repl
    elif isinstance(repl, ast.Name):
        for l in leaves(cfg, repl, at):
            if l.kind == "def" and isinstance(l.expr, FuncNode):
                body = l.expr
            elif l.kind == "expr" and isinstance(l.expr, ast.Lambda):
                body = l.expr
            elif l.kind == "expr" and isinstance(l.expr, ast.Constant) and isinstance(l.expr.value, str):
                return MAGIC in l.expr.value, None
        if body is None:
            m = module_of(repl)
            d = m.defs.get(repl.id)
            if isinstance(d, FuncNode):
                body = d
    if body is None:
        return False, None
    texts = [n.value for n in ast.walk(body) if isinstance(n, ast.Constant) and isinstance(n.value, str)]
    return any(MAGIC in t or t.rstrip().endswith("sqlfluff[") for t in texts), body


def _template_field_groups(template: str, pat: rx.Pattern) -> Set[int]:
    """Group numbers referenced between ``sqlfluff[`` and the next ``]`` of a template."""
    out: Set[int] = set()
    i = template.find(MAGIC)
    while i >= 0:
        j = template.find("]", i)
        seg = template[i + len(MAGIC): j if j >= 0 else len(template)]
        for a, b, c in re.findall(r"\\(\d+)|\\g<(\d+)>|\\g<([A-Za-z_]\w*)>", seg):
            if a or b:
                out.add(int(a or b))
            elif c in pat.groupdict:
                out.add(pat.groupdict[c])
        i = template.find(MAGIC, i + 1)
    return out


def _groups_with_dot(items) -> Set[int]:
    out = set()
    for op, av in rx.walk(items):
        if op is rx.SUBPATTERN and av[0] is not None:
            if any(o is rx.LITERAL and a == ord(".") for o, a in rx.walk(av[3])):
                out.add(av[0])
    # keep the innermost such groups only when nested
    return out


def _r09a_pattern(chk, rc: RegexCall, cfg, body, site) -> None:
    call = rc.call
    con = construct_of(call)
    pat = rx.parse(rc.pattern) if rc.pattern is not None else None
    if pat is None:
        chk.count("R09a.unknown_patterns")
        chk.note(f"R09a: pattern of the dotted-name rewrite at {site} is not a literal the stdlib parser accepts; not decided.")
        return
    chk.count("R09a.rewrite_patterns")
    repl = rc.args[0] if rc.args else None
    template = repl.value if isinstance(repl, ast.Constant) and isinstance(repl.value, str) else None
    if template is None and isinstance(repl, ast.Name) and body is None:
        for l in leaves(cfg, repl, cfg.stmt_of(call)):
            if l.kind == "expr" and isinstance(l.expr, ast.Constant) and isinstance(l.expr.value, str):
                template = l.expr.value
    items = pat.items()
    field_groups = _template_field_groups(template, pat) if template is not None else _groups_with_dot(items)
    chk.sample({"rule": "R09a", "site": site, "pattern": rc.pattern, "replacement": template if template is not None else "<callable>", "field_groups": sorted(field_groups)})
    if not field_groups:
        chk.count("R09a.unknown_patterns")
        chk.note(f"R09a: cannot tell which group of {rc.pattern!r} is the field name; not decided.")
        return
    # .1 — no field-name atom admits a brace
    for ch in "{}":
        bad = []
        n_atoms = 0
        for g in sorted(field_groups):
            gb = rx.group(items, g)
            if gb is None:
                continue
            for op, av in rx.char_atoms(gb):
                n_atoms += 1
                if rx.atom_admits(op, av, ch):
                    bad.append(rx.class_text(op, av))
        if ch == "{":
            chk.count("R09a.field_atoms", n_atoms)
        witness = "SELECT '{{' , {a.b}" if ch == "{" else "SELECT {x} a.b }}"
        chk.require(
            not bad, "R09a", call,
            f"the dotted-name rewrite {rc.pattern!r} lets the field name contain '{ch}' ({', '.join(sorted(set(bad)))}): a match that starts at an "
            f"escaped or unrelated brace runs on to a later dotted name and the braces in between end up inside sqlfluff[...] — a format string that "
            f"str.format accepts (e.g. {witness!r}) fails to render",
            detail=f"dotted-name rewrite: field name may contain '{ch}'", construct=con,
        )
    # .3 — the format-spec part cannot run past the closing brace of its field
    tail = _after_field(items, field_groups)
    greedy = []
    for op, av in rx.walk(tail):
        if op in rx.REPEATS and op is not rx.MIN_REPEAT and av[1] > 1:
            for o, a in av[2]:
                if o in (rx.LITERAL, rx.NOT_LITERAL, rx.ANY, rx.IN) and rx.atom_admits(o, a, "}"):
                    greedy.append(rx.class_text(o, a) + "*")
    chk.require(
        not greedy, "R09a", call,
        f"the dotted-name rewrite {rc.pattern!r} matches the format spec greedily with {', '.join(sorted(set(greedy)))}, which admits '}}': when another field follows "
        f"without white space ('{{a.b:s}}.{{c.d:s}}') the match ends at the *last* brace, the second dotted name is never rewritten and rendering fails with a missing key",
        detail="dotted-name rewrite: format spec may run past the closing '}'", construct=con,
    )
    # .2 — an escaped '{{' is skipped
    verdict, why = _escape_aware(items, field_groups, template is not None)
    if verdict is None:
        chk.count("R09a.unknown_patterns")
        chk.note(f"R09a.2: shape of {rc.pattern!r} not recognised ({why}); escaped-brace handling not decided.")
    else:
        chk.require(
            verdict, "R09a", call,
            f"the dotted-name rewrite {rc.pattern!r} can take the second brace of an escaped '{{{{' as the opening brace of a field ({why}): "
            f"'{{{{1.5}}}}' — the literal text {{1.5}} for str.format — is rewritten to '{{{{sqlfluff[1.5]}}}}'",
            detail="dotted-name rewrite: escaped '{{' is not skipped", construct=con,
        )


def _after_field(items, field_groups: Set[int]) -> list:
    """Top-level items that follow the (last) field-name group in its alternative."""
    items = list(items)
    if len(items) == 1 and items[0][0] is rx.BRANCH:
        for b in items[0][1][1]:
            if any(op is rx.SUBPATTERN and av[0] in field_groups for op, av in rx.walk(b)):
                return _after_field(list(b), field_groups)
        return []
    last = -1
    for i, (op, av) in enumerate(items):
        if any(o is rx.SUBPATTERN and a[0] in field_groups for o, a in rx.walk([(op, av)])):
            last = i
    return items[last + 1:] if last >= 0 else []


def _escape_aware(items, field_groups: Set[int], repl_is_template: bool) -> Tuple[Optional[bool], str]:
    """True: escaped pairs are skipped; False: provably not; None: unknown shape."""
    items = list(items)
    if len(items) == 1 and items[0][0] is rx.BRANCH:
        alts = [list(b) for b in items[0][1][1]]
        fidx = [i for i, b in enumerate(alts) if any(op is rx.SUBPATTERN and av[0] in field_groups for op, av in rx.walk(b))]
        if not fidx:
            return None, "no alternative holds the field-name group"
        first_field = min(fidx)
        for b in alts[:first_field]:
            lang = rx.finite_language(b)
            if lang is not None and "{{" in lang:
                if repl_is_template:
                    return False, "an earlier alternative consumes '{{' but the replacement is a template, so the pair itself is rewritten with blank groups"
                return True, "earlier alternative consumes '{{'"
        # fall through: judge the field alternative on its own
        verdict, why = _escape_aware(alts[first_field], field_groups, repl_is_template)
        return verdict, why
    lead, rest = rx.strip_leading_assertions(items)
    if not rest:
        return None, "empty pattern"
    op, av = rest[0]
    if not (op is rx.LITERAL and av == ord("{")):
        # an optional run of escaped pairs in front of the opener: (?:{{)*{
        if op in rx.REPEATS:
            lang = rx.finite_language(av[2])
            if lang == {"{{"} and len(rest) > 1 and rest[1][0] is rx.LITERAL and rest[1][1] == ord("{"):
                return True, "run of '{{' pairs consumed in front of the opener"
        return None, "pattern does not open with a literal '{'"
    for negative, bodyitems in rx.lookbehinds(lead):
        if negative and len(bodyitems) == 1 and rx.atom_admits(bodyitems[0][0], bodyitems[0][1], "{"):
            # A look-around sees one neighbouring character: it cannot tell the second brace of an escaped
            # pair from a field opener that FOLLOWS an escaped pair ('{{{a.b}}}' = '{' + field + '}').
            return False, "a one-character look-behind for '{' also rejects a field that directly follows an escaped '{{' (as in '{{{a.b}}}'), which str.format renders"
    return False, "no alternative (or run of pairs) that consumes an escaped '{{' in front of the field"


def _r09a(chk, repo, render_fns) -> Dict[int, List[RegexCall]]:
    """Returns id(render fn) -> rewrite calls found in it."""
    rewrites: Dict[int, List[RegexCall]] = {}
    for rf in render_fns:
        cfg = cfg_of(rf)
        found: List[RegexCall] = []
        for c in walk_local(rf):
            if not isinstance(c, ast.Call):
                continue
            rc = regex_call(cfg, c)
            if rc is None or rc.fn not in ("sub", "subn") or not rc.args:
                continue
            magic, body = _repl_introduces_magic(cfg, rc.args[0], cfg.stmt_of(c))
            if not magic:
                continue
            found.append(rc)
            site = f"{module_of(c).relpath}:{c.lineno}"
            _r09a_pattern(chk, rc, cfg, body, site)
        rewrites[id(rf)] = found
        if not found:
            # accepted idiom: the rewrite is driven by Python's own format-string parser
            uses_formatter = any(
                (isinstance(n, ast.Call) and (last_attr(n) in ("parse", "formatter_parser", "get_field", "vformat")) and "ormatter" in norm(n.func))
                for n in ast.walk(rf)
            )
            chk.require(
                uses_formatter, "R09a", rf,
                "the render function neither rewrites dotted names to the 'sqlfluff' mapping with a regex nor drives the rewrite by string.Formatter: "
                "'{a.b}' is then an attribute lookup on 'a', not sqlfluff['a.b']",
                detail="dotted-name rewrite present",
            )
            if uses_formatter:
                chk.count("R09a.formatter_driven")
    return rewrites


# ---------------------------------------------------------------------------
# R09b
# ---------------------------------------------------------------------------


def _has_const(nodes, value) -> bool:
    return any(isinstance(n, ast.Constant) and n.value == value for n in nodes)


def _r09b(chk, repo, proc, render_fns, rewrites) -> None:
    for rf in render_fns:
        cfg = cfg_of(rf)
        params = [a.arg for a in rf.args.posonlyargs + rf.args.args]
        if not params:
            chk.fail("R09b", rf, "render function takes no source string", detail="render function signature")
            continue
        src_param = params[0]
        rw_calls = {id(rc.call): rc for rc in rewrites.get(id(rf), [])}
        fmt_driven = not rw_calls and any(
            isinstance(n, ast.Call) and last_attr(n) in ("parse", "formatter_parser") and n.args and is_param(cfg, n.args[0], cfg.stmt_of(n), src_param)
            for n in walk_local(rf)
        )
        rets = [r for r in walk_local(rf) if isinstance(r, ast.Return) and r.value is not None and cfg.reachable(r)]
        chk.count("R09b.render_returns", len(rets))
        for r in rets:
            for l in leaves(cfg, r.value, r):
                e = l.expr
                con = construct_of(r)
                if not (l.kind == "expr" and isinstance(e, ast.Call) and isinstance(e.func, ast.Attribute) and e.func.attr in FORMATTERS and not l.path):
                    chk.fail("R09b", r, f"the render function returns {l.text()!r}, which is not str.format / format_map / Formatter.vformat applied to the source",
                             detail=f"render result is a str.format-family call: {short(r, 80)}", construct=con)
                    continue
                kind = e.func.attr
                if kind == "format":
                    recv = e.func.value
                    star = [k.value for k in e.keywords if k.arg is None]
                    ctx = star[0] if len(star) == 1 and not e.args else None
                elif kind == "format_map":
                    recv = e.func.value
                    ctx = e.args[0] if len(e.args) == 1 else None
                else:
                    recv = e.args[0] if e.args else None
                    ctx = e.args[2] if len(e.args) > 2 else kwarg(e, "kwargs")
                # -- the formatted string is the rewrite of the unmodified parameter
                ok_recv = recv is not None
                why = ""
                for rl in (leaves(cfg, recv, l.stmt) if recv is not None else []):
                    if rl.kind == "expr" and id(rl.expr) in rw_calls and not rl.path:
                        rc = rw_calls[id(rl.expr)]
                        subj = rc.args[1] if len(rc.args) > 1 else None
                        if is_param(cfg, subj, cfg.stmt_of(rc.call), src_param) is None:
                            ok_recv, why = False, f"the rewrite is applied to {short(subj, 40) if subj is not None else '?'!r}, not to the unmodified parameter '{src_param}'"
                    elif fmt_driven:
                        pass  # Formatter-driven idiom: the string is assembled from Formatter().parse(<parameter>)
                    else:
                        ok_recv, why = False, f"the formatted string is {rl.text()!r}, not the dotted-name rewrite of '{src_param}'"
                chk.require(ok_recv, "R09b", e, f"render function: {why}; dotted names are not looked up in the 'sqlfluff' mapping or a different text is rendered",
                            detail=f"formatted string is the rewritten source: {short(e, 70)}", construct=con)
                # -- the context is the live context
                if ctx is None:
                    chk.fail("R09b", e, "cannot identify the mapping the format call renders with (expected **ctx / format_map(ctx) / vformat(s, (), ctx))",
                             detail=f"context argument: {short(e, 70)}", construct=con)
                    continue
                cls_ = leaves(cfg, ctx, l.stmt)
                direct = bool(cls_) and all(x.kind == "expr" and _is_get_context(x.expr) and not x.path for x in cls_)
                derived = direct or any(_is_get_context(n) for n in cone(cfg, ctx, l.stmt))
                chk.require(derived, "R09b", e, f"the format call renders with {short(ctx, 50)!r}, which does not derive from self.get_context(fname, config) — configured and override variables are ignored",
                            detail=f"context is the live context: {short(e, 70)}", construct=con)
                chk.sample({"rule": "R09b", "site": f"{module_of(e).relpath}:{e.lineno}", "call": short(e, 70), "context": "live" if direct else ("wrapped" if derived else "other")})
                if derived and not direct:
                    # a wrapper that makes up values must sit under ignore=templating
                    conds = cfg.conditions(r)
                    guarded = False
                    for ce, pol in conds:
                        nodes = cone(cfg, ce, r)
                        if pol and _has_const(nodes, "templating") and _has_const(nodes, "ignore"):
                            guarded = True
                    chk.require(guarded, "R09b", r, "the render function formats with a wrapper around the live context (missing keys get made-up values) on a path not guarded by the "
                                "'ignore = templating' switch: undefined variables render silently instead of failing",
                                detail="fallback context only under ignore=templating", construct=con)
                elif direct:
                    for x in cls_:
                        gc = x.expr
                        pcfg = x.cfg
                        bad = [a for a in list(gc.args) + [k.value for k in gc.keywords] if is_param(pcfg, a, x.stmt) is None]
                        chk.require(not bad, "R09b", gc, "get_context is not called with process' own fname/config parameters", detail="get_context(fname, config) from parameters",
                                    construct=construct_of(gc))


# ---------------------------------------------------------------------------
# R09e
# ---------------------------------------------------------------------------


def _passthrough_param(repo, callee, path: tuple) -> Optional[str]:
    """Parameter ``p`` of ``callee`` such that the selected component of every return
    value is ``p`` or a slice of ``p``."""
    cfg = cfg_of(callee)
    names: Set[str] = set()
    rets = [r for r in walk_local(callee) if isinstance(r, ast.Return) and r.value is not None]
    if not rets:
        return None
    for r in rets:
        for l in leaves(cfg, r.value, r, path):
            e = l.expr
            if l.kind == "param" and not l.path:
                names.add(e.arg)
                continue
            if l.kind == "expr" and not l.path and isinstance(e, ast.Subscript) and isinstance(e.slice, ast.Slice):
                p = is_param(cfg, e.value, l.stmt)
                if p:
                    names.add(p)
                    continue
            return None
    return next(iter(names)) if len(names) == 1 else None


def _derives_from_render(repo, cfg, e, at, path, render_param: str, src_param: str, seen: set, depth: int = 0) -> Tuple[bool, str, int]:
    """(ok, reason, number of render calls seen) — every leaf of ``e`` is
    ``render_param(src_param)`` or a pass-through helper applied to such a value."""
    n_render = 0
    for l in leaves(cfg, e, at, path):
        key = (id(l.expr), l.path)
        if key in seen:
            continue
        seen.add(key)
        x = l.expr
        if l.kind == "expr" and isinstance(x, ast.Call) and isinstance(x.func, ast.Name) and is_param(cfg, x.func, l.stmt, render_param) and not l.path:
            if len(x.args) == 1 and is_param(cfg, x.args[0], l.stmt, src_param):
                n_render += 1
                continue
            return False, f"the render function is called on {short(x.args[0], 40) if x.args else '?'!r}, not on the unmodified '{src_param}'", n_render
        if l.kind == "expr" and isinstance(x, ast.Call) and depth < 4:
            r = method_of(repo, x)
            if r is not None:
                callee = r[1]
                p = _passthrough_param(repo, callee, l.path)
                if p is not None:
                    actual = bind_args(x, callee, bound=is_method_bound(x, callee)).get(p)
                    if actual is not None:
                        ok, why, n = _derives_from_render(repo, cfg, actual, l.stmt, (), render_param, src_param, seen, depth + 1)
                        if not ok:
                            return ok, why, n_render
                        n_render += n
                        continue
        return False, f"the text comes from {l.text()!r}, which is neither {render_param}({src_param}) nor a pass-through of it", n_render
    return True, "", n_render


def _r09e(chk, repo, proc, render_fns) -> None:
    cfg = cfg_of(proc)
    tf_fields = ctor_fields(repo, repo.cls(BASE, "TemplatedFile"))
    rets = _templated_returns(repo, proc)
    chk.count("R09e.process_returns", len(rets))
    chk.floor("R09e.process_returns", 1)
    slice_fns = []
    for r, tf in rets:
        con = construct_of(r)
        src = ctor_arg(tf, tf_fields, "source_str")
        tpl = ctor_arg(tf, tf_fields, "templated_str")
        p_src = is_param(cfg, src, r)
        chk.require(p_src is not None, "R09e", tf, f"TemplatedFile.source_str is {short(src, 40) if src is not None else '?'!r}, not the unmodified source parameter",
                    detail="python process: source_str is the in_str parameter", construct=con)
        if tpl is None:
            chk.fail("R09e", tf, "python templater returns a TemplatedFile without rendered text", detail="python process: templated_str given", construct=con)
            continue
        for l in leaves(cfg, tpl, r):
            x = l.expr
            callee = method_of(repo, x) if isinstance(x, ast.Call) else None
            ok = l.kind == "expr" and callee is not None and l.path == (2,)
            chk.require(ok, "R09e", tf, f"templated_str is {l.text()!r}, not the third component of self.slice_file(...)",
                        detail="python process: templated_str is slice_file()[2]", construct=con)
            if not ok:
                continue
            sf = callee[1]
            if sf not in slice_fns:
                slice_fns.append(sf)
            b = bind_args(x, sf, bound=True)
            sparams = [a.arg for a in sf.args.posonlyargs + sf.args.args][1:]
            a_src = b.get(sparams[0]) if sparams else None
            chk.require(a_src is not None and p_src is not None and is_param(cfg, a_src, l.stmt, p_src) is not None, "R09e", x,
                        f"slice_file is given {short(a_src, 40) if a_src is not None else '?'!r} while TemplatedFile.source_str is '{p_src}': rendered text and slices describe a different string than the recorded source",
                        detail="python process: slice_file(source) is the same in_str", construct=con)
            a_rf = b.get("render_func") or (b.get(sparams[1]) if len(sparams) > 1 else None)
            defs = _nested_defs(cfg, a_rf, l.stmt) if a_rf is not None else []
            chk.require(bool(defs) and all(d in render_fns for d in defs), "R09e", x, "slice_file is not given the render function analysed by R09a/R09b",
                        detail="python process: slice_file(render_func) is the analysed closure", construct=con)
    for sf in slice_fns:
        scfg = cfg_of(sf)
        sparams = [a.arg for a in sf.args.posonlyargs + sf.args.args][1:]
        if len(sparams) < 2:
            raise AnalysisError("R09e: slice_file signature changed")
        src_param, render_param = sparams[0], ("render_func" if "render_func" in sparams else sparams[1])
        srets = [r for r in walk_local(sf) if isinstance(r, ast.Return) and r.value is not None]
        chk.count("R09e.slice_file_returns", len(srets))
        for r in srets:
            con = construct_of(r)
            ok, why, n = _derives_from_render(repo, scfg, r.value, r, (2,), render_param, src_param, set())
            chk.require(ok and n >= 1, "R09e", r, f"slice_file returns rendered text that is not {render_param}({src_param}): {why or 'no render call reaches the result'}",
                        detail="python slice_file: returned text is render_func(raw_str)", construct=con)
            # the raw slices come from the slicer applied to the same parameter
            good = False
            bad_arg = None
            for n_ in cone(scfg, r.value.elts[0] if isinstance(r.value, ast.Tuple) and r.value.elts else r.value, r):
                if isinstance(n_, ast.Call) and method_of(repo, n_) is not None and last_attr(n_) != "debug":
                    callee = method_of(repo, n_)[1]
                    if any(isinstance(y, ast.Call) and last_attr(y) == "parse" for y in ast.walk(callee)):
                        a0 = n_.args[0] if n_.args else None
                        if is_param(scfg, a0, scfg.stmt_of(n_), src_param):
                            good = True
                        else:
                            bad_arg = a0
            chk.require(good and bad_arg is None, "R09e", r,
                        f"the raw slices are not produced by the format-string slicer applied to the unmodified '{src_param}'"
                        + (f" (it is given {short(bad_arg, 40)!r})" if bad_arg is not None else ""),
                        detail="python slice_file: raw slices come from the slicer on raw_str", construct=con)


# ---------------------------------------------------------------------------
# R09c
# ---------------------------------------------------------------------------


def _styles_table(repo, chk):
    m = repo.mod(PH)
    getc = None
    for q, f in m.functions():
        if q.endswith(".get_context"):
            getc = f
    if getc is None:
        raise AnalysisError("R09c: placeholder get_context not found")
    cands = {}
    for node in m.tree.body:
        tgt = val = None
        if isinstance(node, ast.Assign) and len(node.targets) == 1:
            tgt, val = node.targets[0], node.value
        elif isinstance(node, ast.AnnAssign):
            tgt, val = node.target, node.value
        if isinstance(tgt, ast.Name) and isinstance(val, ast.Dict) and val.values:
            cands[tgt.id] = (node, val)
    used = [n.value.id for n in ast.walk(getc) if isinstance(n, ast.Subscript) and isinstance(n.value, ast.Name) and n.value.id in cands and isinstance(n.ctx, ast.Load)]
    if not used:
        raise AnalysisError("R09c: no module-level style table is indexed by get_context")
    return m, getc, cands[used[0]][0], cands[used[0]][1], used[0]


def _group_always_participates(items, gnum: int) -> Optional[bool]:
    """The group is on the spine of the pattern: not under ``?``/``*``/alternation."""
    for op, av in items:
        if op is rx.SUBPATTERN:
            if av[0] == gnum:
                return True
            r = _group_always_participates(av[3], gnum)
            if r is not None:
                return r
        elif op in rx.REPEATS:
            inside = any(o is rx.SUBPATTERN and a[0] == gnum for o, a in rx.walk(av[2]))
            if inside:
                if av[0] == 0:
                    return False
                return _group_always_participates(av[2], gnum)
        elif op is rx.BRANCH:
            hit = [any(o is rx.SUBPATTERN and a[0] == gnum for o, a in rx.walk(b)) for b in av[1]]
            if any(hit):
                if not all(hit):
                    return False
                return all(_group_always_participates(list(b), gnum) for b in av[1])
        elif op in (rx.ASSERT, rx.ASSERT_NOT, rx.GROUPREF_EXISTS):
            if any(o is rx.SUBPATTERN and a[0] == gnum for o, a in rx.walk(rx.children(op, av)[0] if rx.children(op, av) else [])):
                return False
    return None


def _r09c(chk, repo) -> None:
    m, getc, node, table, tname = _styles_table(repo, chk)
    con = f"{PH}::{tname}"
    keys = []
    for k, v in zip(table.keys, table.values):
        kn = const(k)
        chk.count("R09c.styles")
        if not isinstance(kn, str):
            chk.fail("R09c", k if k is not None else node, "style table key is not a string constant", detail=f"style key {short(k, 40) if k is not None else '**'}", construct=con)
            continue
        chk.require(kn not in keys, "R09c", k, f"style {kn!r} is listed twice: the later entry silently replaces the earlier one", detail=f"style {kn}: unique key", construct=con)
        keys.append(kn)
        ptxt = None
        if isinstance(v, ast.Call) and last_attr(v) == "compile" and v.args:
            ptxt = pattern_text(None, v.args[0])
        elif isinstance(v, ast.Constant) and isinstance(v.value, str):
            ptxt = v.value
        if ptxt is None:
            chk.fail("R09c", v, f"style {kn!r} is not a compiled pattern literal", detail=f"style {kn}: pattern literal", construct=con)
            continue
        pat = rx.parse(ptxt)
        if pat is None:
            # regex-module-only syntax (or a broken literal, which fails at import time and
            # is not this rule's business): unknown, never reported
            chk.count("R09c.unknown_patterns")
            chk.note(f"R09c: style {kn!r}: pattern not readable by the stdlib parser; structure not decided.")
            continue
        items = pat.items()
        gd = pat.groupdict
        if len(keys) <= 2 or "param_name" not in gd:
            chk.sample({"rule": "R09c", "style": kn, "pattern": ptxt, "groups": sorted(gd), "positional": "param_name" not in gd}, limit=8)
        chk.require(not rx.nullable(items), "R09c", v, f"style {kn!r}: pattern {ptxt!r} can match the empty string — a 'parameter' is found between every two characters",
                    detail=f"style {kn}: no empty match", construct=con)
        extra = sorted(set(gd) - {"param_name", "quotation"})
        chk.require(not extra, "R09c", v, f"style {kn!r} names group(s) {extra} that the templater never reads (it reads 'param_name' and 'quotation')",
                    detail=f"style {kn}: only known group names", construct=con)
        if pat.ngroups and "param_name" not in gd:
            chk.fail("R09c", v, f"style {kn!r} captures text but has no group called 'param_name': the templater then numbers the matches 1, 2, 3 … instead of using the captured name",
                     detail=f"style {kn}: capturing style names param_name", construct=con)
        else:
            chk.ok("R09c", con, f"style {kn}: capturing style names param_name")
        if "param_name" in gd:
            g = gd["param_name"]
            body = rx.group(items, g) or []
            chk.require(not rx.nullable(body), "R09c", v, f"style {kn!r}: the param_name group can be empty", detail=f"style {kn}: param_name non-empty", construct=con)
            part = _group_always_participates(items, g)
            chk.require(part is not False, "R09c", v, f"style {kn!r}: the param_name group is optional — when it does not take part the name is None and the rendered text cannot be built",
                        detail=f"style {kn}: param_name takes part in every match", construct=con)
        if "quotation" in gd:
            q = gd["quotation"]
            # a back-reference to the quotation group after the name group, on the spine
            top = list(items)
            pos_name = next((i for i, (op, av) in enumerate(top) if op is rx.SUBPATTERN and "param_name" in gd and av[0] == gd["param_name"]), None)
            refs = [i for i, (op, av) in enumerate(top) if op is rx.GROUPREF and av == q]
            chk.require(bool(refs) and (pos_name is None or max(refs) > pos_name), "R09c", v,
                        f"style {kn!r}: the quotation group is not back-referenced after the parameter name — an opening quote without the same closing quote is taken "
                        "as a quoted parameter and the templater adds a closing quote that is not in the source",
                        detail=f"style {kn}: quotation is back-referenced", construct=con)
    chk.floor("R09c.styles", 8)
    # the pattern the templater iterates with is the one get_context stored
    written = set()
    for n in ast.walk(getc):
        if isinstance(n, ast.Assign):
            for t in n.targets:
                if isinstance(t, ast.Subscript) and isinstance(const(t.slice), str):
                    written.add(const(t.slice))
    return written


# ---------------------------------------------------------------------------
# R09d
# ---------------------------------------------------------------------------

START, END, ZERO, LEN, UNK = "START", "END", "ZERO", "LEN", "?"
PREV = frozenset({ZERO, END})


class PH_:
    """Facts about PlaceholderTemplater.process."""

    def __init__(self, repo, fn):
        self.repo, self.fn, self.cfg = repo, fn, cfg_of(fn)
        self.src: Optional[str] = None
        self.loop: Optional[ast.For] = None

    # -- match object / positions ---------------------------------------
    def is_match(self, e: ast.AST, at) -> bool:
        ls = leaves(self.cfg, e, at)
        return bool(ls) and all(l.kind == "for" and l.stmt is self.loop and not l.path for l in ls)

    def is_src(self, e: ast.AST, at) -> bool:
        return self.src is not None and is_param(self.cfg, e, at, self.src) is not None

    def pos(self, e: Optional[ast.AST], at, _depth=0) -> frozenset:
        if e is None:
            return frozenset({UNK})
        out = set()
        for l in leaves(self.cfg, e, at):
            out |= self._pos_leaf(l, _depth)
        return frozenset(out)

    def _pos_leaf(self, l: Leaf, depth: int) -> set:
        x = l.expr
        if l.kind != "expr" or depth > 6:
            return {UNK}
        if isinstance(x, ast.Constant) and x.value == 0 and not l.path:
            return {ZERO}
        if isinstance(x, ast.Call) and isinstance(x.func, ast.Attribute) and self.is_match(x.func.value, l.stmt):
            whole = not x.args or (len(x.args) == 1 and const(x.args[0]) == 0)
            if x.func.attr == "span" and whole and len(l.path) == 1 and l.path[0] in (0, 1):
                return {START if l.path[0] == 0 else END}
            if x.func.attr == "start" and whole and not l.path:
                return {START}
            if x.func.attr == "end" and whole and not l.path:
                return {END}
            return {UNK}
        if isinstance(x, ast.Subscript) and not l.path and isinstance(const(x.slice), int):
            # <expr>[i] where <expr> is not a plain name (e.g. m.span()[0])
            inner = leaves(self.cfg, x.value, l.stmt, (const(x.slice),))
            s = set()
            for il in inner:
                s |= self._pos_leaf(il, depth + 1)
            return s
        if isinstance(x, ast.Call) and call_name(x) == "len" and len(x.args) == 1 and self.is_src(x.args[0], l.stmt) and not l.path:
            return {LEN}
        return {UNK}

    def lit(self, e: Optional[ast.AST], at) -> Optional[Tuple[frozenset, frozenset]]:
        """(lower, upper) when ``e`` is ``source[lower:upper]`` (through names)."""
        if e is None:
            return None
        res = set()
        for l in leaves(self.cfg, e, at):
            x = l.expr
            if l.kind == "expr" and not l.path and isinstance(x, ast.Subscript) and isinstance(x.slice, ast.Slice) and x.slice.step is None and self.is_src(x.value, l.stmt):
                lo = self.pos(x.slice.lower, l.stmt) if x.slice.lower is not None else frozenset({ZERO})
                hi = self.pos(x.slice.upper, l.stmt) if x.slice.upper is not None else frozenset({LEN})
                res.add((lo, hi))
            else:
                return None
        return next(iter(res)) if len(res) == 1 else None


class _AsAug:
    """``acc = acc + piece`` presented like ``acc += piece`` (``value`` is the piece)."""

    def __init__(self, node: ast.Assign):
        self.node = node
        self.op = node.value.op
        self.target = node.targets[0]
        self.value = node.value.right
        self.lineno, self.col_offset = node.lineno, node.col_offset


def _fmt(p: frozenset) -> str:
    if p == PREV:
        return "PREV"
    return "|".join(sorted(p))


def _r09d(chk, repo, written_keys: Set[str]) -> None:
    fn = None
    m = repo.mod(PH)
    for q, f in m.functions():
        if q.endswith(".process") and isinstance(f, FuncNode):
            fn = f
    if fn is None:
        raise AnalysisError("R09d: placeholder process not found")
    P = PH_(repo, fn)
    cfg = P.cfg
    con = construct_of(fn)
    tf_fields = ctor_fields(repo, repo.cls(BASE, "TemplatedFile"))
    rets = _templated_returns(repo, fn)
    chk.count("R09d.process_returns", len(rets))
    chk.floor("R09d.process_returns", 1)
    acc_names: Set[str] = set()
    for r, tf in rets:
        src = ctor_arg(tf, tf_fields, "source_str")
        p = is_param(cfg, src, r)
        chk.require(p is not None, "R09d", tf, "placeholder TemplatedFile.source_str is not the unmodified source parameter", detail="placeholder: source_str is the in_str parameter", construct=con)
        P.src = P.src or p
        tpl = ctor_arg(tf, tf_fields, "templated_str")
        if isinstance(tpl, ast.Name):
            acc_names.add(tpl.id)
        else:
            chk.fail("R09d", tf, "placeholder templated_str is not an accumulated local string", detail="placeholder: templated_str accumulator", construct=con)
    if P.src is None or len(acc_names) != 1:
        return
    acc = next(iter(acc_names))

    # -- the loop ----------------------------------------------------------
    loops = []
    for n in walk_local(fn):
        if isinstance(n, ast.For) and isinstance(n.iter, ast.Call) and last_attr(n.iter) == "finditer" and isinstance(n.iter.func, ast.Attribute) and isinstance(n.target, ast.Name):
            loops.append(n)
    chk.count("R09d.finditer_loops", len(loops))
    chk.floor("R09d.finditer_loops", 1)
    if len(loops) != 1:
        chk.fail("R09d", fn, "more than one finditer loop builds the placeholder output", detail="placeholder: single match loop", construct=con)
        return
    loop = P.loop = loops[0]
    it = loop.iter
    chk.require(len(it.args) >= 1 and P.is_src(it.args[0], loop), "R09d", it, f"parameters are searched in {short(it.args[0], 40) if it.args else '?'!r}, not in the unmodified source: "
                "match positions then do not index the source string that is copied and recorded", detail="placeholder: finditer over the source parameter", construct=con)
    ctx_calls = set()
    ok_rx = True
    key_used = None
    for l in leaves(cfg, it.func.value, loop):
        x = l.expr
        good = l.kind == "expr" and isinstance(x, ast.Subscript) and isinstance(const(x.slice), str) and not l.path
        if good:
            cl = leaves(cfg, x.value, l.stmt)
            good = bool(cl) and all(c.kind == "expr" and _is_get_context(c.expr) for c in cl)
            ctx_calls |= {id(c.expr) for c in cl}
            key_used = const(x.slice)
        ok_rx = ok_rx and good
    chk.require(ok_rx, "R09d", it, "the pattern iterated with is not the one get_context stored in the context", detail="placeholder: pattern comes from the context", construct=con)
    if key_used is not None:
        chk.require(key_used in written_keys, "R09d", it, f"process reads the pattern under {key_used!r} but get_context stores it under {sorted(written_keys)}", detail="placeholder: pattern key agrees with get_context", construct=con)

    def in_loop(n) -> bool:
        p = n
        while p is not None and p is not fn:
            if p is loop:
                return True
            p = getattr(p, "_parent", None)
        return False

    def is_ctx(e, at) -> bool:
        cl = leaves(cfg, e, at)
        return bool(cl) and all(c.kind == "expr" and _is_get_context(c.expr) and not c.path for c in cl)

    # -- parameter name ------------------------------------------------------
    counters: Dict[str, List[ast.AST]] = {}

    def group_of(x: ast.AST, at) -> Optional[str]:
        """'param_name' / 'quotation' when x reads that group of the current match."""
        if isinstance(x, ast.Subscript) and isinstance(const(x.slice), str) and P.is_match(x.value, at):
            return const(x.slice)
        if isinstance(x, ast.Call) and isinstance(x.func, ast.Attribute) and x.func.attr == "group" and len(x.args) == 1 and isinstance(const(x.args[0]), str) and P.is_match(x.func.value, at):
            return const(x.args[0])
        return None

    def is_counter(e: ast.AST, at) -> bool:
        """A plain local that only ever holds an integer literal advanced by ``+=``."""
        if not isinstance(e, ast.Name):
            return False
        ls = leaves(cfg, e, at)
        return bool(ls) and all(
            (l.kind == "expr" and isinstance(l.expr, ast.Constant) and isinstance(l.expr.value, int) and not isinstance(l.expr.value, bool) and not l.path)
            or (l.kind == "aug" and isinstance(l.expr, ast.Constant) and isinstance(l.expr.value, int))
            or (l.kind == "expr" and isinstance(l.expr, ast.BinOp) and isinstance(l.expr.op, ast.Add) and e.id in {norm(l.expr.left), norm(l.expr.right)})
            for l in ls
        )

    def name_leaf(l: Leaf) -> Optional[str]:
        """'group' / 'counter' when the leaf is the name of the current parameter."""
        x = l.expr
        if l.kind != "expr" or l.path:
            return None
        if group_of(x, l.stmt) == "param_name":
            return "group"
        if isinstance(x, ast.Call) and call_name(x) == "str" and len(x.args) == 1 and not x.keywords and is_counter(x.args[0], l.stmt):
            counters.setdefault(x.args[0].id, []).append(l.stmt)
            return "counter"
        return None

    def name_kind(e: ast.AST, at) -> Optional[Set[str]]:
        """{'group', 'counter'} when ``e`` can only be the parameter name, else None."""
        kinds = set()
        for l in leaves(cfg, e, at):
            k = name_leaf(l)
            if k is None:
                return None
            kinds.add(k)
        return kinds or None

    def ctx_lookup(x: ast.AST, at) -> Optional[str]:
        """'' when x is context[<parameter name>] / context.get(<name>, ..); a reason
        when it is a context lookup under something else; None when no lookup."""
        key = None
        if isinstance(x, ast.Subscript) and is_ctx(x.value, at):
            key = x.slice
        elif isinstance(x, ast.Call) and isinstance(x.func, ast.Attribute) and x.func.attr == "get" and x.args and is_ctx(x.func.value, at):
            key = x.args[0]
            if len(x.args) > 1 and name_kind(x.args[1], at) is None:
                return f"the default of {short(x, 50)!r} is not the parameter name"
        if key is None:
            return None
        if name_kind(key, at) is None:
            return f"the context is looked up under {short(key, 40)!r}, which is not the name of the matched parameter"
        return ""

    def repl_ok(e: ast.AST, at, seen: set) -> Optional[str]:
        """None when ``e`` is an accepted replacement text, else the reason."""
        for l in leaves(cfg, e, at):
            x = l.expr
            if (id(x), l.path) in seen:
                continue
            seen.add((id(x), l.path))
            if l.kind != "expr" or l.path:
                return f"{l.text()!r} is not derived from the matched parameter"
            if name_leaf(l) is not None:
                continue
            inner = x.args[0] if isinstance(x, ast.Call) and call_name(x) == "str" and len(x.args) == 1 and not x.keywords else x
            look = ctx_lookup(inner, l.stmt)
            if look == "":
                continue
            if look:
                return look
            if inner is not x and name_kind(inner, l.stmt):
                continue  # str(<name>)
            if isinstance(x, ast.BinOp) and isinstance(x.op, ast.Add):
                ops = concat_operands(x)

                def quote(o):
                    ol = leaves(cfg, o, l.stmt)
                    return len(ol) == 1 and ol[0].kind == "expr" and not ol[0].path and group_of(ol[0].expr, ol[0].stmt) == "quotation"

                if len(ops) == 3 and quote(ops[0]) and quote(ops[2]) and not quote(ops[1]):
                    why = repl_ok(ops[1], l.stmt, seen)
                    if why:
                        return why
                    continue
                return f"{short(x, 60)!r} does not put the quotation group of the match on both sides of the replacement"
            return f"{short(x, 60)!r} is neither the configured value nor the name of the matched parameter"
        return None

    # -- pieces appended to the rendered text ----------------------------------
    augs = [n for n in walk_local(fn) if isinstance(n, ast.AugAssign) and isinstance(n.target, ast.Name) and n.target.id == acc]
    plain = [n for n in walk_local(fn) if isinstance(n, (ast.Assign, ast.AnnAssign)) and any(isinstance(t, ast.Name) and t.id == acc for t in (n.targets if isinstance(n, ast.Assign) else [n.target]))]
    # ``acc = acc + piece`` is the same growth as ``acc += piece``: read it as one
    grown = [n for n in plain if isinstance(n, ast.Assign) and len(n.targets) == 1 and isinstance(n.value, ast.BinOp) and isinstance(n.value.op, ast.Add)
             and isinstance(n.value.left, ast.Name) and n.value.left.id == acc]
    plain = [n for n in plain if not any(n is g for g in grown)]
    augs = sorted(augs + [_AsAug(g) for g in grown], key=lambda n: (n.lineno, n.col_offset))
    for a in plain:
        chk.require(in_loop(a) is False and const(a.value) == "", "R09d", a, "the rendered text is re-assigned instead of accumulated from an empty string", detail="placeholder: output starts empty", construct=con)
    chk.count("R09d.output_pieces", len(augs))
    lit_in, repl_in, lit_after = [], [], []
    for a in augs:
        if not isinstance(a.op, ast.Add):
            chk.fail("R09d", a, "rendered text changed by something other than +=", detail=f"placeholder: output piece {short(a, 60)}", construct=con)
            continue
        if isinstance(a, _AsAug):
            a = a.node
            lu = P.lit(a.value.right, a)
            if lu is not None:
                (lit_in if in_loop(a) else lit_after).append((a, lu))
            elif in_loop(a):
                repl_in.append(a)
            else:
                chk.fail("R09d", a, f"text appended after the loop is {short(a.value.right, 50)!r}, not the rest of the source", detail="placeholder: tail piece is source[PREV:]", construct=con)
            continue
        lu = P.lit(a.value, a)
        if lu is not None:
            (lit_in if in_loop(a) else lit_after).append((a, lu))
        elif in_loop(a):
            repl_in.append(a)
        else:
            chk.fail("R09d", a, f"text appended after the loop is {short(a.value, 50)!r}, not the rest of the source", detail="placeholder: tail piece is source[PREV:]", construct=con)
    chk.require(len(lit_in) == 1 and len(repl_in) == 1, "R09d", loop,
                f"inside the match loop the rendered text must grow by exactly one literal copy of the source and one replacement (found {len(lit_in)} and {len(repl_in)})",
                detail="placeholder: one literal piece and one replacement per match", construct=con)
    chk.require(len(lit_after) == 1, "R09d", fn, f"after the loop exactly one literal copy of the rest of the source must be appended (found {len(lit_after)})",
                detail="placeholder: tail piece present", construct=con)
    unknown = 0

    def check_bounds(node, lu, want, what, detail):
        nonlocal unknown
        lo, hi = lu
        if UNK in lo or UNK in hi:
            unknown += 1
            return
        chk.require((lo, hi) == want, "R09d", node, f"{what} uses source[{_fmt(lo)}:{_fmt(hi)}], expected source[{_fmt(want[0])}:{_fmt(want[1])}] "
                    "(PREV = end of the previous match, 0 at first): text of the source is dropped or duplicated in the rendered SQL", detail=detail, construct=con)

    for a, lu in lit_in:
        check_bounds(a, lu, (PREV, frozenset({START})), "the literal copied before a parameter", "placeholder: literal piece is source[PREV:START]")
    for a, lu in lit_after:
        check_bounds(a, lu, (PREV, frozenset({LEN})), "the literal copied after the last parameter", "placeholder: tail piece is source[PREV:]")
    if len(lit_in) == 1 and len(repl_in) == 1:
        chk.require(cfg.dominates(lit_in[0][0], repl_in[0]), "R09d", repl_in[0], "the replacement is appended before the literal text that precedes the parameter",
                    detail="placeholder: literal before replacement", construct=con)
    for a in repl_in:
        why = repl_ok(a.value.right if isinstance(a, ast.Assign) else a.value, a, set())
        chk.require(why is None, "R09d", a, f"placeholder replacement: {why}", detail="placeholder: replacement is the context value or the name of the matched parameter", construct=con)

    # -- positional counter ------------------------------------------------------
    for cname, def_stmts in counters.items():
        inits = [n for n in walk_local(fn) if isinstance(n, (ast.Assign, ast.AnnAssign)) and not in_loop(n)
                 and any(isinstance(t, ast.Name) and t.id == cname for t in (n.targets if isinstance(n, ast.Assign) else [n.target]))]
        chk.require(len(inits) == 1 and const(inits[0].value) == 1, "R09d", inits[0] if inits else fn, "the positional parameter counter does not start at 1 (positional parameters are configured as 1, 2, 3 …)",
                    detail="placeholder: positional counter starts at 1", construct=con)
        incs = [n for n in walk_local(fn) if in_loop(n) and (
            (isinstance(n, ast.AugAssign) and isinstance(n.target, ast.Name) and n.target.id == cname)
            or (isinstance(n, ast.Assign) and any(isinstance(t, ast.Name) and t.id == cname for t in n.targets)))]
        good_inc = [n for n in incs if (isinstance(n, ast.AugAssign) and isinstance(n.op, ast.Add) and const(n.value) == 1)
                    or (isinstance(n, ast.Assign) and isinstance(n.value, ast.BinOp) and isinstance(n.value.op, ast.Add) and {norm(n.value.left), norm(n.value.right)} == {cname, "1"})]
        ok = len(incs) == 1 and len(good_inc) == 1
        if ok:
            inc = good_inc[0]
            uses = [s for s in set(def_stmts) if s is not None]
            body_entry = next((s for s in cfg.succ.get(loop, []) if isinstance(s, Branch) and s.polarity), None)
            for u in uses:
                # every way from the use back to the loop head passes the increment ...
                if cfg.paths_avoiding(u, loop, lambda n: n is inc):
                    ok = False
                # ... and the increment only happens when the counter was used
                if body_entry is not None and cfg.paths_avoiding(body_entry, inc, lambda n: n is u):
                    ok = False
        chk.require(ok, "R09d", incs[0] if incs else loop, "the positional counter is not advanced by exactly one for each match that was numbered with it: unnamed parameters all get the same number, or numbers are skipped",
                    detail="placeholder: positional counter advances once per numbered match", construct=con)
        chk.count("R09d.positional_counters")

    # -- PREV really is the end of the previous match -----------------------------
    # (already inside the abstract value: a lower bound that evaluates to {ZERO, END})

    # -- slice records -------------------------------------------------------------
    rfs_fields = ctor_fields(repo, repo.cls(BASE, "RawFileSlice"))
    tfs_fields = ctor_fields(repo, repo.cls(BASE, "TemplatedFileSlice"))
    n_rec = 0
    tfs_pairs_loop, tfs_pairs_after = [], []
    for c in walk_local(fn):
        if not isinstance(c, ast.Call):
            continue
        st = cfg.stmt_of(c)
        if resolves_to_class(repo, c, "RawFileSlice"):
            n_rec += 1
            raw = ctor_arg(c, rfs_fields, "raw")
            idx = ctor_arg(c, rfs_fields, "source_idx")
            lu = P.lit(raw, st)
            if lu is None:
                chk.fail("R09d", c, f"RawFileSlice.raw is {short(raw, 40) if raw is not None else '?'!r}, not a slice of the source", detail=f"placeholder: raw slice text is a source slice ({'loop' if in_loop(c) else 'tail'})", construct=con)
                continue
            ip = P.pos(idx, st)
            if UNK in ip or UNK in lu[0]:
                unknown += 1
                continue
            chk.require(ip == lu[0], "R09d", c, f"RawFileSlice records source_idx={_fmt(ip)} for the text source[{_fmt(lu[0])}:{_fmt(lu[1])}]: the slice map points at a different place than the text it holds",
                        detail=f"placeholder: RawFileSlice.source_idx is the start of its text ({_fmt(lu[0])}:{_fmt(lu[1])})", construct=con)
            (tfs_pairs_loop if in_loop(c) else tfs_pairs_after).append(("raw", lu))
            _R09I_RECORDS.append((c, lu, ctor_arg(c, rfs_fields, "slice_type"), st))
        elif resolves_to_class(repo, c, "TemplatedFileSlice"):
            n_rec += 1
            ss = ctor_arg(c, tfs_fields, "source_slice")
            ty = const(ctor_arg(c, tfs_fields, "slice_type"))
            if not isinstance(ty, str):
                ty = "computed-type"  # judged by R09i; here only the bounds matter
            if not (isinstance(ss, ast.Call) and call_name(ss) == "slice" and len(ss.args) >= 2):
                unknown += 1
                continue
            lu = (P.pos(ss.args[0], st), P.pos(ss.args[1], st))
            if UNK in lu[0] or UNK in lu[1]:
                unknown += 1
                continue
            (tfs_pairs_loop if in_loop(c) else tfs_pairs_after).append((ty, lu))
            _R09I_RECORDS.append((c, lu, ctor_arg(c, tfs_fields, "slice_type"), st))
    chk.count("R09d.slice_records", n_rec)
    chk.floor("R09d.slice_records", 4)
    want_lit = (PREV, frozenset({START}))
    want_par = (frozenset({START}), frozenset({END}))
    # R09i: the records whose source bounds are the span of the match are 'templated', whatever the value
    n_i = 0
    for c, lu, t, st_ in _R09I_RECORDS:
        if lu != want_par:
            continue
        n_i += 1
        vals = [t]
        if isinstance(t, ast.Name):
            vals = [o.expr for o in origins(P.cfg, t, st_)] if hasattr(P, "cfg") else [t]
        ok = bool(vals) and all(isinstance(v, ast.Constant) and v.value == "templated" for v in vals)
        chk.require(
            ok, "R09i", c,
            f"the slice record of a matched placeholder gets the type {[short(v, 20) if isinstance(v, ast.AST) else v for v in vals]}: a placeholder recorded as 'literal' claims that the "
            "rendered text equals the source text at that place (`1234` for `:uid`), and fixes are then allowed to edit it as if it were source",
            detail="placeholder process: a matched parameter is a 'templated' slice",
        )
    del _R09I_RECORDS[:]
    chk.count("R09i.match_slice_records", n_i)
    chk.require(n_i >= 2, "R09i", loop, "the slice records of the matched placeholder (templated-file slice and raw slice over the span of the match) were not found", detail="placeholder process: match records found")
    want_tail = (PREV, frozenset({LEN}))
    for ty, lu in tfs_pairs_loop:
        want = want_lit if (ty == "literal" or (ty == "raw" and lu[0] == PREV)) else want_par
        if ty == "raw" and lu not in (want_lit, want_par):
            want = want_lit if lu[0] == PREV or lu[1] == frozenset({START}) else want_par
        chk.require(lu == want, "R09d", loop, f"a {'RawFileSlice' if ty == 'raw' else ty + ' TemplatedFileSlice'} inside the loop covers source[{_fmt(lu[0])}:{_fmt(lu[1])}], expected source[{_fmt(want[0])}:{_fmt(want[1])}]: "
                    "the recorded slices do not describe the text that was copied",
                    detail=f"placeholder: {ty} slice record in loop covers {_fmt(want[0])}:{_fmt(want[1])}", construct=con)
    for ty, lu in tfs_pairs_after:
        chk.require(lu == want_tail, "R09d", fn, f"the {'RawFileSlice' if ty == 'raw' else 'TemplatedFileSlice'} after the loop covers source[{_fmt(lu[0])}:{_fmt(lu[1])}], expected source[PREV:LEN]",
                    detail=f"placeholder: {ty} slice record of the tail covers PREV:LEN", construct=con)
    for want, name in ((want_lit, "literal before a parameter"), (want_par, "parameter")):
        for kind in ("raw", "tfs"):
            have = [1 for ty, lu in tfs_pairs_loop if lu == want and ((ty == "raw") == (kind == "raw"))]
            chk.require(len(have) == 1, "R09d", loop, f"expected exactly one {'RawFileSlice' if kind == 'raw' else 'TemplatedFileSlice'} per match for the {name} (found {len(have)})",
                        detail=f"placeholder: one {kind} record per match for the {name}", construct=con)
    chk.count("R09d.unknown_positions", unknown)
    chk.sample({"rule": "R09d", "source_param": P.src, "accumulator": acc, "literal_piece": [(_fmt(a), _fmt(b)) for _, (a, b) in lit_in], "tail_piece": [(_fmt(a), _fmt(b)) for _, (a, b) in lit_after],
                "records_in_loop": [(ty, _fmt(a), _fmt(b)) for ty, (a, b) in tfs_pairs_loop], "unknown_positions": unknown}, limit=24)


# ---------------------------------------------------------------------------


def _walk_skipping_classes(fn):
    """Nodes of a method body including nested functions (closures share `self`), but not nested classes."""
    stack = list(ast.iter_child_nodes(fn))
    while stack:
        n = stack.pop()
        if isinstance(n, ast.ClassDef):
            continue
        yield n
        stack.extend(ast.iter_child_nodes(n))


def _r09f(chk, repo) -> None:
    """`Linter` creates one templater and calls process() once per file with that file's config
    (nested .sqlfluff files, inline directives).  Anything a templater memoises on itself from one
    call -- a compiled param_regex, a context, an environment -- is applied to every later file."""
    n_cls = n_store = 0
    for rel in (PH, PY, "src/sqlfluff/core/templaters/base.py", "src/sqlfluff/core/templaters/jinja.py"):
        m = repo.mod(rel)
        for qc, c in m.classes():
            if not any(cc.name == "RawTemplater" for _, cc in repo.mro(m, c)):
                continue
            n_cls += 1
            for item in c.body:
                if not isinstance(item, (ast.FunctionDef, ast.AsyncFunctionDef)) or item.name == "__init__":
                    continue
                for n in _walk_skipping_classes(item):
                    tgs = n.targets if isinstance(n, ast.Assign) else ([n.target] if isinstance(n, (ast.AugAssign, ast.AnnAssign)) else [])
                    stores = [x for t in tgs for x in ast.walk(t) if isinstance(x, ast.Attribute) and isinstance(x.value, ast.Name) and x.value.id == "self" and isinstance(x.ctx, ast.Store)]
                    muts = []
                    if isinstance(n, ast.Call) and isinstance(n.func, ast.Attribute) and n.func.attr in ("update", "setdefault", "append", "add", "pop", "clear", "extend", "__setitem__"):
                        v = n.func.value
                        if isinstance(v, ast.Attribute) and isinstance(v.value, ast.Name) and v.value.id == "self":
                            muts.append(v)
                    subs = [x for t in tgs for x in ast.walk(t) if isinstance(x, ast.Subscript) and isinstance(x.ctx, ast.Store) and isinstance(x.value, ast.Attribute)
                            and isinstance(x.value.value, ast.Name) and x.value.value.id == "self"]
                    for x in stores + muts + subs:
                        n_store += 1
                        chk.fail(
                            "R09f", n,
                            f"{c.name}.{item.name} keeps state on the templater object (`{short(n, 70)}`): the Linter reuses this object for every file, so what was derived "
                            "from one file's config or text is applied to the next one (e.g. a compiled param_regex survives into a directory with its own setting)",
                            detail=f"{c.name}.{item.name}: store to self outside __init__: {short(x, 50)}",
                        )
    chk.count("R09f.templater_classes", n_cls)
    chk.count("R09f.stores_outside_init", n_store)
    chk.floor("R09f.templater_classes", 4)
    if not n_store:
        chk.ok("R09f", "core templater classes", "no store to self outside __init__")


_R09I_RECORDS: list = []


def _r09j(chk, repo) -> None:
    f = repo.fn(PY, "PythonTemplater.infer_type")
    cfg = cfg_of(f)
    params = [a.arg for a in f.args.args if a.arg not in ("self", "cls")]
    if not params:
        raise AnalysisError("R09j: infer_type has no parameter; re-confirm the anchor by hand")
    p0 = params[0]
    n = 0
    for r in [r for r in walk_local(f) if isinstance(r, ast.Return)]:
        n += 1
        v = r.value
        vals = [v]
        if isinstance(v, ast.Name):
            os_ = origins(cfg, v, r)
            if os_ and all(o.kind == "param" and o.expr.arg == p0 for o in os_):
                continue
            vals = [o.expr for o in os_ if o.kind == "expr"] or [v]
        ok = all(isinstance(x, ast.Call) and last_attr(x) == "literal_eval" and x.args and isinstance(x.args[0], ast.Name) and all(o.kind == "param" for o in origins(cfg, x.args[0], r)) for x in vals)
        chk.require(
            ok, "R09j", r,
            f"infer_type returns `{short(v, 40) if v is not None else 'None'}`, which is neither ast.literal_eval(<value>) nor the value as given: a context string such as 'true' or 'none' then "
            "renders as a converted object (`True`, `None`) instead of the text that was configured",
            detail="infer_type: literal_eval result or the value itself",
        )
    chk.count("R09j.infer_type_returns", n)
    chk.floor("R09j.infer_type_returns", 2)


def _r09h(chk, repo) -> None:
    f = repo.fn("src/sqlfluff/core/templaters/base.py", "RawTemplater.get_context")
    cfg = cfg_of(f)

    def role(e, at) -> Optional[str]:
        t = norm(e)
        if t == "self.default_context":
            return "default"
        if t == "self.override_context":
            return "override"
        if isinstance(e, ast.Name):
            os_ = origins(cfg, e, at)
            if os_ and all(o.kind == "expr" for o in os_) and any(isinstance(x, ast.Call) and last_attr(x) == "get_section" for o in os_ for x in ast.walk(o.expr)):
                return "config"
        if any(isinstance(x, ast.Call) and last_attr(x) == "get_section" for x in ast.walk(e)):
            return "config"
        return None

    rets = [r for r in walk_local(f) if isinstance(r, ast.Return) and r.value is not None]
    n = 0
    for r in rets:
        v = r.value
        order: Optional[List[str]] = None  # lowest priority first
        base = v
        if isinstance(v, ast.Call) and call_name(v) == "dict" and len(v.args) == 1:
            base = v.args[0]
        if isinstance(base, ast.Name):
            # a fresh dict filled by update() calls
            name = base.id
            ups = []
            for st in walk_local(f):
                if isinstance(st, ast.Expr) and isinstance(st.value, ast.Call) and last_attr(st.value) == "update" and isinstance(st.value.func, ast.Attribute) \
                        and isinstance(st.value.func.value, ast.Name) and st.value.func.value.id == name and st.value.args and cfg.reaches(st, r):
                    ups.append(st)
            ups.sort(key=lambda x: x.lineno)
            if ups and all(cfg.dominates(a, b) for a, b in zip(ups, ups[1:])):
                order = [role(u.value.args[0], u) for u in ups]
            else:
                os_ = origins(cfg, base, r)
                base = os_[0].expr if len(os_) == 1 and os_[0].kind == "expr" else base
        if order is None and isinstance(base, ast.Dict) and all(k is None for k in base.keys):
            order = [role(x, r) for x in base.values]
        if order is None and isinstance(base, ast.Call) and (call_name(base) or "").split(".")[-1] == "ChainMap":
            order = [role(x, r) for x in reversed(base.args)]
        if order is None and isinstance(base, ast.BinOp) and isinstance(base.op, ast.BitOr):
            parts, cur = [], base
            while isinstance(cur, ast.BinOp) and isinstance(cur.op, ast.BitOr):
                parts.insert(0, cur.right)
                cur = cur.left
            parts.insert(0, cur)
            order = [role(x, r) for x in parts]
        if order is None:
            raise AnalysisError(f"R09h: cannot read how get_context layers its sources ({short(v, 60)}); re-confirm the anchor by hand")
        n += 1
        seq = [o for o in order if o is not None]
        chk.require(
            seq == ["default", "config", "override"], "R09h", r,
            f"get_context layers its sources as {' < '.join(str(o) for o in order)} (lowest first), not default < config < override: a value from the configuration file is shadowed by a "
            "built-in default of the same name (or an override loses against the file)",
            detail="get_context: default < config < override",
        )
    chk.count("R09h.context_returns", n)
    chk.floor("R09h.context_returns", 1)


def _r09g(chk, repo) -> None:
    """``_substring_occurrences`` compares occurrence counts of a literal in the source and in the rendered text to
    find invariant anchors; a count that skips overlapping occurrences (``))`` inside ``)))``) anchors a literal at an
    earlier offset, the last slice stops short and the rendered text is trimmed to it."""
    f = repo.fn("src/sqlfluff/core/helpers/string.py", "findall")
    users = [c for q, g in repo.mod(PY).functions() for c in calls_in(g) if isinstance(c.func, ast.Name) and c.func.id == "findall"]
    chk.count("R09g.slicer_uses_of_findall", len(users))
    chk.floor("R09g.slicer_uses_of_findall", 1)
    ys = [y for y in walk_local(f) if isinstance(y, ast.Yield) and isinstance(y.value, ast.Name)]
    if not ys:
        raise AnalysisError("R09g: findall no longer yields a position variable; re-confirm the anchor by hand")
    pos = {y.value.id for y in ys}
    n = 0
    for l in [l for l in walk_local(f) if isinstance(l, ast.While)]:
        for st in ast.walk(l):
            if isinstance(st, ast.Assign) and len(st.targets) == 1 and isinstance(st.targets[0], ast.Name) and st.targets[0].id in pos \
                    and isinstance(st.value, ast.Call) and last_attr(st.value) in ("find", "index"):
                n += 1
                a = st.value.args[1] if len(st.value.args) > 1 else None
                if isinstance(a, ast.Name) and a.id not in pos:
                    # the resume position computed into a local first
                    from ..cfg import origins as _origins

                    os_ = _origins(cfg_of(f), a, st)
                    if len(os_) == 1 and os_[0].kind == "expr" and not os_[0].path and isinstance(os_[0].expr, ast.AST):
                        a = os_[0].expr
                ok = (
                    isinstance(a, ast.BinOp) and isinstance(a.op, ast.Add)
                    and ((isinstance(a.left, ast.Name) and a.left.id in pos and isinstance(a.right, ast.Constant) and a.right.value == 1)
                         or (isinstance(a.right, ast.Name) and a.right.id in pos and isinstance(a.left, ast.Constant) and a.left.value == 1))
                )
                chk.require(
                    ok, "R09g", st,
                    f"findall resumes its search at `{short(a, 40) if a is not None else 'the start'}`, not one character after the last hit: overlapping occurrences are not counted, "
                    "the python templater's slicer anchors a repeated-character literal (`))`, a blank line) too early and the rendered text is cut short",
                    detail="findall: search resumes one character after the last hit",
                )
    chk.count("R09g.resume_sites", n)
    chk.floor("R09g.resume_sites", 1)


def run(chk) -> None:
    repo = chk.repo
    chk.rule("R09a", "the dotted-name rewrite of the python templater cannot swallow or mis-read escaped braces (regex AST: field-name atoms exclude '{' and '}', an escaped '{{' is skipped)")
    chk.rule("R09b", "the python render function returns str.format/format_map/vformat of the rewritten, unmodified source with the live context; a fallback wrapper only under ignore=templating")
    chk.rule("R09c", "KNOWN_STYLES is well formed: distinct keys, compiling non-nullable patterns, capturing styles name a mandatory non-empty param_name, quotation is back-referenced")
    chk.rule("R09d", "placeholder process: output = source[PREV:START] + replacement per match + source[PREV:]; replacement is the context value or name of the matched/numbered parameter; slice records use the same bounds")
    chk.rule("R09e", "python templater: the same unmodified in_str feeds slice_file, the raw slicer, the render function and TemplatedFile.source_str; templated_str is slice_file's render result")

    chk.rule("R09i", "a matched placeholder is recorded as template output, whatever its value: the slice records built for the span of a match (TemplatedFileSlice and RawFileSlice whose bounds are the match's span) carry the constant slice type 'templated'")
    chk.rule("R09j", "a context value that is not a Python literal is used as it was given: PythonTemplater.infer_type returns ast.literal_eval(<value>) or the value itself, nothing else")
    _r09j(chk, repo)
    chk.rule("R09h", "the templating context is layered default < config < override: RawTemplater.get_context puts self.default_context lowest, the section loaded from the config above it and self.override_context on top")
    _r09h(chk, repo)
    chk.rule("R09g", "the occurrence counter the python templater's slicer relies on (helpers.string.findall) reports every occurrence, overlapping ones included: after a hit at idx the search resumes at idx + 1")
    _r09g(chk, repo)

    proc = repo.fn(PY, "PythonTemplater.process")
    cfg = cfg_of(proc)
    # the render function: nested def handed to slice_file as render_func
    render_fns: List[ast.AST] = []
    for c in walk_local(proc):
        if isinstance(c, ast.Call):
            r = method_of(repo, c)
            if r is None:
                continue
            b = bind_args(c, r[1], bound=True)
            a = b.get("render_func")
            if a is None:
                continue
            for d in _nested_defs(cfg, a, cfg.stmt_of(c)):
                if d not in render_fns:
                    render_fns.append(d)
    chk.count("R09.render_functions", len(render_fns))
    chk.floor("R09.render_functions", 1)

    rewrites = _r09a(chk, repo, render_fns)
    _r09b(chk, repo, proc, render_fns, rewrites)
    _r09e(chk, repo, proc, render_fns)
    chk.rule("R09f", "a templater object keeps nothing it derived from one file's config or text: the core templater classes store to self only in __init__ (a Linter reuses one templater for every file, each with its own config)")
    _r09f(chk, repo)
    written = _r09c(chk, repo)
    _r09d(chk, repo, written)


# ---------------------------------------------------------------------------
from ..selftest import Variant  # noqa: E402

HSTR = "src/sqlfluff/core/helpers/string.py"

VARIANTS = [
    Variant(
        "infer-type-converts-config-words", PY,
        "        except (SyntaxError, ValueError):\n            return s\n",
        "        except (SyntaxError, ValueError):\n            if isinstance(s, str) and s.strip().lower() in (\"true\", \"false\"):\n                return s.strip().lower() == \"true\"\n            return s\n",
        "R09j", "infer_type", "seeded C09-8: a context value 'true' renders as `True`",
    ),
    Variant(
        "context-defaults-above-the-config", "src/sqlfluff/core/templaters/base.py",
        "        live_context.update(self.default_context)\n        live_context.update(loaded_context)\n",
        "        live_context.update(loaded_context)\n        live_context.update(self.default_context)\n",
        "R09h", "get_context", "seeded C09-6 (same effect): a `test_value` set in the config file renders as `__test__`",
    ),
    Variant(
        "quiet-context-as-one-display", "src/sqlfluff/core/templaters/base.py",
        "        live_context = {}\n        live_context.update(self.default_context)\n        live_context.update(loaded_context)\n        live_context.update(self.override_context)\n\n        return live_context\n",
        "        return {**self.default_context, **loaded_context, **self.override_context}\n",
        "QUIET", None, "R09h: the same layering as one dict display",
    ),
    # behaviour-preserving refactors: must stay quiet
    Variant(
        "quiet-span-from-start-and-end", PH,
        "            span = found_param.span()\n",
        "            span = (found_param.start(), found_param.end())\n",
        "QUIET", None, "span() spelled as (start(), end())",
    ),
    Variant(
        "quiet-output-grows-by-plain-assignment", PH,
        "            out_str += in_str[last_pos_raw : span[0]]\n",
        "            out_str = out_str + in_str[last_pos_raw : span[0]]\n",
        "QUIET", None, "+= spelled as x = x + y",
    ),
    Variant(
        "quiet-literal-piece-through-local", PH,
        "            out_str += in_str[last_pos_raw : span[0]]\n",
        "            literal_text = in_str[last_pos_raw : span[0]]\n            out_str += literal_text\n",
        "QUIET", None, "copied literal through a local",
    ),
    Variant(
        "quiet-replacement-conditional-expression", PH,
        "            if param_name in context:\n                replacement = str(context[param_name])\n            else:\n                replacement = param_name\n",
        "            replacement = str(context[param_name]) if param_name in context else param_name\n",
        "QUIET", None, "if/else assignment spelled as a conditional expression",
    ),
    Variant(
        "quiet-replacement-by-get-with-default", PH,
        "            if param_name in context:\n                replacement = str(context[param_name])\n            else:\n                replacement = param_name\n",
        "            replacement = str(context.get(param_name, param_name))\n",
        "QUIET", None, "membership test + lookup spelled as .get(name, name)",
    ),
    Variant(
        "quiet-named-branch-first-counter-spelled-out", PH,
        "            if \"param_name\" not in found_param.groupdict():\n                param_name = str(param_counter)\n                param_counter += 1\n            else:\n                param_name = found_param[\"param_name\"]\n",
        "            if \"param_name\" in found_param.groupdict():\n                param_name = found_param.group(\"param_name\")\n            else:\n                param_name = str(param_counter)\n                param_counter = param_counter + 1\n",
        "QUIET", None, "branches swapped, .group(), += 1 spelled out",
    ),
    Variant(
        "quiet-pattern-read-inline", PH,
        "        regex = context[\"__bind_param_regex\"]\n        # when the param has no name, use a 1-based index\n        param_counter = 1\n        for found_param in regex.finditer(in_str):\n",
        "        # when the param has no name, use a 1-based index\n        param_counter = 1\n        for found_param in context[\"__bind_param_regex\"].finditer(in_str):\n",
        "QUIET", None, "pattern read from the context in the loop header",
    ),
    Variant(
        "quiet-tail-test-mirrored-and-length-local", PH,
        "        if len(in_str) > last_pos_raw:\n",
        "        source_len = len(in_str)\n        if last_pos_raw < source_len:\n",
        "QUIET", None, "comparison mirrored, length through a local",
    ),
    Variant(
        "quiet-quotation-read-by-group-call", PH,
        "                quotation = found_param[\"quotation\"]\n                replacement = quotation + replacement + quotation\n",
        "                quote_char = found_param.group(\"quotation\")\n                replacement = quote_char + replacement + quote_char\n",
        "QUIET", None, "group read with .group(), local renamed",
    ),
    Variant(
        "quiet-findall-resume-position-through-local", HSTR,
        "        idx = in_str.find(substr, idx + 1)\n",
        "        resume_at = idx + 1\n        idx = in_str.find(substr, resume_at)\n",
        "QUIET", None, "resume position through a local",
    ),
    Variant(
        "quiet-python-format-receiver-through-local", PY,
        "                rendered_str = raw_str_with_dot_notation_hack.format(**live_context)\n",
        "                template_text = raw_str_with_dot_notation_hack\n                rendered_str = template_text.format(**live_context)\n",
        "QUIET", None, "rewritten text through one more local",
    ),
    # breaking twins in the spellings the QUIET sweep taught the rules to read
    Variant(
        "output-grows-by-plain-assignment-from-the-wrong-start", PH,
        "            out_str += in_str[last_pos_raw : span[0]]\n",
        "            out_str = out_str + in_str[last_pos_raw : span[1]]\n",
        "R09d", "process", "x = x + y spelling; the literal copy runs to the end of the match (parameter text duplicated)",
    ),
    Variant(
        "output-restarted-inside-the-loop", PH,
        "            out_str += in_str[last_pos_raw : span[0]]\n",
        "            out_str = in_str[last_pos_raw : span[0]]\n",
        "R09d", "process", "plain assignment that drops what was accumulated",
    ),
    Variant(
        "findall-resume-position-through-local-skips-overlaps", HSTR,
        "        idx = in_str.find(substr, idx + 1)\n",
        "        resume_at = idx + len(substr)\n        idx = in_str.find(substr, resume_at)\n",
        "R09g", "findall", "resume after the whole hit, through a local",
    ),
    Variant(
        "findall-skips-overlapping-occurrences", "src/sqlfluff/core/helpers/string.py",
        "        idx = in_str.find(substr, idx + 1)\n",
        "        idx = in_str.find(substr, idx + len(substr))\n",
        "R09g", "findall", "seeded C09-3: `({inner}))` with a value ending in `)` loses its last bracket",
    ),
    Variant(
        "quiet-findall-offset-written-the-other-way-round", "src/sqlfluff/core/helpers/string.py",
        "        idx = in_str.find(substr, idx + 1)\n",
        "        idx = in_str.find(substr, 1 + idx)\n",
        "QUIET", None, "R09g: operands swapped",
    ),
    Variant(
        "rewrite-escapes-by-lookaround", PY,
        'r"{{|}}|{([^:{}]*\\.[^:{}]*)(:\\S*?)?}", _dot_notation_hack, raw_str',
        'r"(?<!{){([^:{}]*\\.[^:{}]*)(:\\S*?)?}(?!})", lambda m: "{sqlfluff[%s]%s}" % (m.group(1), m.group(2) or ""), raw_str',
        "R09a", "escaped '{{' is not skipped", "seeded C09-1: '{{{obj.table}}}' fails with a missing key",
    ),
    Variant(
        "placeholder-regex-memoised-on-the-templater", PH,
        "            live_context[\"__bind_param_regex\"] = regex.compile(\n                live_context[\"param_regex\"]\n            )\n",
        "            if getattr(self, \"_custom_bind_regex\", None) is None:\n                self._custom_bind_regex = regex.compile(live_context[\"param_regex\"])\n            live_context[\"__bind_param_regex\"] = self._custom_bind_regex\n",
        "R09f", "PlaceholderTemplater.get_context", "seeded C09-2: the first file's param_regex is used for every later file",
    ),
    # ---- behaviour-preserving edits: the check must stay quiet --------------------
    Variant(
        "quiet-span-through-second-local", PH,
        "            span = found_param.span()\n",
        "            m_span = found_param.span()\n            span = m_span\n",
        "QUIET", None, "match span passed through a temp",
    ),
    Variant(
        "quiet-literal-piece-hoisted", PH,
        "            out_str += in_str[last_pos_raw : span[0]]\n",
        "            literal_text = in_str[last_pos_raw : span[0]]\n            out_str += literal_text\n",
        "QUIET", None, "copied literal computed once into a local",
    ),
    Variant(
        "quiet-replacement-as-conditional-expression", PH,
        "            if param_name in context:\n                replacement = str(context[param_name])\n            else:\n                replacement = param_name\n",
        "            replacement = str(context[param_name]) if param_name in context else param_name\n",
        "QUIET", None, "if/else turned into a conditional expression",
    ),
    Variant(
        "quiet-slice-bounds-via-start-end", PH,
        "                    source_slice=slice(span[0], span[1]),\n",
        "                    source_slice=slice(found_param.start(), found_param.end()),\n",
        "QUIET", None, "m.start()/m.end() instead of m.span()[i]",
    ),
    Variant(
        "quiet-context-through-alias", PY,
        "                rendered_str = raw_str_with_dot_notation_hack.format(**live_context)\n",
        "                ctx = live_context\n                rendered_str = raw_str_with_dot_notation_hack.format(**ctx)\n",
        "QUIET", None, "context passed through a local alias",
    ),
    Variant(
        "quiet-get-context-keywords", PY,
        "        live_context = self.get_context(fname, config)\n        ignore_templating = config and",
        "        live_context = self.get_context(fname=fname, config=config)\n        ignore_templating = config and",
        "QUIET", None, "keyword arguments instead of positional",
    ),
    Variant(
        "quiet-render-result-through-temp", PY,
        "        templated_str = render_func(raw_str)\n",
        "        rendered = render_func(raw_str)\n        templated_str = rendered\n",
        "QUIET", None, "render result passed through a temp",
    ),
    # ---- breaking edits ---------------------------------------------------------------
    Variant(
        "rewrite-field-class-admits-closing-brace", PY,
        'r"{{|}}|{([^:{}]*\\.[^:{}]*)(:\\S*?)?}"',
        'r"{{|}}|{([^:{]*\\.[^:{]*)(:\\S*?)?}"',
        "R09a", "field name may contain '}'",
    ),
    # the next four are keyed on the text of the proposed repair of R09a (stale until it lands)
    Variant(
        "repaired-rewrite-field-class-admits-opening-brace", PY,
        'r"{{|}}|{([^:{}]*\\.[^:{}]*)(:\\S*?)?}"',
        'r"{{|}}|{([^:}]*\\.[^:}]*)(:\\S*?)?}"',
        "R09a", "field name may contain '{'",
    ),
    Variant(
        "repaired-rewrite-escaped-pair-alternative-dropped", PY,
        'r"{{|}}|{([^:{}]*\\.[^:{}]*)(:\\S*?)?}"',
        'r"{([^:{}]*\\.[^:{}]*)(:\\S*?)?}"',
        "R09a", "escaped '{{' is not skipped",
    ),
    Variant(
        "repaired-rewrite-format-spec-greedy-again", PY,
        'r"{{|}}|{([^:{}]*\\.[^:{}]*)(:\\S*?)?}"',
        'r"{{|}}|{([^:{}]*\\.[^:{}]*)(:\\S*)?}"',
        "R09a", "format spec may run past the closing '}'",
    ),
    Variant(
        "repaired-rewrite-applied-to-stripped-source", PY,
        "_dot_notation_hack, raw_str\n",
        "_dot_notation_hack, raw_str.strip()\n",
        "R09b", "formatted string is the rewritten source",
    ),
    Variant(
        "render-formats-unrewritten-source", PY,
        "                rendered_str = raw_str_with_dot_notation_hack.format(**live_context)\n",
        "                rendered_str = raw_str.format(**live_context)\n",
        "R09b", "formatted string is the rewritten source",
    ),
    Variant(
        "render-ignores-configured-context", PY,
        "                rendered_str = raw_str_with_dot_notation_hack.format(**live_context)\n",
        "                rendered_str = raw_str_with_dot_notation_hack.format(**self.override_context)\n",
        "R09b", "context is the live context",
    ),
    Variant(
        "fallback-context-without-ignore-switch", PY,
        "            if ignore_templating:\n                # When ignoring templating errors, use a fallback dict that\n",
        "            if True:\n                # When ignoring templating errors, use a fallback dict that\n",
        "R09b", "fallback context only under ignore=templating",
    ),
    Variant(
        "rewrite-applied-to-stripped-source", PY,
        '_dot_notation_hack, raw_str\n',
        '_dot_notation_hack, raw_str.strip()\n',
        "R09b", "formatted string is the rewritten source",
    ),
    Variant(
        "python-process-slices-a-trimmed-copy", PY,
        "        raw_sliced, sliced_file, new_str = self.slice_file(\n            in_str,\n",
        "        raw_sliced, sliced_file, new_str = self.slice_file(\n            in_str.rstrip(),\n",
        "R09e", "slice_file(source) is the same in_str",
    ),
    Variant(
        "python-slicer-fed-the-rendered-text", PY,
        "        raw_sliced = list(self._slice_template(raw_str))\n",
        "        raw_sliced = list(self._slice_template(templated_str))\n",
        "R09e", "raw slices come from the slicer on raw_str",
    ),
    Variant(
        "python-render-on-newline-normalised-copy", PY,
        "        templated_str = render_func(raw_str)\n",
        "        templated_str = render_func(raw_str.replace(\"\\r\\n\", \"\\n\"))\n",
        "R09e", "returned text is render_func(raw_str)",
    ),
    Variant(
        "style-quotation-backreference-dropped", PH,
        '(?P<param_name>[\\w_]+)\\1", regex.UNICODE',
        '(?P<param_name>[\\w_]+)[\'\\"]?", regex.UNICODE',
        "R09c", "colon_optional_quotes: quotation is back-referenced",
    ),
    Variant(
        "style-name-group-renamed", PH,
        'r"(?<![:\\w\\x5c])%\\((?P<param_name>[\\w_]+)\\)s"',
        'r"(?<![:\\w\\x5c])%\\((?P<name>[\\w_]+)\\)s"',
        "R09c", "style pyformat",
    ),
    Variant(
        "style-name-may-be-empty", PH,
        'r"(?<!&)&{?(?P<param_name>[\\w]+)}?"',
        'r"(?<!&)&{?(?P<param_name>[\\w]*)}?"',
        "R09c", "ampersand: param_name non-empty",
    ),
    Variant(
        "literal-copied-up-to-match-end", PH,
        "            out_str += in_str[last_pos_raw : span[0]]\n",
        "            out_str += in_str[last_pos_raw : span[1]]\n",
        "R09d", "literal piece is source[PREV:START]",
    ),
    Variant(
        "last-position-set-to-match-start", PH,
        "            last_pos_raw = span[1]\n",
        "            last_pos_raw = span[0]\n",
        "R09d", "literal piece is source[PREV:START]",
    ),
    Variant(
        "positional-counter-never-advanced", PH,
        "                param_name = str(param_counter)\n                param_counter += 1\n",
        "                param_name = str(param_counter)\n",
        "R09d", "positional counter advances once per numbered match",
    ),
    Variant(
        "positional-counter-starts-at-zero", PH,
        "        param_counter = 1\n",
        "        param_counter = 0\n",
        "R09d", "positional counter starts at 1",
    ),
    Variant(
        "closing-quote-dropped", PH,
        "                replacement = quotation + replacement + quotation\n",
        "                replacement = quotation + replacement\n",
        "R09d", "replacement is the context value or the name",
    ),
    Variant(
        "context-looked-up-under-whole-match", PH,
        "                replacement = str(context[param_name])\n",
        "                replacement = str(context[found_param.group(0)])\n",
        "R09d", "replacement is the context value or the name",
    ),
    Variant(
        "raw-slice-index-at-match-end", PH,
        "                    slice_type=\"templated\",\n                    source_idx=span[0],\n",
        "                    slice_type=\"templated\",\n                    source_idx=span[1],\n",
        "R09d", "RawFileSlice.source_idx is the start of its text",
    ),
    Variant(
        "tail-literal-not-appended", PH,
        "            out_str += in_str[last_pos_raw:]\n",
        "            pass\n",
        "R09d", "tail piece present",
    ),
    Variant(
        "parameters-searched-in-lowercased-copy", PH,
        "        for found_param in regex.finditer(in_str):\n",
        "        for found_param in regex.finditer(in_str.lower()):\n",
        "R09d", "finditer over the source parameter",
    ),
]
